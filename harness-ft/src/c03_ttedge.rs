//! F. threshold-edge TrueType programs.
//!
//! `c03_ttfuzz.rs` draws random programs; a comparison inside an opcode handler (`>` vs `>=`, the
//! sign test of auto-flip, "is this ppem the delta's ppem") is only exercised when the two compared
//! quantities happen to be equal or adjacent, which random operands practically never are.  This layer is
//! SYSTEMATIC instead: for every opcode family whose result depends on a comparison or threshold
//! held in the graphics state there is a generator that places the operands AT the boundary
//! (equal, one unit = 1/64 px either side, far either side), in both signs, for every flag
//! combination of the opcode, with the glyph zone and the twilight zone.  Both interpreters (the
//! linked FreeType's and skrifa's) run the programs; every point of the result is compared through
//! the whole-outline differential (each glyph point is an on-curve point of the path).
//!
//! The operands are placed exactly by SELF-CALIBRATION: the program measures the quantity the
//! opcode is going to compare (e.g. `GC[1] p - GC[1] rp0`, the original distance MIRP sees) with
//! instructions that are themselves compared, adds `threshold + k` and writes the result where the
//! opcode reads its other operand (`WCVTP`, `SMD`, `SSWCI`, `SDB` …).  That makes the boundary hit
//! exact at EVERY ppem, not only where the scale is a power of two.
//!
//! `TABLE` below is the map (family, graphics-state thresholds read, how operands are placed).
use crate::fvlib::common::*;
use read_fonts::tables::glyf::CurvePoint;
use write_fonts::tables::glyf::{Bbox, Contour, GlyfLocaBuilder, Glyph, SimpleGlyph};
use write_fonts::tables::{head::Head, hhea::Hhea, hmtx::Hmtx, hmtx::LongMetric, maxp::Maxp};

pub const TABLE: &[(&str, &str, &str)] = &[
    ("mirp-cutin", "control_value_cutin (SCVTCI), auto_flip, zp0==zp1, round_state; all 32 flag combinations",
     "cvt := s*(GC[1]p - GC[1]rp0) +/- (cutin + k), k in {-1,0,1,+-41,+-300}, cutin in {0,17,68,200}, both signs of the original distance, cvt sign flipped with FLIPON/FLIPOFF, x and y"),
    ("mirp-mindist", "minimum_distance (SMD), sign of the original distance; flag b, rounded and unrounded",
     "cvt in {m-1,m,m+1,-m-1,-m,-m+1,0,31,32,33,95,96,97} against SMD m in {0,1,63,64,65,128}; original distance >0, <0, =0"),
    ("mirp-sw", "single_width_value (SSW), single_width_cutin (SSWCI)",
     "sw read back as RCVT(WCVTF(sw)); cvt := +-(sw +- (swci + k)), k in {-1,0,1}"),
    ("mirp-zones", "zp0/zp1 in {glyph,twilight}^2 (cut-in only when equal, twilight point re-seated), diagonal projection",
     "same operands as mirp-cutin per zone pair; twilight results copied to a glyph point with GC/SCFS; sweep of 9 consecutive cvt values under a diagonal dual projection vector"),
    ("miap", "control_value_cutin, round_state; flag a; zp0 glyph / twilight",
     "point first displaced (SHPIX) so that cur != org; cvt := GC[0]p +- (cutin + k)"),
    ("mdrp", "single_width_value/cutin, minimum_distance, round_state; all 32 flag combinations; zones",
     "swci := |MD[1] - sw| + k; SMD := ROUND(MD[1]) + k resp. |MD[1]| + k; distances of both signs and 0"),
    ("mdap", "round_state on the current projection, zp0 (not zp1/zp2); flag a", "positions set with SCFS on rounding boundaries +-1 in both signs; glyph and twilight zone with the other zone pointers elsewhere"),
    ("msirp", "zp1 twilight re-seat, rp0 flag", "distances 0, +-1, +-32, +-64, +-65 glyph/twilight"),
    ("delta", "ppem == delta_base + 16*range + rel, delta_shift, magnitude nibble, backward-compatibility touch test",
     "SDB := MPPEM - r so that rel r fires at every size; rel r-1, r, r+1; all 16 magnitudes; SDS 0..6; DELTAP1-3/DELTAC1-3; touched / untouched / after IUP"),
    ("round", "round_state (8 modes, SROUND/S45ROUND selectors), engine compensation bits",
     "ROUND[ab]/NROUND[ab] for ab in 0..3 on period boundaries +-1 in both signs; ODD/EVEN on 32+-1, 96+-1"),
    ("ip", "org(p) <= org(rp1), >= org(rp2), in between; rp1==rp2; twilight",
     "points at rp1-1, rp1, rp1+1, mid, rp2-1, rp2, rp2+1 in font units, reference points displaced by different amounts, both orders"),
    ("iup", "untouched point <=, between, >= the touched neighbours; equal neighbour coordinates; 0/1/2 touched",
     "untouched points at lo-1, lo, lo+1, mid, hi-1, hi, hi+1; references with equal and reversed coordinates"),
    ("shift", "SHP/SHC/SHZ reference point excluded from its own contour/zone, SHPIX backward-compatibility touch test",
     "reference in / outside the shifted contour, a=0/1, glyph and twilight zones, touched and untouched targets, before/after IUP"),
    ("align", "ALIGNPTS halves the distance (odd values, both signs); ALIGNRP", "distances 0, +-1, +-2, +-3, +-63, +-65 set with SCFS"),
    ("isect", "parallel-line test 19*|discriminant| <= |dot|", "line B rotated against line A by 0..4 degrees in fine steps, plus perpendicular and degenerate (zero length) lines"),
    ("vectors", "projection / dual projection / freedom vector in SCFS, GC, MD, MDRP", "SPVTL/SFVTL/SDPVTL[a] on axis-parallel, 45 degree and nearly-parallel point pairs; SPVFS/SFVFS of unnormalised vectors; SFVTPV; moves with fv.pv small"),
    ("fdotp", "F_dot_P = pv . fv: the clamp |F_dot_P| < 0x400 -> 0x4000, the x-only / y-only move fast paths (F_dot_P == 0x4000 with an axis freedom vector), fv component == 0",
     "pv on an axis, fv := SFVFS(k, 16352) resp. (16352, k) with k in 1020..1028, +-, 0 (vectors are scale free: the same F_dot_P at every ppem): F_dot_P = 1023 / 1024 / 1025 exactly; then SCFS, MSIRP, MDRP, SHP, ALIGNRP, IP along that freedom vector; pv := SPVFS of the same vectors against fv on an axis"),
    ("flip", "FLIPPT/FLIPRGON/FLIPRGOFF ranges", "lo==hi, full range, first/last point, loop counts"),
    ("info", "MPPEM/MPS/GETINFO selector bits x rendering target, INSTCTRL selectors/values in prep and glyph, SCANCTRL/SCANTYPE",
     "every single GETINFO selector bit and all-ones; INSTCTRL (selector,value) in {1,2,3}x{0,flag,other}; results stored into point coordinates"),
    ("flow", "JROT/JROF/JMPR, IF/ELSE, LT/LTEQ/GT/GTEQ/EQ/NEQ, MAX/MIN on equal, +-1", "operands a, a+-1 in both orders"),
];

// ------------------------------------------------------------------------------------------------
// assembler
// ------------------------------------------------------------------------------------------------

#[derive(Default, Clone)]
pub struct P {
    pub c: Vec<u8>,
}

#[allow(dead_code)]
pub mod o {
    pub const SVTCA_Y: u8 = 0x00;
    pub const SVTCA_X: u8 = 0x01;
    pub const SPVTCA_Y: u8 = 0x02;
    pub const SPVTCA_X: u8 = 0x03;
    pub const SFVTCA_Y: u8 = 0x04;
    pub const SFVTCA_X: u8 = 0x05;
    pub const SPVTL: u8 = 0x06;
    pub const SFVTL: u8 = 0x08;
    pub const SPVFS: u8 = 0x0A;
    pub const SFVFS: u8 = 0x0B;
    pub const SFVTPV: u8 = 0x0E;
    pub const ISECT: u8 = 0x0F;
    pub const SRP0: u8 = 0x10;
    pub const SRP1: u8 = 0x11;
    pub const SRP2: u8 = 0x12;
    pub const SZP0: u8 = 0x13;
    pub const SZP1: u8 = 0x14;
    pub const SZP2: u8 = 0x15;
    pub const SZPS: u8 = 0x16;
    pub const SLOOP: u8 = 0x17;
    pub const RTG: u8 = 0x18;
    pub const RTHG: u8 = 0x19;
    pub const SMD: u8 = 0x1A;
    pub const ELSE: u8 = 0x1B;
    pub const JMPR: u8 = 0x1C;
    pub const SCVTCI: u8 = 0x1D;
    pub const SSWCI: u8 = 0x1E;
    pub const SSW: u8 = 0x1F;
    pub const DUP: u8 = 0x20;
    pub const POP: u8 = 0x21;
    pub const SWAP: u8 = 0x23;
    pub const ALIGNPTS: u8 = 0x27;
    pub const UTP: u8 = 0x29;
    pub const MDAP: u8 = 0x2E;
    pub const IUP_Y: u8 = 0x30;
    pub const IUP_X: u8 = 0x31;
    pub const SHP: u8 = 0x32;
    pub const SHC: u8 = 0x34;
    pub const SHZ: u8 = 0x36;
    pub const SHPIX: u8 = 0x38;
    pub const IP: u8 = 0x39;
    pub const MSIRP: u8 = 0x3A;
    pub const ALIGNRP: u8 = 0x3C;
    pub const RTDG: u8 = 0x3D;
    pub const MIAP: u8 = 0x3E;
    pub const WS: u8 = 0x42;
    pub const RS: u8 = 0x43;
    pub const WCVTP: u8 = 0x44;
    pub const RCVT: u8 = 0x45;
    pub const GC_CUR: u8 = 0x46;
    pub const GC_ORG: u8 = 0x47;
    pub const SCFS: u8 = 0x48;
    pub const MD_CUR: u8 = 0x49;
    pub const MD_ORG: u8 = 0x4A;
    pub const MPPEM: u8 = 0x4B;
    pub const MPS: u8 = 0x4C;
    pub const FLIPON: u8 = 0x4D;
    pub const FLIPOFF: u8 = 0x4E;
    pub const LT: u8 = 0x50;
    pub const ODD: u8 = 0x56;
    pub const EVEN: u8 = 0x57;
    pub const IF: u8 = 0x58;
    pub const EIF: u8 = 0x59;
    pub const DELTAP1: u8 = 0x5D;
    pub const SDB: u8 = 0x5E;
    pub const SDS: u8 = 0x5F;
    pub const ADD: u8 = 0x60;
    pub const SUB: u8 = 0x61;
    pub const DIV: u8 = 0x62;
    pub const MUL: u8 = 0x63;
    pub const ABS: u8 = 0x64;
    pub const NEG: u8 = 0x65;
    pub const ROUND: u8 = 0x68;
    pub const NROUND: u8 = 0x6C;
    pub const WCVTF: u8 = 0x70;
    pub const DELTAP2: u8 = 0x71;
    pub const DELTAP3: u8 = 0x72;
    pub const DELTAC1: u8 = 0x73;
    pub const DELTAC2: u8 = 0x74;
    pub const DELTAC3: u8 = 0x75;
    pub const SROUND: u8 = 0x76;
    pub const S45ROUND: u8 = 0x77;
    pub const JROT: u8 = 0x78;
    pub const JROF: u8 = 0x79;
    pub const ROFF: u8 = 0x7A;
    pub const RUTG: u8 = 0x7C;
    pub const RDTG: u8 = 0x7D;
    pub const FLIPPT: u8 = 0x80;
    pub const FLIPRGON: u8 = 0x81;
    pub const FLIPRGOFF: u8 = 0x82;
    pub const SCANCTRL: u8 = 0x85;
    pub const SDPVTL: u8 = 0x86;
    pub const GETINFO: u8 = 0x88;
    pub const MAX: u8 = 0x8B;
    pub const MIN: u8 = 0x8C;
    pub const SCANTYPE: u8 = 0x8D;
    pub const INSTCTRL: u8 = 0x8E;
    pub const MDRP: u8 = 0xC0;
    pub const MIRP: u8 = 0xE0;
}
use o::*;

impl P {
    pub fn new() -> Self {
        P { c: vec![] }
    }
    pub fn op(&mut self, b: u8) -> &mut Self {
        self.c.push(b);
        self
    }
    pub fn ops(&mut self, b: &[u8]) -> &mut Self {
        self.c.extend_from_slice(b);
        self
    }
    /// push values (first pushed first); deterministic encoding: PUSHB when every value fits a byte
    pub fn push(&mut self, vals: &[i32]) -> &mut Self {
        for chunk in vals.chunks(8) {
            if chunk.iter().all(|v| (0..=255).contains(v)) {
                self.c.push(0xB0 + chunk.len() as u8 - 1);
                for v in chunk {
                    self.c.push(*v as u8);
                }
            } else if chunk.iter().all(|v| (-32768..=32767).contains(v)) {
                self.c.push(0xB8 + chunk.len() as u8 - 1);
                for v in chunk {
                    self.c.extend_from_slice(&(*v as i16).to_be_bytes());
                }
            } else {
                for v in chunk {
                    self.push32(*v);
                }
            }
        }
        self
    }
    /// any i32 (built from 16-bit pushes with exact MUL/ADD, as in c03_bytecode.rs)
    pub fn push32(&mut self, v: i32) -> &mut Self {
        if (-32768..=32767).contains(&v) {
            return self.push(&[v]);
        }
        let hi = v >> 16;
        let lo = v & 0xFFFF;
        self.push(&[hi, 0x4000]).op(MUL).push(&[0x4000]).op(MUL);
        if lo <= 32767 {
            self.push(&[lo]).op(ADD);
        } else {
            self.push(&[32767]).op(ADD).push(&[lo - 32767]).op(ADD);
        }
        self
    }
    pub fn svtca(&mut self, x: bool) -> &mut Self {
        self.op(if x { SVTCA_X } else { SVTCA_Y })
    }
    pub fn set(&mut self, opcode: u8, v: i32) -> &mut Self {
        self.push(&[v]).op(opcode)
    }
    /// GC[org|cur] of point `p` in zone `z` (leaves the value on the stack; zp2 stays at `z`)
    pub fn gc(&mut self, z: i32, p: i32, org: bool) -> &mut Self {
        self.set(SZP2, z).push(&[p]).op(if org { GC_ORG } else { GC_CUR })
    }
    /// copy the current coordinate (along the projection vector) of twilight point `t` to glyph point `q`
    pub fn observe_twilight(&mut self, t: i32, q: i32) -> &mut Self {
        self.push(&[q]).gc(0, t, false).set(SZP2, 1).op(SCFS)
    }
    pub fn add_k(&mut self, k: i32) -> &mut Self {
        if k != 0 {
            self.push(&[k]).op(ADD);
        }
        self
    }
}

pub struct EdgeGlyph {
    pub label: String,
    pub pts: Vec<(i16, i16, bool)>,
    /// index of the last point of every contour
    pub ends: Vec<usize>,
    pub code: Vec<u8>,
}

pub struct EdgeFont {
    pub family: &'static str,
    pub glyphs: Vec<EdgeGlyph>,
    pub prep: Vec<u8>,
    pub fpgm: Vec<u8>,
    pub cvt: Vec<i16>,
    pub upem: u16,
}

pub const N_CVT: usize = 64;
pub const N_TWILIGHT: u16 = 16;

pub fn build_font(f: &EdgeFont) -> Vec<u8> {
    let mut b = GlyfLocaBuilder::new();
    b.add_glyph(&Glyph::Empty).unwrap();
    let mut max_points = 0;
    let mut max_contours = 1;
    let mut max_ins = f.fpgm.len().max(f.prep.len());
    for g in &f.glyphs {
        let mut contours = vec![];
        let mut start = 0;
        for &e in &g.ends {
            let pts: Vec<CurvePoint> = g.pts[start..=e].iter().map(|(x, y, on)| CurvePoint::new(*x, *y, *on)).collect();
            contours.push(Contour::from(pts));
            start = e + 1;
        }
        max_points = max_points.max(g.pts.len());
        max_contours = max_contours.max(g.ends.len());
        max_ins = max_ins.max(g.code.len());
        let mut sg = SimpleGlyph { bbox: Bbox::default(), contours, instructions: g.code.clone() };
        sg.recompute_bounding_box();
        b.add_glyph(&sg).unwrap();
    }
    let (glyf, loca, fmt) = b.build();
    let n = f.glyphs.len() as u16 + 1;
    let head = Head { units_per_em: f.upem, index_to_loc_format: fmt as i16, magic_number: 0x5F0F3CF5, ..Default::default() };
    let maxp = Maxp {
        num_glyphs: n,
        max_points: Some(max_points as u16),
        max_contours: Some(max_contours as u16),
        max_composite_points: Some(0),
        max_composite_contours: Some(0),
        max_zones: Some(2),
        max_twilight_points: Some(N_TWILIGHT),
        max_storage: Some(16),
        max_function_defs: Some(8),
        max_instruction_defs: Some(0),
        max_stack_elements: Some(512),
        max_size_of_instructions: Some(max_ins.min(65535) as u16),
        max_component_elements: Some(0),
        max_component_depth: Some(0),
    };
    let up = f.upem as i16;
    let hhea = Hhea { number_of_h_metrics: n, ascender: (up / 5 * 4).into(), descender: (-up / 5).into(), ..Default::default() };
    let hmtx = Hmtx::new((0..n).map(|i| LongMetric::new(f.upem / 2 + (i % 7) * 13, 0)).collect(), vec![]);
    let mut fb = write_fonts::FontBuilder::new();
    fb.add_table(&head).unwrap();
    fb.add_table(&maxp).unwrap();
    fb.add_table(&hhea).unwrap();
    fb.add_table(&hmtx).unwrap();
    fb.add_table(&glyf).unwrap();
    fb.add_table(&loca).unwrap();
    let mut cvt = f.cvt.clone();
    cvt.resize(N_CVT, 0);
    let be: Vec<u8> = cvt.iter().flat_map(|v| v.to_be_bytes()).collect();
    fb.add_raw(read_fonts::types::Tag::new(b"cvt "), be);
    if !f.fpgm.is_empty() {
        fb.add_raw(read_fonts::types::Tag::new(b"fpgm"), f.fpgm.clone());
    }
    if !f.prep.is_empty() {
        fb.add_raw(read_fonts::types::Tag::new(b"prep"), f.prep.clone());
    }
    fb.build()
}

// ------------------------------------------------------------------------------------------------
// geometry helpers
// ------------------------------------------------------------------------------------------------

/// `n` pairs (A_i, B_i) with B_i = A_i + (d_i, d_i): points 2i and 2i+1, one contour, all on-curve.
fn pairs(ds: &[i16]) -> (Vec<(i16, i16, bool)>, Vec<usize>) {
    let mut pts = vec![];
    for (i, &d) in ds.iter().enumerate() {
        let ax = 100 + 23 * i as i16;
        let ay = 60 + 31 * i as i16;
        pts.push((ax, ay, true));
        pts.push((ax + d, ay + d, true));
    }
    let e = pts.len() - 1;
    (pts, vec![e])
}

const ROUND_OPS: [(u8, Option<i32>, &str); 9] = [
    (RTG, None, "rtg"),
    (RTHG, None, "rthg"),
    (RTDG, None, "rtdg"),
    (RDTG, None, "rdtg"),
    (RUTG, None, "rutg"),
    (ROFF, None, "roff"),
    (SROUND, Some(0x48), "sround48"),
    (SROUND, Some(0x9D), "sround9d"),
    (S45ROUND, Some(0x5A), "s45round5a"),
];

fn round_op(p: &mut P, i: usize) -> &'static str {
    let (op, sel, name) = ROUND_OPS[i % ROUND_OPS.len()];
    if let Some(s) = sel {
        p.push(&[s]);
    }
    p.op(op);
    name
}

/// every twilight point gets a defined original and current position (FreeType keeps the zone in the
/// size object; MIAP in the twilight zone sets both), here `(17*t, 17*t)` scaled: cvt index 32+t
fn init_twilight(p: &mut P) {
    p.set(SZP0, 0).set(SZP1, 0);
    for t in 0..N_TWILIGHT as i32 {
        // x from cvt 32+t (MIAP in the twilight zone sets original and current position to cvt*fv),
        // y by MSIRP from the point itself (re-seats the original position at rp0 + d*fv)
        p.svtca(true).push(&[t, 32 + t]).op(MIAP);
        p.svtca(false).set(SRP0, t).push(&[t, 29 * t - 100]).op(MSIRP);
    }
    p.set(SZP0, 1).set(SZP1, 1);
}

fn base_cvt() -> Vec<i16> {
    let mut v = vec![0i16; N_CVT];
    for t in 0..N_TWILIGHT as usize {
        v[32 + t] = 17 * t as i16 + 40;
    }
    v
}

// ------------------------------------------------------------------------------------------------
// families
// ------------------------------------------------------------------------------------------------

/// offsets of the second operand from the first around a threshold `t`: equal operands, |offset| = t-1, t,
/// t+1 (one unit either side of the threshold), far beyond, on both sides
fn es(t: i32) -> Vec<i32> {
    vec![0, t - 1, t, t + 1, t + 41, -(t - 1), -t, -(t + 1), -(t + 41), t + 300, -(t + 300)]
}

/// MIRP: control-value cut-in, auto-flip, all 32 flag combinations (glyph zone).
fn mirp_cutin(thorough: bool) -> Vec<EdgeGlyph> {
    let mut out = vec![];
    let cutins: &[i32] = if thorough { &[0, 1, 17, 64, 68, 200] } else { &[0, 17, 68, 200] };
    // pairs: (distance in font units, index into es(cutin), flip the cvt sign)
    let mut ds = vec![];
    let mut cfg = vec![];
    for &d in &[300i16, -300] {
        for e in 0..11usize {
            for flipc in [false, true] {
                ds.push(d);
                cfg.push((e, flipc));
            }
        }
    }
    // original distance 0 and +-1 font unit: the auto-flip sign test ((org ^ cvt) < 0)
    for &d in &[0i16, 1, -1] {
        for e in [0usize, 2, 6] {
            ds.push(d);
            cfg.push((e, false));
        }
    }
    let (pts, ends) = pairs(&ds);
    let mut rs = 0;
    for flags in 0..32u8 {
        for &cutin in cutins {
            for flip_on in [true, false] {
                let mut p = P::new();
                p.set(SCVTCI, cutin);
                p.op(if flip_on { FLIPON } else { FLIPOFF });
                let rname = round_op(&mut p, rs);
                rs += 1;
                for axis_x in [false, true] {
                    p.svtca(axis_x);
                    let el = es(cutin);
                    for (i, &(e, flipc)) in cfg.iter().enumerate() {
                        let (a, b) = (2 * i as i32, 2 * i as i32 + 1);
                        p.set(SRP0, a);
                        // cvt[i] := +-(org(b) - org(a)) + e,  e around the cut-in
                        p.push(&[i as i32 % 30]);
                        p.gc(1, b, true).gc(1, a, true).op(SUB);
                        if flipc {
                            p.op(NEG);
                        }
                        p.add_k(el[e]);
                        p.op(WCVTP);
                        p.push(&[b, i as i32 % 30]).op(MIRP + flags);
                    }
                }
                out.push(EdgeGlyph {
                    label: format!("mirp-cutin flags={flags:05b} cutin={cutin} flip={} round={rname}", flip_on as u8),
                    pts: pts.clone(),
                    ends: ends.clone(),
                    code: p.c,
                });
            }
        }
    }
    out
}

/// MIRP: minimum distance against the (rounded / unrounded) cvt distance.
fn mirp_mindist(_thorough: bool) -> Vec<EdgeGlyph> {
    let mut out = vec![];
    let cs = |m: i32| -> Vec<i32> { vec![m - 1, m, m + 1, -m - 1, -m, -m + 1, 0, 31, 32, 33, 95, 96, 97, -31, -32, -33] };
    let orgs: [i16; 5] = [300, -300, 0, 1, -1];
    let mut ds = vec![];
    for &d in &orgs {
        for _ in 0..16 {
            ds.push(d);
        }
    }
    let (pts, ends) = pairs(&ds);
    for flags in (0..32u8).filter(|f| f & 8 != 0) {
        for &m in &[0, 1, 63, 64, 65, 128] {
            for (ri, _) in ROUND_OPS.iter().enumerate().filter(|(i, _)| [0usize, 1, 5, 6].contains(i)) {
                let mut p = P::new();
                p.set(SCVTCI, 20000); // always the cvt value
                p.op(FLIPOFF);
                p.set(SMD, m);
                let rname = round_op(&mut p, ri);
                p.svtca(false);
                let vals = cs(m);
                for (i, _) in ds.iter().enumerate() {
                    let (a, b) = (2 * i as i32, 2 * i as i32 + 1);
                    let c = vals[i % 16];
                    p.set(SRP0, a);
                    p.push(&[i as i32 % 30, c]).op(WCVTP);
                    p.push(&[b, i as i32 % 30]).op(MIRP + flags);
                }
                out.push(EdgeGlyph { label: format!("mirp-mindist flags={flags:05b} smd={m} round={rname}"), pts: pts.clone(), ends: ends.clone(), code: p.c });
            }
        }
    }
    out
}

/// `sw_px` on the stack: RCVT(WCVTF(sw)) — the pixel value SSW stores for `sw` font units
fn push_sw_px(p: &mut P, sw: i32) {
    p.push(&[31, sw]).op(WCVTF).push(&[31]).op(RCVT);
}

/// MIRP: single-width cut-in  |cvt - sw| < swci.
fn mirp_sw(_thorough: bool) -> Vec<EdgeGlyph> {
    let mut out = vec![];
    let ds: Vec<i16> = (0..24).map(|i| if i % 2 == 0 { 260 } else { -260 }).collect();
    let (pts, ends) = pairs(&ds);
    for flags in [0u8, 4, 8, 12, 16, 31] {
        for &sw in &[0, 200, -200, 1] {
            for &swci in &[0, 1, 30, 64] {
                let mut p = P::new();
                p.set(SCVTCI, 20000).op(FLIPOFF).op(RTG);
                p.set(SSW, sw).set(SSWCI, swci);
                p.svtca(false);
                let mut i = 0;
                for csign in [1, -1] {
                    for side in [1, -1] {
                        for k in [-1, 0, 1] {
                            let (a, b) = (2 * i, 2 * i + 1);
                            p.set(SRP0, a);
                            p.push(&[i]);
                            push_sw_px(&mut p, sw);
                            p.add_k(side * (swci + k));
                            if csign < 0 {
                                p.op(NEG);
                            }
                            p.op(WCVTP);
                            p.push(&[b, i]).op(MIRP + flags);
                            i += 1;
                        }
                    }
                }
                out.push(EdgeGlyph { label: format!("mirp-sw flags={flags:05b} ssw={sw} sswci={swci}"), pts: pts.clone(), ends: ends.clone(), code: p.c });
            }
        }
    }
    out
}

/// MIRP with rp0 and/or p in the twilight zone; diagonal dual projection sweep.
fn mirp_zones(thorough: bool) -> Vec<EdgeGlyph> {
    let mut out = vec![];
    let n = 11usize;
    let ds: Vec<i16> = (0..n).map(|i| if i % 3 == 0 { 300 } else { -300 }).collect();
    let (pts, ends) = pairs(&ds);
    let flag_set: Vec<u8> = if thorough { (0..32).collect() } else { vec![0, 4, 5, 8, 12, 13, 16, 20, 28, 31] };
    for &flags in &flag_set {
        for (z0, z1) in [(0, 1), (1, 0), (0, 0)] {
            for &cutin in &[0, 68] {
                let mut p = P::new();
                init_twilight(&mut p);
                p.set(SCVTCI, cutin).op(FLIPON).op(RTG).svtca(false);
                for (i, &e) in es(cutin).iter().enumerate() {
                    {
                        let s = i % 2;
                        let idx = i;
                        // rp0: glyph point 2idx (z0=1) or twilight point i (z0=0); p: glyph point 2idx+1 or twilight 8+s
                        let a = if z0 == 1 { 2 * idx as i32 } else { (i % 8) as i32 };
                        let b = if z1 == 1 { 2 * idx as i32 + 1 } else { 8 + s as i32 };
                        p.set(SZP0, z0).set(SZP1, z1);
                        p.set(SRP0, a);
                        p.push(&[idx as i32]);
                        p.gc(z1, b, true).gc(z0, a, true).op(SUB);
                        p.add_k(e);
                        p.op(WCVTP);
                        p.push(&[b, idx as i32]).op(MIRP + flags);
                        if z1 == 0 {
                            p.observe_twilight(b, 2 * idx as i32 + 1);
                        }
                    }
                }
                p.set(SZP0, 1).set(SZP1, 1).set(SZP2, 1);
                out.push(EdgeGlyph { label: format!("mirp-zones flags={flags:05b} zp0={z0} zp1={z1} cutin={cutin}"), pts: pts.clone(), ends: ends.clone(), code: p.c });
            }
        }
    }
    // diagonal: dual projection != freedom direction, consecutive cvt values cross the cut-in somewhere
    let ds: Vec<i16> = (0..18).map(|i| if i < 9 { 200 } else { -200 }).collect();
    let (pts, ends) = pairs(&ds);
    for &flags in &[4u8, 12, 20, 7] {
        for (vx, vy) in [(11585, 11585), (16384, 0), (14189, 8192), (-11585, 11585)] {
            for &cutin in &[17, 68] {
                for tw in [false, true] {
                    let mut p = P::new();
                    init_twilight(&mut p);
                    p.set(SCVTCI, cutin).op(FLIPON).op(RTG);
                    p.push(&[vx, vy]).op(SPVFS).op(SFVTCA_Y);
                    for i in 0..18i32 {
                        let (a, b) = (2 * i, if tw { 9 } else { 2 * i + 1 });
                        let z1 = if tw { 0 } else { 1 };
                        p.set(SZP1, z1);
                        p.set(SRP0, a);
                        p.push(&[i]);
                        // glyph zone: cvt = org distance along the diagonal + cutin - 4 + (i mod 9)
                        // twilight: the re-seated original distance is cvt*fv projected: delta = cvt - proj(cvt*fv)
                        if tw {
                            let base = if vy == 0 { 400 } else { (cutin as f64 / (1.0 - (vy as f64 / 16384.0)).max(0.05)) as i32 };
                            p.push(&[(base - 12 + 3 * (i % 9)) * if i < 9 { 1 } else { -1 }]);
                        } else {
                            p.gc(1, b, true).gc(1, a, true).op(SUB);
                            p.add_k((cutin - 4 + (i % 9)) * if i % 2 == 0 { 1 } else { -1 });
                        }
                        p.op(WCVTP);
                        p.push(&[b, i]).op(MIRP + flags);
                        if tw {
                            p.observe_twilight(b, 2 * i + 1);
                        }
                    }
                    p.set(SZP1, 1).set(SZP2, 1);
                    out.push(EdgeGlyph { label: format!("mirp-zones diag flags={flags:05b} pv=({vx},{vy}) cutin={cutin} twilight={}", tw as u8), pts: pts.clone(), ends: ends.clone(), code: p.c });
                }
            }
        }
    }
    out
}

/// MIAP: cut-in against the CURRENT projection of the point.
fn miap(_thorough: bool) -> Vec<EdgeGlyph> {
    let mut out = vec![];
    let n = 22usize;
    let pts: Vec<(i16, i16, bool)> = (0..n as i16).map(|i| (50 + 40 * i, if i % 2 == 0 { 333 } else { -211 } + i, true)).collect();
    let ends = vec![n - 1];
    for a in 0..2u8 {
        for &cutin in &[0, 17, 68, 200] {
            for ri in [0usize, 1, 3, 4, 5, 7] {
                for tw in [false, true] {
                    let mut p = P::new();
                    if tw {
                        init_twilight(&mut p);
                    }
                    p.set(SCVTCI, cutin);
                    let rname = round_op(&mut p, ri);
                    for axis_x in [false, true] {
                        p.svtca(axis_x);
                        for (i, &e) in es(cutin).iter().enumerate() {
                            for s in 0..2usize {
                                let idx = (2 * i + s) as i32;
                                let k = e;
                                if tw {
                                    // twilight: the point is first set to cvt*fv; the cut-in sees projection differences only
                                    let t = (idx % 8) as i32;
                                    p.set(SZP0, 0);
                                    p.push(&[idx, 200 + 7 * idx + k]).op(WCVTP);
                                    p.push(&[t, idx]).op(MIAP + a);
                                    p.set(SZP0, 1);
                                    p.observe_twilight(t, idx);
                                } else {
                                    // displace first: cur != org
                                    p.push(&[idx, 37 * (1 + idx % 3)]).op(SHPIX);
                                    p.push(&[idx]);
                                    p.gc(1, idx, false);
                                    p.add_k(e);
                                    p.op(WCVTP);
                                    p.push(&[idx, idx]).op(MIAP + a);
                                }
                            }
                        }
                    }
                    out.push(EdgeGlyph { label: format!("miap a={a} cutin={cutin} round={rname} twilight={}", tw as u8), pts: pts.clone(), ends: ends.clone(), code: p.c });
                }
            }
        }
    }
    out
}

/// MDRP: single width, minimum distance, rounding; all 32 flag combinations; zones.
fn mdrp(thorough: bool) -> Vec<EdgeGlyph> {
    let mut out = vec![];
    // (a) minimum distance and rounding
    let ds: Vec<i16> = vec![300, -300, 37, -37, 0, 1, -1, 2, 64, -64, 96, -96, 33, -33, 31, -31];
    let (pts, ends) = pairs(&ds);
    let mut rs = 0usize;
    for flags in 0..32u8 {
        for mode in 0..4 {
            for z in [(1, 1), (0, 1), (1, 0)] {
                if z != (1, 1) && !(thorough || [0u8, 4, 8, 12, 29].contains(&flags)) {
                    continue;
                }
                let mut p = P::new();
                if z != (1, 1) {
                    init_twilight(&mut p);
                }
                let rname = round_op(&mut p, rs);
                rs += 1;
                p.svtca(rs % 2 == 0);
                for (i, _) in ds.iter().enumerate() {
                    let i = i as i32;
                    let a = if z.0 == 1 { 2 * i } else { i % 8 };
                    let b = if z.1 == 1 { 2 * i + 1 } else { 8 + i % 8 };
                    p.set(SZP0, z.0).set(SZP1, z.1);
                    p.set(SRP0, a);
                    // org distance as MDRP measures it: MD[org] with L = a (zp0), K = b (zp1) gives a - b
                    p.push(&[a, b]).op(MD_ORG).op(NEG);
                    match mode {
                        0 => {
                            p.op(ROUND).op(ABS).add_k(i % 3 - 1);
                        } // SMD := |round(d)| + k
                        1 => {
                            p.op(ABS).add_k(i % 3 - 1);
                        } // SMD := |d| + k
                        2 => {
                            p.op(POP).push(&[[0, 1, 64][(i % 3) as usize]]);
                        }
                        _ => {
                            p.op(POP).push(&[[63, 65, 128][(i % 3) as usize]]);
                        }
                    }
                    p.op(SMD);
                    p.push(&[b]).op(MDRP + flags);
                    if z.1 == 0 {
                        p.observe_twilight(b, 2 * i + 1);
                    }
                }
                p.set(SZP0, 1).set(SZP1, 1).set(SZP2, 1);
                out.push(EdgeGlyph { label: format!("mdrp-mindist flags={flags:05b} mode={mode} zp0={} zp1={} round={rname}", z.0, z.1), pts: pts.clone(), ends: ends.clone(), code: p.c });
            }
        }
    }
    // (b) single width: swci := |d - sw| + k
    let ds: Vec<i16> = (0..18).map(|i| [200i16, -200, 199, 201, -199, 0][i % 6]).collect();
    let (pts, ends) = pairs(&ds);
    for flags in [0u8, 4, 8, 12, 21, 31] {
        for &sw in &[200, -200, 0, 150] {
            let mut p = P::new();
            p.op(RTG).set(SSW, sw).svtca(false).set(SMD, 64);
            for (i, _) in ds.iter().enumerate() {
                let i = i as i32;
                let (a, b) = (2 * i, 2 * i + 1);
                p.set(SRP0, a);
                p.push(&[a, b]).op(MD_ORG).op(NEG);
                push_sw_px(&mut p, sw);
                p.op(SUB).op(ABS).add_k(i / 6 - 1);
                p.op(SSWCI);
                p.push(&[b]).op(MDRP + flags);
            }
            out.push(EdgeGlyph { label: format!("mdrp-sw flags={flags:05b} ssw={sw}"), pts: pts.clone(), ends: ends.clone(), code: p.c });
        }
    }
    out
}

/// MDAP[a]: rounding of the current position, zone pointer zp0 (with zp1/zp2 pointing elsewhere).
fn mdap(_thorough: bool) -> Vec<EdgeGlyph> {
    let mut out = vec![];
    let vals = [0, 1, -1, 15, 16, 17, 31, 32, 33, 47, 48, 49, 63, 64, 65, 95, 96, 97, -31, -32, -33, -63, -64, -65, 1000];
    let n = vals.len();
    let pts: Vec<(i16, i16, bool)> = (0..n as i16).map(|i| (30 * i, 7 * i - 40, true)).collect();
    let ends = vec![n - 1];
    for a in 0..2u8 {
        for ri in 0..ROUND_OPS.len() {
            for z0 in [1, 0] {
                let mut p = P::new();
                init_twilight(&mut p);
                let rname = round_op(&mut p, ri);
                for axis_x in [false, true] {
                    p.svtca(axis_x);
                    for (i, &v) in vals.iter().enumerate() {
                        let i = i as i32;
                        if z0 == 1 {
                            p.push(&[i, v]).op(SCFS);
                            // the other zone pointers look at the twilight zone
                            p.set(SZP1, 0).set(SZP2, 0);
                            p.push(&[i]).op(MDAP + a);
                            p.set(SZP1, 1).set(SZP2, 1);
                        } else {
                            let t = i % 8;
                            p.set(SZP2, 0).push(&[t, v + 3 * i]).op(SCFS).set(SZP2, 1);
                            p.set(SZP0, 0).push(&[t]).op(MDAP + a).set(SZP0, 1);
                            p.observe_twilight(t, i);
                        }
                    }
                }
                out.push(EdgeGlyph { label: format!("mdap a={a} round={rname} zp0={z0}"), pts: pts.clone(), ends: ends.clone(), code: p.c });
            }
        }
    }
    out
}

fn msirp(_thorough: bool) -> Vec<EdgeGlyph> {
    let mut out = vec![];
    let dvals = [0, 1, -1, 32, -32, 64, -64, 65, -65, 1000];
    let ds: Vec<i16> = (0..dvals.len()).map(|i| if i % 2 == 0 { 150 } else { -150 }).collect();
    let (pts, ends) = pairs(&ds);
    for a in 0..2u8 {
        for z in [(1, 1), (0, 1), (1, 0), (0, 0)] {
            for axis_x in [false, true] {
                let mut p = P::new();
                init_twilight(&mut p);
                p.svtca(axis_x);
                for (i, &d) in dvals.iter().enumerate() {
                    let i = i as i32;
                    let ra = if z.0 == 1 { 2 * i } else { i % 8 };
                    let b = if z.1 == 1 { 2 * i + 1 } else { 8 + i % 8 };
                    p.set(SZP0, z.0).set(SZP1, z.1).set(SRP0, ra);
                    p.push(&[b, d]).op(MSIRP + a);
                    if z.1 == 0 {
                        p.observe_twilight(b, 2 * i + 1);
                        // the ORIGINAL position was re-seated too: make it visible through IP of a glyph point
                    }
                }
                p.set(SZP0, 1).set(SZP1, 1).set(SZP2, 1);
                out.push(EdgeGlyph { label: format!("msirp a={a} zp0={} zp1={} x={}", z.0, z.1, axis_x as u8), pts: pts.clone(), ends: ends.clone(), code: p.c });
            }
        }
    }
    out
}

/// DELTAP/DELTAC: the exact ppem, shift and magnitude.
fn delta(_thorough: bool) -> Vec<EdgeGlyph> {
    let mut out = vec![];
    // 16 points on a zig-zag (so that IUP has something to do), point i carries magnitude nibble i
    let pts: Vec<(i16, i16, bool)> = (0..16i16).map(|i| (60 * i, if i % 2 == 0 { 100 } else { 420 } + 3 * i, true)).collect();
    let ends = vec![15];
    for range in 0..3i32 {
        let (dp, dc) = ([DELTAP1, DELTAP2, DELTAP3][range as usize], [DELTAC1, DELTAC2, DELTAC3][range as usize]);
        for &r in &[0, 1, 7, 14, 15] {
            for dr in [-1, 0, 1] {
                // SDB := MPPEM - 16*range - r - dr ... the entries use rel = r: fire iff dr == 0
                for &shift in &[0, 3, 6] {
                    for touch in 0..4 {
                        let mut p = P::new();
                        p.set(SDS, shift);
                        p.op(MPPEM).push(&[16 * range + r + dr]).op(SUB).op(SDB);
                        p.svtca(false);
                        if touch == 1 {
                            for i in 0..16 {
                                p.push(&[i]).op(MDAP);
                            }
                        }
                        if touch == 2 {
                            p.push(&[0]).op(MDAP).op(IUP_Y).op(IUP_X);
                        }
                        if touch == 3 {
                            // only one IUP done: deltas on touched points still apply in backward compatibility
                            for i in 0..16 {
                                p.push(&[i]).op(MDAP);
                            }
                            p.op(if r % 2 == 0 { IUP_Y } else { IUP_X });
                        }
                        let mut v = vec![];
                        for i in 0..16 {
                            v.push((r << 4) | i);
                            v.push(i);
                        }
                        v.push(16);
                        p.push(&v).op(dp);
                        // x direction as well
                        p.svtca(true);
                        p.push(&v).op(dp);
                        out.push(EdgeGlyph { label: format!("deltap{} rel={r} base-off={dr} sds={shift} touch={touch}", range + 1), pts: pts.clone(), ends: ends.clone(), code: p.c });
                    }
                    // DELTAC: cvt i := 64*i, delta, then SCFS point i to cvt i
                    let mut p = P::new();
                    p.set(SDS, shift);
                    p.op(MPPEM).push(&[16 * range + r + dr]).op(SUB).op(SDB);
                    p.svtca(false);
                    let mut v = vec![];
                    for i in 0..16 {
                        p.push(&[i, 64 * i - 200]).op(WCVTP);
                        v.push((r << 4) | i);
                        v.push(i);
                    }
                    v.push(16);
                    p.push(&v).op(dc);
                    for i in 0..16 {
                        p.push(&[i, i]).op(RCVT).op(SCFS);
                    }
                    out.push(EdgeGlyph { label: format!("deltac{} rel={r} base-off={dr} sds={shift}", range + 1), pts: pts.clone(), ends: ends.clone(), code: p.c });
                }
            }
        }
    }
    // fixed bases: default base 9, ppem dependent on the size grid
    for range in 0..3i32 {
        let dp = [DELTAP1, DELTAP2, DELTAP3][range as usize];
        let mut p = P::new();
        p.svtca(false);
        for i in 0..16 {
            p.push(&[i]).op(MDAP);
        }
        let mut v = vec![];
        for i in 0..16 {
            v.push((i << 4) | ((i * 5 + 3) & 15));
            v.push(i);
        }
        v.push(16);
        p.push(&v).op(dp);
        out.push(EdgeGlyph { label: format!("deltap{} default base, rel = point", range + 1), pts: pts.clone(), ends: ends.clone(), code: p.c });
    }
    out
}

fn round_family(_thorough: bool) -> Vec<EdgeGlyph> {
    let mut out = vec![];
    let mut vals: Vec<i32> = vec![];
    for base in [0, 64, 128, -64, -128, 640] {
        for off in [-33, -32, -31, -17, -16, -15, -1, 0, 1, 15, 16, 17, 31, 32, 33] {
            vals.push(base + off);
        }
    }
    vals.extend([22, 23, 45, 46, 90, 91, -22, -23, -45, -46, 100000, -100000]);
    vals.sort();
    vals.dedup();
    let n = vals.len();
    let pts: Vec<(i16, i16, bool)> = (0..n as i16).map(|i| (10 * i, 0, true)).collect();
    let ends = vec![n - 1];
    let mut states: Vec<(u8, Option<i32>)> = vec![(RTG, None), (RTHG, None), (RTDG, None), (RDTG, None), (RUTG, None), (ROFF, None)];
    for sel in [0x00, 0x08, 0x48, 0x49, 0x5A, 0x9D, 0xC7, 0x3F, 0x70, 0xFF, 0x85] {
        states.push((SROUND, Some(sel)));
        states.push((S45ROUND, Some(sel)));
    }
    for (op, sel) in states {
        for ab in 0..4u8 {
            for nround in [false, true] {
                let mut p = P::new();
                p.svtca(false);
                if let Some(s) = sel {
                    p.push(&[s]);
                }
                p.op(op);
                for (i, &v) in vals.iter().enumerate() {
                    p.push(&[i as i32]).push32(v).op(if nround { NROUND } else { ROUND } + ab).op(SCFS);
                }
                out.push(EdgeGlyph { label: format!("round op={op:#x} sel={sel:?} ab={ab} nround={}", nround as u8), pts: pts.clone(), ends: ends.clone(), code: p.c });
            }
        }
        // ODD / EVEN use the round state
        let mut p = P::new();
        p.svtca(false);
        if let Some(s) = sel {
            p.push(&[s]);
        }
        p.op(op);
        for (i, &v) in vals.iter().enumerate() {
            p.push(&[i as i32]).push32(v).op(if i % 2 == 0 { ODD } else { EVEN }).push(&[64 * 64]).op(MUL).op(SCFS);
            let _ = i;
        }
        out.push(EdgeGlyph { label: format!("round odd/even op={op:#x} sel={sel:?}"), pts: pts.clone(), ends: ends.clone(), code: p.c });
    }
    out
}

/// IP: position of the point relative to the two reference points.
fn ip(_thorough: bool) -> Vec<EdgeGlyph> {
    let mut out = vec![];
    for (lo, hi) in [(100i16, 500i16), (500, 100), (300, 300), (100, 101), (-200, 200)] {
        // points 0,1 = references; then candidates
        let (mn, mx) = (lo.min(hi), lo.max(hi));
        let cands: Vec<i16> = vec![mn - 50, mn - 1, mn, mn + 1, (mn + mx) / 2, (mn + mx) / 2 + 1, mx - 1, mx, mx + 1, mx + 50];
        let mut pts = vec![(lo, lo, true), (hi, hi, true)];
        for &c in &cands {
            pts.push((c, c, true));
        }
        let ends = vec![pts.len() - 1];
        for (m1, m2) in [(0, 0), (64, 64), (37, -21), (-100, 130), (0, 77), (300, -300)] {
            for tw in 0..4 {
                for axis_x in [false, true] {
                    let mut p = P::new();
                    init_twilight(&mut p);
                    p.svtca(axis_x);
                    // displace the references
                    p.push(&[0, m1]).op(SHPIX).push(&[1, m2]).op(SHPIX);
                    match tw {
                        3 => {
                            // references in the glyph zone, the interpolated points in the twilight zone (zp2 only)
                            p.set(SRP1, 0).set(SRP2, 1).set(SZP2, 0);
                            p.push(&[8]).op(SLOOP);
                            p.push(&[3, 4, 5, 6, 7, 8, 9, 10]).op(IP);
                            p.set(SZP2, 1);
                            for t in 3..11 {
                                p.observe_twilight(t, t);
                            }
                        }
                        0 => {
                            p.set(SRP1, 0).set(SRP2, 1);
                            let n = cands.len() as i32;
                            p.push(&[n]).op(SLOOP);
                            let v: Vec<i32> = (2..2 + n).collect();
                            p.push(&v).op(IP);
                        }
                        1 => {
                            // references in the twilight zone (zp0 rp1, zp1 rp2), points in the glyph zone
                            p.set(SZP0, 0).set(SZP1, 0);
                            p.set(SZP2, 0).push(&[2, m1]).op(SHPIX).push(&[9, m2]).op(SHPIX).set(SZP2, 1);
                            p.set(SRP1, 2).set(SRP2, 9);
                            let n = cands.len() as i32;
                            p.push(&[n]).op(SLOOP);
                            let v: Vec<i32> = (2..2 + n).collect();
                            p.push(&v).op(IP);
                            p.set(SZP0, 1).set(SZP1, 1);
                        }
                        _ => {
                            // everything in the twilight zone, then copied out
                            p.set(SZPS, 0);
                            p.push(&[2, m1]).op(SHPIX).push(&[11, m2]).op(SHPIX);
                            p.set(SRP1, 2).set(SRP2, 11);
                            p.push(&[8]).op(SLOOP);
                            p.push(&[3, 4, 5, 6, 7, 8, 9, 10]).op(IP);
                            p.set(SZPS, 1);
                            for t in 3..11 {
                                p.observe_twilight(t, t);
                            }
                        }
                    }
                    out.push(EdgeGlyph { label: format!("ip refs=({lo},{hi}) moved=({m1},{m2}) twilight={tw} x={}", axis_x as u8), pts: pts.clone(), ends: ends.clone(), code: p.c });
                }
            }
        }
    }
    out
}

/// IUP: untouched points relative to their touched neighbours.
fn iup(_thorough: bool) -> Vec<EdgeGlyph> {
    let mut out = vec![];
    for (lo, hi) in [(100i16, 500i16), (500, 100), (300, 300), (100, 101)] {
        let (mn, mx) = (lo.min(hi), lo.max(hi));
        let cands: Vec<i16> = vec![mn - 50, mn - 1, mn, mn + 1, (mn + mx) / 2, mx - 1, mx, mx + 1, mx + 50];
        // contour 0: ref A, candidates…, ref B, more candidates (wrap-around segment); contour 1: untouched / single touch
        let mut pts = vec![(lo, lo, true)];
        for &c in &cands {
            pts.push((c, c, true));
        }
        pts.push((hi, hi, true));
        let b_ix = pts.len() as i32 - 1;
        for &c in &cands {
            pts.push((c + 3, c - 5, true));
        }
        let e0 = pts.len() - 1;
        pts.extend([(700, 100, true), (800, 100, true), (800, 300, false), (700, 300, true)]);
        let ends = vec![e0, pts.len() - 1];
        let c1 = e0 as i32 + 1;
        for (m1, m2) in [(0, 0), (64, 64), (37, -21), (-100, 130), (0, 77), (9999, 9999)] {
            for touch1 in 0..3 {
                let mut p = P::new();
                for axis_x in [false, true] {
                    p.svtca(axis_x);
                    if m1 == 9999 {
                        // both references end on the SAME current coordinate (cur1 == cur2 branch)
                        p.push(&[0, 23]).op(SHPIX);
                        p.push(&[b_ix]).gc(1, 0, false).op(SCFS);
                    } else {
                        p.push(&[0, m1]).op(SHPIX);
                        p.push(&[b_ix, m2]).op(SHPIX);
                    }
                    match touch1 {
                        1 => {
                            p.push(&[c1 + 1, 50]).op(SHPIX);
                        }
                        2 => {
                            p.push(&[c1 + 1, 50]).op(SHPIX).push(&[c1 + 1]).op(UTP);
                        }
                        _ => {}
                    }
                }
                p.op(IUP_X).op(IUP_Y);
                out.push(EdgeGlyph { label: format!("iup refs=({lo},{hi}) moved=({m1},{m2}) second-contour={touch1}"), pts: pts.clone(), ends: ends.clone(), code: p.c });
            }
        }
    }
    out
}

fn shift(_thorough: bool) -> Vec<EdgeGlyph> {
    let mut out = vec![];
    // two contours of 4 points
    let pts: Vec<(i16, i16, bool)> = vec![
        (100, 100, true), (300, 100, true), (300, 300, false), (100, 300, true),
        (500, 120, true), (700, 120, true), (700, 320, true), (500, 320, false),
    ];
    let ends = vec![3, 7];
    for a in 0..2u8 {
        for refp in [0, 5] {
            for tw in 0..3 {
                for axis_x in [false, true] {
                    for what in 0..4 {
                        let mut p = P::new();
                        init_twilight(&mut p);
                        p.svtca(axis_x);
                        // reference point moved by 45/64 px; rp1 = rp2 = refp (MDAP sets rp0, rp1; SRP2)
                        let (rz, r) = if tw == 0 { (1, refp) } else { (0, 3) };
                        p.set(SZP0, rz).set(SZP1, rz);
                        p.set(SZP2, rz).push(&[r, 45]).op(SHPIX);
                        p.set(SRP1, r).set(SRP2, r);
                        p.set(SZP2, if tw == 2 { 0 } else { 1 });
                        match what {
                            0 => {
                                p.push(&[3]).op(SLOOP).push(&[1, 2, if tw == 2 { 3 } else { refp }]).op(SHP + a);
                            }
                            1 => {
                                if tw != 2 {
                                    p.push(&[0]).op(SHC + a).push(&[1]).op(SHC + a);
                                }
                            }
                            2 => {
                                p.push(&[if tw == 2 { 0 } else { 1 }]).op(SHZ + a);
                                // SHZ does not touch the points it moves: a following IUP (with one really
                                // touched point per contour) re-interpolates them
                                if tw != 2 && axis_x {
                                    p.push(&[2]).op(MDAP).push(&[4]).op(MDAP).op(IUP_X).op(IUP_Y);
                                }
                            }
                            _ => {
                                // SHPIX on touched / untouched points, before and after IUP
                                p.set(SZP2, 1);
                                p.push(&[6]).op(MDAP);
                                p.push(&[2]).op(SLOOP).push(&[6, 7, 33]).op(SHPIX);
                                // after IUP in one direction only SHPIX still works, after both it is blocked
                                // (backward compatibility); refp selects which IUPs run
                                match (a, refp) {
                                    (1, 0) => {
                                        p.op(IUP_X).op(IUP_Y);
                                    }
                                    (1, _) => {
                                        p.op(IUP_X);
                                    }
                                    (_, 0) => {
                                        p.op(IUP_Y);
                                    }
                                    _ => {}
                                }
                                p.push(&[2]).op(SLOOP).push(&[6, 7, 21]).op(SHPIX);
                            }
                        }
                        if tw == 2 {
                            p.set(SZPS, 1);
                            for t in 0..8 {
                                p.observe_twilight(t, t);
                            }
                        }
                        p.set(SZPS, 1);
                        out.push(EdgeGlyph { label: format!("shift what={what} a={a} ref={refp} twilight={tw} x={}", axis_x as u8), pts: pts.clone(), ends: ends.clone(), code: p.c });
                    }
                }
            }
        }
    }
    out
}

fn align(_thorough: bool) -> Vec<EdgeGlyph> {
    let mut out = vec![];
    let dv = [0, 1, -1, 2, -2, 3, -3, 63, -63, 65, -65, 128];
    let ds: Vec<i16> = dv.iter().map(|_| 0).collect();
    let (pts, ends) = pairs(&ds);
    for which in 0..2 {
        for axis_x in [false, true] {
            for tw in [false, true] {
                let mut p = P::new();
                init_twilight(&mut p);
                p.svtca(axis_x);
                for (i, &d) in dv.iter().enumerate() {
                    let i = i as i32;
                    let (a, b) = (2 * i, 2 * i + 1);
                    // cur(b) := cur(a) + d
                    p.push(&[b]).gc(1, a, false).add_k(d).op(SCFS);
                    if which == 0 {
                        if tw {
                            p.set(SZP0, 0).push(&[i % 8]).op(MDAP).set(SZP1, 1);
                            p.push(&[b]).op(ALIGNRP).set(SZP0, 1);
                        } else {
                            p.set(SRP0, a).push(&[b]).op(ALIGNRP);
                        }
                    } else if tw {
                        p.set(SZP0, 0).push(&[b, i % 8]).op(ALIGNPTS).set(SZP0, 1);
                        p.observe_twilight(i % 8, a);
                    } else {
                        p.push(&[a, b]).op(ALIGNPTS);
                    }
                }
                out.push(EdgeGlyph { label: format!("align which={which} x={} twilight={}", axis_x as u8, tw as u8), pts: pts.clone(), ends: ends.clone(), code: p.c });
            }
        }
    }
    out
}

fn isect(_thorough: bool) -> Vec<EdgeGlyph> {
    let mut out = vec![];
    // line A from the origin; line B from (20,200) with direction (dx,dy).  With A = (1024,0) at scale 1
    // (16 ppem) the products are exact: 19*|dy| = |dx| is the parallel threshold itself
    for (ax1, ay1) in [(1000i16, 0i16), (1024, 0), (0, 1024), (1000, 300), (0, 1000), (0, 0)] {
        let mut pts: Vec<(i16, i16, bool)> = vec![(0, 0, true), (ax1, ay1, true)];
        let mut dirs: Vec<(i16, i16)> = vec![(1000, 0), (1000, 1), (1000, 10), (1000, 30), (1000, 45), (1000, 150), (1000, 1000), (1000, -1000)];
        for s in 49..=56 {
            dirs.push((1000, s));
            dirs.push((1000, -s));
        }
        for (dx, dy) in [(950, 50), (949, 50), (951, 50), (19, 1), (190, 10), (-950, 50), (950, -50), (50, 950), (50, 949), (50, 951), (-50, 950), (0, 500), (0, 0)] {
            dirs.push((dx, dy));
        }
        for &(dx, dy) in &dirs {
            pts.push((20, 200, true));
            pts.push((20 + dx, 200 + dy, true));
            pts.push((333, 777, true)); // the point to move
        }
        let ends = vec![pts.len() - 1];
        let mut p = P::new();
        for i in 0..dirs.len() as i32 {
            p.push(&[4 + 3 * i, 0, 1, 2 + 3 * i, 3 + 3 * i]).op(ISECT);
        }
        out.push(EdgeGlyph { label: format!("isect lineA=(0,0)-({ax1},{ay1})"), pts: pts.clone(), ends: ends.clone(), code: p.c.clone() });
        // the same with line roles swapped
        let mut p = P::new();
        for i in 0..dirs.len() as i32 {
            p.push(&[4 + 3 * i, 2 + 3 * i, 3 + 3 * i, 0, 1]).op(ISECT);
        }
        out.push(EdgeGlyph { label: format!("isect swapped lineA=(0,0)-({ax1},{ay1})"), pts, ends, code: p.c });
    }
    out
}

fn vectors(_thorough: bool) -> Vec<EdgeGlyph> {
    let mut out = vec![];
    // vector-defining pairs: points 0..: (p1, p2)
    let defs: Vec<((i16, i16), (i16, i16))> = vec![
        ((0, 0), (500, 0)), ((0, 0), (0, 500)), ((0, 0), (500, 500)), ((0, 0), (-500, 500)), ((0, 0), (500, 1)), ((0, 0), (1, 500)),
        ((100, 100), (100, 100)), ((0, 0), (1, 1)), ((0, 0), (1000, 333)), ((700, 20), (-300, -1000)),
    ];
    let mut pts: Vec<(i16, i16, bool)> = vec![];
    for (a, b) in &defs {
        pts.push((a.0, a.1, true));
        pts.push((b.0, b.1, true));
    }
    let v0 = pts.len() as i32;
    // victims
    for i in 0..6i16 {
        pts.push((200 + 50 * i, 300 - 40 * i, true));
    }
    let ends = vec![pts.len() - 1];
    for (di, _) in defs.iter().enumerate() {
        for setter in 0..6 {
            for a in 0..2u8 {
                let (p1, p2) = (2 * di as i32, 2 * di as i32 + 1);
                let mut p = P::new();
                // move one defining point so that current != original (SDPVTL uses both)
                p.svtca(false).push(&[p2, 70]).op(SHPIX).svtca(true).push(&[p2, -45]).op(SHPIX);
                match setter {
                    0 => {
                        p.push(&[p1, p2]).op(SPVTL + a).op(SFVTPV);
                    }
                    1 => {
                        p.push(&[p1, p2]).op(SFVTL + a).op(SPVTCA_X);
                    }
                    2 => {
                        p.push(&[p1, p2]).op(SPVTL + a).op(SFVTCA_Y);
                    }
                    3 => {
                        p.op(SFVTCA_Y).push(&[p1, p2]).op(SDPVTL + a);
                    }
                    4 => {
                        p.push(&[p1, p2]).op(SPVTL + a).op(SFVTPV).push(&[p2, p1]).op(SDPVTL + a);
                    }
                    _ => {
                        let (x, y) = defs[di].1;
                        p.push(&[x as i32 * 16, y as i32 * 16]).op(if a == 0 { SPVFS } else { SFVFS });
                    }
                }
                // store the vectors themselves
                p.push(&[v0]).op(0x0C).op(POP).op(SCFS); // GPV: x on stack below y → keep x
                p.push(&[v0 + 1]).op(0x0D).op(SWAP).op(POP).op(SCFS); // GFV: keep y
                // measure and move
                p.push(&[v0 + 2]).gc(1, v0 + 3, true).op(SCFS);
                p.push(&[v0 + 3]).push(&[v0 + 4, v0 + 5]).op(MD_ORG).op(SCFS);
                p.push(&[v0 + 4]).push(&[v0 + 2, v0 + 5]).op(MD_CUR).op(SCFS);
                p.set(SRP0, v0).push(&[v0 + 5]).op(MDRP + 4);
                p.push(&[v0 + 2, 64]).op(MSIRP);
                out.push(EdgeGlyph { label: format!("vectors def={di} setter={setter} a={a}"), pts: pts.clone(), ends: ends.clone(), code: p.c });
            }
        }
    }
    out
}

/// F_dot_P around the 0x400 clamp and the fast-path selection of move_point.
fn fdotp(_thorough: bool) -> Vec<EdgeGlyph> {
    let mut out = vec![];
    let pts: Vec<(i16, i16, bool)> = vec![(0, 0, true), (400, 30, true), (380, 420, true), (-20, 400, true), (150, 120, true), (260, 140, true), (240, 300, true), (130, 280, true)];
    let ends = vec![3, 7];
    let ks: Vec<i32> = vec![0, 1, 512, 1000, 1020, 1022, 1023, 1024, 1025, 1026, 1030, 2000, -1, -1023, -1024, -1025, -1030];
    for &k in &ks {
        for axis in 0..2 {
            for role in 0..2 {
                for probe in 0..6 {
                    let mut p = P::new();
                    // one vector on an axis, the other one nearly perpendicular to it (its component along the axis is k / 2^14)
                    let (vx, vy) = if axis == 0 { (k, 16352) } else { (16352, k) };
                    if role == 0 {
                        p.op(if axis == 0 { SPVTCA_X } else { SPVTCA_Y });
                        p.push(&[vx, vy]).op(SFVFS);
                    } else {
                        p.op(if axis == 0 { SFVTCA_X } else { SFVTCA_Y });
                        p.push(&[vx, vy]).op(SPVFS);
                    }
                    match probe {
                        0 => {
                            p.push(&[5, 300]).op(SCFS);
                        }
                        1 => {
                            p.set(SRP0, 4).push(&[5, 70]).op(MSIRP);
                        }
                        2 => {
                            p.set(SRP0, 4).push(&[6]).op(MDRP + 4);
                        }
                        3 => {
                            p.push(&[4, 40]).op(SHPIX).set(SRP2, 4).push(&[5]).op(SHP);
                        }
                        4 => {
                            p.set(SRP0, 4).push(&[6]).op(ALIGNRP);
                        }
                        _ => {
                            p.push(&[4, 30]).op(SHPIX).set(SRP1, 4).set(SRP2, 6).push(&[5]).op(IP);
                        }
                    }
                    p.op(IUP_X).op(IUP_Y);
                    out.push(EdgeGlyph { label: format!("fdotp k={k} axis={axis} role={role} probe={probe}"), pts: pts.clone(), ends: ends.clone(), code: p.c });
                }
            }
        }
    }
    out
}

fn flip(_thorough: bool) -> Vec<EdgeGlyph> {
    let mut out = vec![];
    let pts: Vec<(i16, i16, bool)> = (0..10i16).map(|i| ((i % 5) * 100 + (i / 5) * 30, (i / 5) * 300 + (i % 3) * 40, i % 3 != 1)).collect();
    let ends = vec![9];
    for (lo, hi) in [(0, 0), (0, 9), (9, 9), (3, 4), (1, 8), (5, 2)] {
        for op in [FLIPRGON, FLIPRGOFF] {
            if lo > hi {
                continue;
            }
            let mut p = P::new();
            p.push(&[lo, hi]).op(op);
            out.push(EdgeGlyph { label: format!("flip op={op:#x} range=({lo},{hi})"), pts: pts.clone(), ends: ends.clone(), code: p.c });
        }
        let mut p = P::new();
        p.push(&[2]).op(SLOOP).push(&[lo, hi]).op(FLIPPT).push(&[lo]).op(FLIPPT);
        out.push(EdgeGlyph { label: format!("flippt ({lo},{hi})"), pts: pts.clone(), ends: ends.clone(), code: p.c });
        // after IUP on both axes flips are ignored in backward compatibility mode; after one they are not
        for iups in 1..4 {
            let mut p = P::new();
            if iups & 1 != 0 {
                p.op(IUP_X);
            }
            if iups & 2 != 0 {
                p.op(IUP_Y);
            }
            p.push(&[2]).op(SLOOP).push(&[lo, hi]).op(FLIPPT);
            if lo <= hi {
                p.push(&[lo, hi]).op(if iups == 2 { FLIPRGOFF } else { FLIPRGON });
            }
            out.push(EdgeGlyph { label: format!("flip after iup={iups} ({lo},{hi})"), pts: pts.clone(), ends: ends.clone(), code: p.c });
        }
    }
    out
}

fn info_glyphs() -> Vec<EdgeGlyph> {
    let mut out = vec![];
    let pts: Vec<(i16, i16, bool)> = (0..8i16).map(|i| (100 * i, 0, true)).collect();
    let ends = vec![7];
    let mut sels: Vec<i32> = (0..14).map(|b| 1 << b).collect();
    sels.extend([0, 0x1FFF, 0x3FFF, 0x7FFF, 3, 0x1FC0, 32, 64 | 128 | 256]);
    for sel in sels {
        let mut p = P::new();
        p.svtca(false);
        // low byte (version) and the flag bits separately: y(0) := (info & 0xFF)*64?  keep exact: DIV by 64 scaling
        p.push(&[0, sel]).op(GETINFO).op(SCFS);
        p.push(&[1, sel]).op(GETINFO).push(&[4096]).op(DIV).op(SCFS); // >> 6
        p.push(&[2]).op(MPPEM).op(SCFS);
        p.push(&[3]).op(MPS).op(SCFS);
        out.push(EdgeGlyph { label: format!("getinfo sel={sel:#x}"), pts: pts.clone(), ends: ends.clone(), code: p.c });
    }
    // INSTCTRL in the glyph program: selector 3 toggles backward compatibility for the glyph
    for (sel, val) in [(3, 4), (3, 0), (3, 1), (1, 1), (2, 2), (0, 0), (4, 8), (3, 8)] {
        let mut p = P::new();
        p.push(&[val, sel]).op(INSTCTRL);
        p.svtca(true).push(&[1, 40]).op(SHPIX).push(&[2]).op(MDAP + 1);
        p.svtca(false).push(&[3, 40]).op(SHPIX);
        p.op(IUP_X).op(IUP_Y);
        p.svtca(true).push(&[4, 40]).op(SHPIX);
        p.svtca(false).push(&[5, 40]).op(SHPIX);
        p.set(SCANCTRL, 0x1FF).set(SCANTYPE, 5);
        out.push(EdgeGlyph { label: format!("instctrl glyph sel={sel} val={val}"), pts: pts.clone(), ends: ends.clone(), code: p.c });
    }
    out
}

fn flow(_thorough: bool) -> Vec<EdgeGlyph> {
    let mut out = vec![];
    let pts: Vec<(i16, i16, bool)> = (0..16i16).map(|i| (60 * i, 0, true)).collect();
    let ends = vec![15];
    for a in [0, 1, -1, 64, -64, 32767] {
        let mut p = P::new();
        p.svtca(false);
        let mut pt = 0;
        for db in [-1, 0, 1] {
            let b = a + db;
            if !(-32768..=32767).contains(&b) {
                continue;
            }
            // comparisons → 0/1 → *64*64… stored as y
            let mut acc = P::new();
            acc.push(&[pt]);
            acc.push(&[0]);
            for (w, cmp) in [0x50u8, 0x51, 0x52, 0x53, 0x54, 0x55].iter().enumerate() {
                acc.push(&[a, b]).op(*cmp).push(&[64 << w]).op(MUL).op(ADD);
            }
            acc.op(SCFS);
            p.ops(&acc.c);
            pt += 1;
            p.push(&[pt, a, b]).op(MAX).op(SCFS);
            pt += 1;
            p.push(&[pt, a, b]).op(MIN).op(SCFS);
            pt += 1;
            // JROT / JROF over a 4-byte block [PUSHB1 v SWAP? ] keep: jump over "PUSHB 2 pt 77 SCFS"
            for jop in [JROT, JROF] {
                // offset counts from the jump instruction: skip PUSHB(3 bytes)+SCFS(1) = 4 → offset 5
                p.push(&[5, b - a + if jop == JROT { 0 } else { 1 }]).op(jop);
                p.push(&[pt, 77]).op(SCFS);
            }
            pt += 1;
        }
        // JMPR forward
        p.push(&[5]).op(JMPR).push(&[pt, 99]).op(SCFS);
        // IF / ELSE
        p.push(&[a]).op(IF).push(&[pt + 1, 10]).op(SCFS).op(ELSE).push(&[pt + 1, 20]).op(SCFS).op(EIF);
        out.push(EdgeGlyph { label: format!("flow a={a}"), pts: pts.clone(), ends: ends.clone(), code: p.c });
    }
    out
}

/// prep programs for the INSTCTRL / SCANCTRL family (one font each)
fn info_preps() -> Vec<(String, Vec<u8>)> {
    let mut v = vec![("none".to_string(), vec![])];
    for (sel, val) in [(1, 1), (1, 0), (2, 2), (2, 0), (3, 4), (3, 0), (1, 2), (2, 1), (3, 1), (0, 0), (4, 8)] {
        let mut p = P::new();
        // state changes the default graphics state would hide when INSTCTRL 2 is on
        p.set(SCVTCI, 10).set(SMD, 20).op(RTHG).op(FLIPOFF).set(SSW, 37).set(SSWCI, 30).set(SDB, 5).set(SDS, 2);
        p.push(&[val, sel]).op(INSTCTRL);
        v.push((format!("instctrl-{sel}-{val}"), p.c));
    }
    // the usual ppem-threshold idiom
    for thr in [12, 13, 16, 17] {
        let mut p = P::new();
        p.op(MPPEM).push(&[thr]).op(0x52).op(IF).push(&[1, 1]).op(INSTCTRL).op(EIF);
        p.op(MPPEM).push(&[thr]).op(0x50).op(IF).push(&[4, 3]).op(INSTCTRL).op(EIF);
        v.push((format!("ppem-gt-{thr}"), p.c));
    }
    v
}

/// glyphs that make prep-set state visible
fn state_probe_glyphs() -> Vec<EdgeGlyph> {
    let (pts, ends) = pairs(&[300, -300, 37, 5]);
    let mut out = vec![];
    for flags in [0u8, 4, 12, 28] {
        let mut p = P::new();
        p.svtca(false);
        for i in 0..4 {
            p.set(SRP0, 2 * i).push(&[2 * i + 1]).op(MDRP + flags);
        }
        p.svtca(true);
        for i in 0..4 {
            p.set(SRP0, 2 * i).push(&[2 * i + 1]).op(MDRP + flags);
        }
        p.op(IUP_X).op(IUP_Y);
        p.svtca(false).push(&[1, 30]).op(SHPIX);
        out.push(EdgeGlyph { label: format!("state-probe mdrp flags={flags:05b}"), pts: pts.clone(), ends: ends.clone(), code: p.c });
    }
    // MIRP against cvt values 12 and 40 units off the outline distance: shows the cut-in, minimum distance
    // and auto-flip the prep left behind
    for flags in [4u8, 12, 28] {
        let mut p = P::new();
        p.svtca(false);
        for i in 0..4 {
            p.set(SRP0, 2 * i);
            p.push(&[i]).gc(1, 2 * i + 1, true).gc(1, 2 * i, true).op(SUB).add_k([12, -12, 40, -40][i as usize]);
            if i % 2 == 1 {
                p.op(NEG);
            }
            p.op(WCVTP);
            p.push(&[2 * i + 1, i]).op(MIRP + flags);
        }
        out.push(EdgeGlyph { label: format!("state-probe mirp flags={flags:05b}"), pts: pts.clone(), ends: ends.clone(), code: p.c });
    }
    out
}

pub fn fonts(thorough: bool) -> Vec<EdgeFont> {
    let mut v = vec![];
    let mut add = |family: &'static str, glyphs: Vec<EdgeGlyph>| {
        // at most 4000 glyphs per font
        let mut glyphs = glyphs;
        while !glyphs.is_empty() {
            let rest = if glyphs.len() > 4000 { glyphs.split_off(4000) } else { vec![] };
            v.push(EdgeFont { family, glyphs, prep: vec![], fpgm: vec![], cvt: base_cvt(), upem: 1024 });
            glyphs = rest;
        }
    };
    add("mirp-cutin", mirp_cutin(thorough));
    add("mirp-mindist", mirp_mindist(thorough));
    add("mirp-sw", mirp_sw(thorough));
    add("mirp-zones", mirp_zones(thorough));
    add("miap", miap(thorough));
    add("mdrp", mdrp(thorough));
    add("mdap", mdap(thorough));
    add("msirp", msirp(thorough));
    add("delta", delta(thorough));
    add("round", round_family(thorough));
    add("ip", ip(thorough));
    add("iup", iup(thorough));
    add("shift", shift(thorough));
    add("align", align(thorough));
    add("isect", isect(thorough));
    add("vectors", vectors(thorough));
    add("flip", flip(thorough));
    add("fdotp", fdotp(thorough));
    add("flow", flow(thorough));
    for (name, prep) in info_preps() {
        let mut glyphs = info_glyphs();
        glyphs.extend(state_probe_glyphs());
        for g in &mut glyphs {
            g.label = format!("prep={name} {}", g.label);
        }
        v.push(EdgeFont { family: "info", glyphs, prep, fpgm: vec![], cvt: base_cvt(), upem: 1024 });
    }
    // a second units-per-em where no size has a power-of-two scale
    if thorough {
        let mut g2 = mirp_cutin(false);
        g2.truncate(600);
        v.push(EdgeFont { family: "mirp-cutin", glyphs: g2, prep: vec![], fpgm: vec![], cvt: base_cvt(), upem: 1000 });
        v.push(EdgeFont { family: "mdrp", glyphs: mdrp(false), prep: vec![], fpgm: vec![], cvt: base_cvt(), upem: 2048 });
    }
    v
}

pub fn run(cfg: &Config, s: &mut Session) {
    use fauntlet::{Hinting, HintingTarget::*};
    let dir = std::path::PathBuf::from(format!("/tmp/c03-ttedge-{}-{}", cfg.seed, std::process::id()));
    let _ = std::fs::create_dir_all(&dir);
    let all_modes = [
        Some(Hinting::Interpreter(Mono)),
        Some(Hinting::Interpreter(Normal)),
        Some(Hinting::Interpreter(Light)),
        Some(Hinting::Interpreter(Lcd)),
        Some(Hinting::Interpreter(VerticalLcd)),
    ];
    let two_modes = [Some(Hinting::Interpreter(Mono)), Some(Hinting::Interpreter(Normal))];
    // seed dependent choice of the size grid (the programs themselves are a fixed systematic set)
    let mut rng = Rng::new(cfg.seed ^ 0xED6E);
    let ppems: Vec<u32> = if cfg.thorough() {
        let mut v: Vec<u32> = (6..=40).collect();
        v.extend([48, 64, 100]);
        v
    } else {
        let mut v = vec![16u32, 8 + rng.below(8) as u32, 17 + rng.below(8) as u32, 25 + rng.below(16) as u32];
        v.sort();
        v.dedup();
        v
    };
    for (name, reads, _) in TABLE {
        let _ = reads;
        s.count(&format!("ttedge:table:{name}"));
    }
    crate::FRESH_INSTANCE_PER_GLYPH.store(true, std::sync::atomic::Ordering::Relaxed);
    let only = std::env::var("C03_EDGE_ONLY").ok();
    for (i, f) in fonts(cfg.thorough()).iter().enumerate() {
        if let Some(o) = &only {
            if f.family != o {
                continue;
            }
        }
        let data = match catch(|| build_font(f)) {
            Ok(d) => d,
            Err(e) => {
                s.oracle("ttedge:font-builds", false, || format!("family={} #{i}", f.family), || e.clone());
                continue;
            }
        };
        let path = dir.join(format!("c03_edge_{}_{i}.ttf", f.family));
        std::fs::write(&path, &data).unwrap();
        let labels: Vec<String> = std::iter::once("notdef".to_string()).chain(f.glyphs.iter().map(|g| g.label.clone())).collect();
        *crate::GLYPH_LABELS.lock().unwrap() = Some(labels);
        for _ in 0..f.glyphs.len() {
            s.count(&format!("ttedge:glyphs:{}", f.family));
        }
        // opcode semantics do not depend on the target except through backward compatibility
        // (mono: off; smooth: on) and GETINFO: two targets for the big families, all five for the rest
        // DELTAP2/3 and DELTAC2/3 need ppem >= 16/32 + rel for a non-negative delta base
        let mut ppems = ppems.clone();
        if f.family == "delta" {
            ppems.extend([33, 50]);
        }
        let big = f.glyphs.len() > 300;
        let modes: &[Option<Hinting>] = if big && !cfg.thorough() { &two_modes } else { &all_modes };
        crate::differential(cfg, s, &path, &ppems, modes);
        *crate::GLYPH_LABELS.lock().unwrap() = None;
    }
    crate::FRESH_INSTANCE_PER_GLYPH.store(false, std::sync::atomic::Ordering::Relaxed);
    if std::env::var_os("C03_KEEP").is_none() {
        let _ = std::fs::remove_dir_all(&dir);
    }
}
