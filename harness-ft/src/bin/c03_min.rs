//! c03_min <font.ttf> <gid> <ppem> [mono|normal|light|lcd|vlcd]
//! Triage helper for a whole-outline mismatch on a hinted TrueType glyph: finds the shortest prefix of the
//! glyph program (at instruction boundaries; the rest is overwritten with RTG, which neither moves points
//! nor touches the stack) after which FreeType and skrifa disagree, and prints that prefix disassembled.
use skrifa::outline::{pen::PathElement, DrawSettings, Engine, HintingInstance, HintingOptions, SmoothMode, Target};
use skrifa::prelude::*;
use skrifa::raw::{tables::glyf::Glyph, FontRef, TableProvider};
use skrifa::MetadataProvider;

fn boundaries(code: &[u8]) -> Vec<usize> {
    let mut v = vec![0];
    let mut i = 0;
    while i < code.len() {
        let op = code[i];
        let len = match op {
            0x40 => 2 + *code.get(i + 1).unwrap_or(&0) as usize,
            0x41 => 2 + 2 * *code.get(i + 1).unwrap_or(&0) as usize,
            0xB0..=0xB7 => 1 + (op - 0xB0 + 1) as usize,
            0xB8..=0xBF => 1 + 2 * (op - 0xB8 + 1) as usize,
            _ => 1,
        };
        i += len;
        v.push(i.min(code.len()));
    }
    v
}

fn disasm(code: &[u8]) -> String {
    let b = boundaries(code);
    let mut out = vec![];
    for w in b.windows(2) {
        let ins = &code[w[0]..w[1]];
        let op = ins[0];
        let s = match op {
            0x40 | 0xB0..=0xB7 => {
                let data = if op == 0x40 { &ins[2..] } else { &ins[1..] };
                format!("PUSHB {:?}", data)
            }
            0x41 | 0xB8..=0xBF => {
                let data = if op == 0x41 { &ins[2..] } else { &ins[1..] };
                let w: Vec<i16> = data.chunks(2).filter(|c| c.len() == 2).map(|c| i16::from_be_bytes([c[0], c[1]])).collect();
                format!("PUSHW {:?}", w)
            }
            _ => format!("{:#04x}", op),
        };
        out.push(s);
    }
    out.join(" | ")
}

fn main() {
    let a: Vec<String> = std::env::args().collect();
    let (path, gid, ppem) = (&a[1], a[2].parse::<u32>().unwrap(), a[3].parse::<u32>().unwrap());
    let mode = a.get(4).map(|s| s.as_str()).unwrap_or("mono");
    let (target, ftflag) = match mode {
        "normal" => (Target::Smooth { mode: SmoothMode::Normal, symmetric_rendering: true, preserve_linear_metrics: false }, freetype::face::LoadFlag::TARGET_NORMAL),
        "light" => (Target::Smooth { mode: SmoothMode::Light, symmetric_rendering: true, preserve_linear_metrics: false }, freetype::face::LoadFlag::TARGET_LIGHT),
        "lcd" => (Target::Smooth { mode: SmoothMode::Lcd, symmetric_rendering: true, preserve_linear_metrics: false }, freetype::face::LoadFlag::TARGET_LCD),
        "vlcd" => (Target::Smooth { mode: SmoothMode::VerticalLcd, symmetric_rendering: true, preserve_linear_metrics: false }, freetype::face::LoadFlag::TARGET_LCD_V),
        _ => (Target::Mono, freetype::face::LoadFlag::TARGET_MONO),
    };
    let orig = std::fs::read(path).unwrap();
    let (off, len) = {
        let font = FontRef::new(&orig).unwrap();
        let loca = font.loca(None).unwrap();
        let glyf = font.glyf().unwrap();
        match loca.get_glyf(GlyphId::new(gid), &glyf).unwrap() {
            Some(Glyph::Simple(g)) => {
                let ins = g.instructions();
                (ins.as_ptr() as usize - orig.as_ptr() as usize, ins.len())
            }
            _ => panic!("not a simple glyph"),
        }
    };
    let code = orig[off..off + len].to_vec();
    println!("program ({} bytes): {}", len, disasm(&code));
    let lib = freetype::Library::init().unwrap();
    let run = |data: &Vec<u8>| -> (Vec<(i64, i64)>, Vec<(i64, i64)>, String) {
        let mut face = lib.new_memory_face2(data.clone(), 0).unwrap();
        face.set_pixel_sizes(ppem, ppem).unwrap();
        // a separate face: FreeType keeps the twilight zone in the size object, a second load of the glyph from
        // the same face would start from what the first one left there
        let ft_pedantic_ok = {
            let mut face2 = lib.new_memory_face2(data.clone(), 0).unwrap();
            face2.set_pixel_sizes(ppem, ppem).unwrap();
            face2.load_glyph(gid, freetype::face::LoadFlag::NO_BITMAP | freetype::face::LoadFlag::NO_AUTOHINT | freetype::face::LoadFlag::PEDANTIC | ftflag).is_ok()
        };
        let ft: Vec<(i64, i64)> = match face.load_glyph(gid, freetype::face::LoadFlag::NO_BITMAP | freetype::face::LoadFlag::NO_AUTOHINT | ftflag) {
            Ok(_) => {
                let raw = face.glyph().raw();
                let o = &raw.outline;
                unsafe { std::slice::from_raw_parts(o.points, o.n_points as usize) }.iter().map(|p| (p.x as i64, p.y as i64)).collect()
            }
            Err(_) => vec![],
        };
        let font = FontRef::new(data).unwrap();
        let outlines = font.outline_glyphs();
        let mut note = String::new();
        let sk: Vec<(i64, i64)> = match HintingInstance::new(&outlines, Size::new(ppem as f32), LocationRef::default(), HintingOptions { engine: Engine::Interpreter, target }) {
            Ok(h) => {
                let g = outlines.get(GlyphId::new(gid)).unwrap();
                let mut v: Vec<PathElement> = vec![];
                if let Err(e) = g.draw(DrawSettings::hinted(&h, true), &mut v) {
                    note = format!("skrifa pedantic: {e:?}");
                }
                v.clear();
                let _ = g.draw(DrawSettings::hinted(&h, false), &mut v);
                // all points, in path order (on-curve only glyphs give the point list; otherwise control points too)
                let mut out = vec![];
                for e in &v {
                    match e {
                        PathElement::MoveTo { x, y } | PathElement::LineTo { x, y } => out.push(((*x * 64.0) as i64, (*y * 64.0) as i64)),
                        PathElement::QuadTo { cx0, cy0, x, y } => {
                            out.push(((*cx0 * 64.0) as i64, (*cy0 * 64.0) as i64));
                            out.push(((*x * 64.0) as i64, (*y * 64.0) as i64));
                        }
                        _ => {}
                    }
                }
                out
            }
            Err(e) => {
                note = format!("skrifa instance: {e:?}");
                vec![]
            }
        };
        if !ft_pedantic_ok {
            note.push_str(" freetype pedantic: error");
        }
        (ft, sk, note)
    };
    // compare as multisets of path coordinates is fragile; compare via fauntlet-like decomposition instead:
    // here simply compare skrifa's path against FreeType's decomposed by skrifa-independent means is overkill —
    // use the sorted coordinate multiset of on-path points, good enough to locate the first diverging prefix.
    let key = |v: &Vec<(i64, i64)>| {
        let mut w = v.clone();
        w.sort();
        w.dedup();
        w
    };
    if let Some(hex) = a.get(5) {
        // custom program (hex) in place of the glyph's, padded with RTG
        let bytes: Vec<u8> = (0..hex.len() / 2).map(|i| u8::from_str_radix(&hex[2 * i..2 * i + 2], 16).unwrap()).collect();
        assert!(bytes.len() <= len, "custom program longer than the original ({len} bytes)");
        let mut data = orig.clone();
        for k in 0..len {
            data[off + k] = *bytes.get(k).unwrap_or(&0x18);
        }
        let (ft, sk, note) = run(&data);
        println!("custom: {}\nfreetype points: {:?}\nskrifa path pts: {:?} {note}", disasm(&bytes), ft, sk);
        return;
    }
    // cut only where no IF is open (a truncated IF would be a different program error)
    let b: Vec<usize> = {
        let all = boundaries(&code);
        let mut depth = 0i32;
        let mut v = vec![0];
        for w in all.windows(2) {
            match code[w[0]] {
                0x58 => depth += 1,
                0x59 => depth -= 1,
                _ => {}
            }
            if depth == 0 {
                v.push(w[1]);
            }
        }
        v
    };
    let mut last_equal = 0;
    for &cut in &b {
        let mut data = orig.clone();
        for k in off + cut..off + len {
            data[k] = 0x18;
        }
        let (ft, sk, note) = run(&data);
        // FreeType's raw points include off-curve points; skrifa's path includes implied on-curve points.
        // Every FreeType point must appear in skrifa's path point set.
        let sks = key(&sk);
        let missing: Vec<_> = ft.iter().filter(|p| sks.binary_search(p).is_err()).collect();
        if missing.is_empty() {
            last_equal = cut;
        } else {
            println!("first divergence after prefix of {cut} bytes (equal up to {last_equal}) {note}");
            println!("prefix: {}", disasm(&code[..cut]));
            println!("freetype points: {:?}", ft);
            println!("skrifa path pts: {:?}", sk);
            println!("freetype points missing from skrifa's path: {:?}", missing);
            // delta debugging: blank instruction ranges (with RTG) while both engines still accept the program
            // pedantically and still disagree
            let diverges = |prog: &Vec<u8>| -> bool {
                let mut data = orig.clone();
                for k in 0..len {
                    data[off + k] = prog[k];
                }
                let (ft, sk, note) = run(&data);
                if !note.is_empty() || ft.is_empty() {
                    return false;
                }
                let sks = key(&sk);
                ft.iter().any(|p| sks.binary_search(p).is_err())
            };
            let mut prog: Vec<u8> = code.clone();
            for k in cut..len {
                prog[k] = 0x18;
            }
            if !diverges(&prog) {
                println!("(not minimised: the cut program is not accepted pedantically by both engines)");
                return;
            }
            let all = boundaries(&code[..cut]);
            let mut w = all.len() / 2;
            while w >= 1 {
                let mut i = 0;
                while i + w < all.len() {
                    let (lo, hi) = (all[i], all[i + w]);
                    if prog[lo..hi].iter().all(|b| *b == 0x18) {
                        i += 1;
                        continue;
                    }
                    let mut trial = prog.clone();
                    for k in lo..hi {
                        trial[k] = 0x18;
                    }
                    if diverges(&trial) {
                        prog = trial;
                    }
                    i += 1;
                }
                w /= 2;
            }
            let kept: Vec<u8> = {
                // drop the RTG filler for display (RTG is idempotent here only if the program never relied on a
                // round state set earlier; shown as-is, the hex below is the exact program)
                prog.clone()
            };
            let text = disasm(&kept).replace("0x18 | ", "").replace(" | 0x18", "");
            println!("minimised program: {text}");
            println!("hex: {}", kept.iter().map(|b| format!("{b:02x}")).collect::<String>());
            let mut data = orig.clone();
            for k in 0..len {
                data[off + k] = prog[k];
            }
            let (ft, sk, _) = run(&data);
            println!("freetype points: {:?}\nskrifa path pts: {:?}", ft, sk);
            return;
        }
    }
    println!("no divergence found by prefixing (difference needs the full program or is in the advance)");
}
