//! C03 — scaled and hinted outlines match FreeType (static fonts).  PARTIAL.
//!
//! Three layers, all against the REAL linked FreeType (freetype-sys bundles and compiles 2.12.1,
//! the build /repo/fauntlet links) and the REAL skrifa/font-types code:
//!
//! A. kernel correspondence
//!    * `ft.*`  FFI calls of FT_MulFix / FT_DivFix / FT_MulDiv / FT_MulDiv_No_Round / FT_RoundFix /
//!      FT_CeilFix / FT_FloorFix                           vs Model/FtCalc.lean
//!    * `sk.*`  skrifa hint::math, RoundState::round, the round-state opcode handlers and
//!      `dot14` (through `skrifa::outline::verif_hooks`), font-types `Fixed` operators
//!                                                        vs Model/HintMath.lean, HintRound.lean
//!    * oracles (model independent, real vs real): skrifa kernel == FreeType kernel on every operand
//!      tuple where FreeType's `long` result fits skrifa's `i32`.
//! B. FreeType's static `Round_*`/`SetSuperRound` reached through generated glyph programs run by the
//!    linked FreeType interpreter (see `bytecode` below)  vs Model/FtRound.lean; the same fonts run
//!    through skrifa's real hinter are compared to FreeType (oracle).
//! D/E. generated fonts through the same differential: geometry fonts (src/c03_synth.rs) and random
//!    well-formed fpgm/prep/glyph programs (src/c03_ttfuzz.rs; triage tool: src/bin/c03_min.rs).
//! C. the property itself, fauntlet style: static fonts of font-test-data × ppem × {unscaled,
//!    unhinted, interpreter × {mono, normal, light, lcd, vertical lcd}}: path (after fauntlet's
//!    RegularizingPen) and advance equal.
#[path = "../../../harness/src/lib.rs"]
#[allow(dead_code)]
mod fvlib;
use fvlib::common::*;

use fauntlet::{Hinting, HintingTarget, InstanceOptions, RegularizingPen};
use skrifa::outline::pen::PathElement;
use skrifa::outline::verif_hooks::{hint_arith as ha, hint_round_ops as hr};
use skrifa::raw::{FontRef, TableProvider};
use skrifa::GlyphId;
use std::os::raw::c_long;

#[path = "../c03_bytecode.rs"]
mod bytecode;
#[path = "../c03_synth.rs"]
mod synth;
#[path = "../c03_ttfuzz.rs"]
mod ttfuzz;
#[path = "../c03_ttedge.rs"]
mod ttedge;
#[path = "../c03_cffsynth.rs"]
mod cffsynth;
#[path = "../c03_extra.rs"]
mod extra;
#[path = "../c03_movekern.rs"]
mod movekern;
#[path = "../c03_prog.rs"]
mod prog;
#[path = "../c03_loadkern.rs"]
mod loadkern;
#[path = "../c03_ctl.rs"]
mod ctl;

extern "C" {
    fn FT_MulFix(a: c_long, b: c_long) -> c_long;
    fn FT_DivFix(a: c_long, b: c_long) -> c_long;
    fn FT_MulDiv(a: c_long, b: c_long, c: c_long) -> c_long;
    fn FT_MulDiv_No_Round(a: c_long, b: c_long, c: c_long) -> c_long;
    fn FT_RoundFix(a: c_long) -> c_long;
    fn FT_CeilFix(a: c_long) -> c_long;
    fn FT_FloorFix(a: c_long) -> c_long;
    fn FT_Hypot(x: c_long, y: c_long) -> c_long;
}

fn main() {
    fvlib::main_with("C03", run)
}

fn fits_i32(v: i64) -> bool {
    v >= i32::MIN as i64 && v <= i32::MAX as i64
}

// ------------------------------------------------------------------------------------------------
// A. kernels
// ------------------------------------------------------------------------------------------------

fn binary(s: &mut Session, a: i32, b: i32) {
    let (la, lb) = (a as c_long, b as c_long);
    // FreeType, real
    let ft_mul = unsafe { FT_MulFix(la, lb) } as i64;
    let ft_div = unsafe { FT_DivFix(la, lb) } as i64;
    s.case("ft.mulfix", format!("ft.mulfix {a} {b}"), ft_mul.to_string());
    s.case("ft.divfix", format!("ft.divfix {a} {b}"), ft_div.to_string());
    // skrifa, real
    let sk_mul = catch(|| ha::mul(a, b));
    let sk_div = catch(|| ha::div(a, b));
    s.case("sk.mul", format!("sk.mul {a} {b}"), trap_or(sk_mul.clone()));
    s.case("sk.div", format!("sk.div {a} {b}"), trap_or(sk_div.clone()));
    let sk_mul14 = catch(|| ha::mul14(a, b));
    s.case("sk.mul14", format!("sk.mul14 {a} {b}"), trap_or(sk_mul14));
    // real vs real
    s.oracle("kernel:Fixed*Fixed==FT_MulFix", sk_mul == Ok(ft_mul as i32) && fits_i32(ft_mul),
        || format!("mul {a} {b}"), || format!("skrifa {sk_mul:?} freetype {ft_mul}"));
    if fits_i32(ft_div) {
        s.count("div:fits");
        s.oracle("kernel:Fixed/Fixed==FT_DivFix", sk_div == Ok(ft_div as i32),
            || format!("div {a} {b}"), || format!("skrifa {sk_div:?} freetype {ft_div}"));
    } else {
        s.count("div:ft-exceeds-i32");
        s.oracle("kernel:Fixed/Fixed==FT_DivFix(truncated)", sk_div == Ok(ft_div as i32),
            || format!("div {a} {b}"), || format!("skrifa {sk_div:?} freetype {ft_div}"));
    }
}

fn ternary(s: &mut Session, a: i32, b: i32, c: i32) {
    let (la, lb, lc) = (a as c_long, b as c_long, c as c_long);
    let ft = unsafe { FT_MulDiv(la, lb, lc) } as i64;
    let ftnr = unsafe { FT_MulDiv_No_Round(la, lb, lc) } as i64;
    s.case("ft.muldiv", format!("ft.muldiv {a} {b} {c}"), ft.to_string());
    s.case("ft.muldivnr", format!("ft.muldivnr {a} {b} {c}"), ftnr.to_string());
    let sk = catch(|| ha::mul_div(a, b, c));
    let sknr = catch(|| ha::mul_div_no_round(a, b, c));
    s.case("sk.muldiv", format!("sk.muldiv {a} {b} {c}"), trap_or(sk.clone()));
    s.case("sk.muldivnr", format!("sk.muldivnr {a} {b} {c}"), trap_or(sknr.clone()));
    s.count(if fits_i32(ft) { "muldiv:fits" } else { "muldiv:ft-exceeds-i32" });
    s.oracle("kernel:mul_div==FT_MulDiv(truncated)", sk == Ok(ft as i32),
        || format!("mul_div {a} {b} {c}"), || format!("skrifa {sk:?} freetype {ft}"));
    match &sknr {
        Ok(v) => {
            s.count("muldivnr:returns");
            s.oracle("kernel:mul_div_no_round==FT_MulDiv_No_Round(truncated)", *v == ftnr as i32,
                || format!("mul_div_no_round {a} {b} {c}"), || format!("skrifa {v} freetype {ftnr}"));
        }
        Err(_) => s.count("muldivnr:traps"),
    }
}

fn unary(s: &mut Session, a: i32) {
    let la = a as c_long;
    s.case("ft.roundfix", format!("ft.roundfix {a}"), unsafe { FT_RoundFix(la) }.to_string());
    s.case("ft.ceilfix", format!("ft.ceilfix {a}"), unsafe { FT_CeilFix(la) }.to_string());
    s.case("ft.floorfix", format!("ft.floorfix {a}"), unsafe { FT_FloorFix(la) }.to_string());
    s.case("sk.floor", format!("sk.floor {a}"), trap_or(catch(|| ha::floor(a))));
    s.case("sk.round", format!("sk.round {a}"), trap_or(catch(|| ha::round(a))));
    s.case("sk.ceil", format!("sk.ceil {a}"), trap_or(catch(|| ha::ceil(a))));
    s.case("sk.roundpad", format!("sk.roundpad {a} 32"), trap_or(catch(|| ha::round_pad(a, 32))));
}

fn wide(s: &mut Session, a: i64, b: i64, c: i64) {
    // FT_Long operands beyond 32 bits: FT_MulFix truncates its operands (x86-64 inline variant),
    // the others compute in u64.  (No skrifa counterpart: its API is i32.)
    let r = unsafe { FT_MulFix(a as c_long, b as c_long) } as i64;
    s.case("ft.mulfix64", format!("ft.mulfix {a} {b}"), r.to_string());
    let r = unsafe { FT_DivFix(a as c_long, b as c_long) } as i64;
    s.case("ft.divfix64", format!("ft.divfix {a} {b}"), r.to_string());
    let r = unsafe { FT_MulDiv(a as c_long, b as c_long, c as c_long) } as i64;
    s.case("ft.muldiv64", format!("ft.muldiv {a} {b} {c}"), r.to_string());
    let r = unsafe { FT_MulDiv_No_Round(a as c_long, b as c_long, c as c_long) } as i64;
    s.case("ft.muldivnr64", format!("ft.muldivnr {a} {b} {c}"), r.to_string());
    for v in [a, b] {
        s.case("ft.roundfix64", format!("ft.roundfix {v}"), unsafe { FT_RoundFix(v as c_long) }.to_string());
        s.case("ft.ceilfix64", format!("ft.ceilfix {v}"), unsafe { FT_CeilFix(v as c_long) }.to_string());
        s.case("ft.floorfix64", format!("ft.floorfix {v}"), unsafe { FT_FloorFix(v as c_long) }.to_string());
    }
}

fn dot(s: &mut Session, ax: i32, ay: i32, bx: i32, by: i32) {
    let r = catch(|| hr::project_both(ax, ay, bx, by));
    s.count(if r.is_ok() { "dot14:returns" } else { "dot14:traps" });
    s.case("sk.dot14", format!("sk.dot14 {ax} {ay} {bx} {by}"), trap_or(r));
}

const STATE_OPS: [u8; 8] = [0x18, 0x19, 0x3D, 0x7D, 0x7C, 0x7A, 0x76, 0x77];

fn round_state(s: &mut Session, mode: u8, thr: i32, ph: i32, per: i32, d: i32) {
    let r = catch(|| ha::round_state_round(mode, thr, ph, per, d).unwrap());
    s.count(&format!("sk.rs:mode{mode}:{}", if r.is_ok() { "returns" } else { "traps" }));
    s.case("sk.rs", format!("sk.rs {mode} {thr} {ph} {per} {d}"), trap_or(r));
}

fn round_ops(s: &mut Session, op: u8, sel: i32, d: i32) -> Option<(i32, i32, i32, i32)> {
    let r = catch(|| hr::round_ops(op, sel, d).unwrap());
    s.count(&format!("sk.rops:{op:#x}:{}", if r.is_ok() { "returns" } else { "traps" }));
    let resp = match &r {
        Ok((p, ph, t, v)) => format!("{p} {ph} {t} {v}"),
        Err(_) => "trap".into(),
    };
    s.case("sk.rops", format!("sk.rops {op} {sel} {d}"), resp);
    r.ok()
}

fn mixed_i32(rng: &mut Rng) -> i32 {
    match rng.below(6) {
        0 => rng.range(-70, 70) as i32,
        1 => rng.range(-5000, 5000) as i32,
        2 => rng.range(-0x20000, 0x20000) as i32,
        3 => rng.range(-(1 << 26), 1 << 26) as i32,
        4 => {
            let b = *rng.pick(&boundary_i32());
            b.wrapping_add(rng.range(-3, 3) as i32)
        }
        _ => rng.next() as i32,
    }
}

fn kernels(cfg: &Config, s: &mut Session) {
    let mut rng = Rng::new(cfg.seed);
    let grid = boundary_i32();
    for &a in &grid {
        unary(s, a);
        for &b in &grid {
            binary(s, a, b);
        }
    }
    let small: Vec<i32> = vec![i32::MIN, i32::MIN + 1, -0x10000, -65, -64, -3, -1, 0, 1, 2, 3, 63, 64, 0x7FFF, 0x10000, i32::MAX - 1, i32::MAX];
    for &a in &grid {
        for &b in &small {
            for &c in &small {
                ternary(s, a, b, c);
            }
        }
    }
    let n = if cfg.thorough() { 400_000 } else { 30_000 };
    for _ in 0..n {
        let (a, b, c) = (mixed_i32(&mut rng), mixed_i32(&mut rng), mixed_i32(&mut rng));
        binary(s, a, b);
        ternary(s, a, b, c);
        unary(s, a);
    }
    for _ in 0..n / 10 {
        let w = |rng: &mut Rng| -> i64 {
            match rng.below(4) {
                0 => rng.next() as i64,
                1 => (rng.next() as i64) >> rng.below(40),
                2 => *rng.pick(&[i64::MIN, i64::MIN + 1, i64::MAX, i64::MAX - 1, 1 << 47, -(1 << 47), 1 << 32, -(1 << 32), (1 << 31), -(1 << 31) - 1]),
                _ => mixed_i32(rng) as i64,
            }
        };
        let (a, b, c) = (w(&mut rng), w(&mut rng), w(&mut rng));
        wide(s, a, b, c);
    }
    // 2.14 dot products: unit-ish vectors and extremes
    let v14: Vec<i32> = vec![i32::MIN, -0x4000, -11585, -1, 0, 1, 11585, 0x4000, i32::MAX];
    for &ax in &small {
        for &ay in &small {
            for &bx in &v14 {
                for &by in &v14 {
                    dot(s, ax, ay, bx, by);
                }
            }
        }
    }
    for _ in 0..n / 4 {
        let b = |rng: &mut Rng| if rng.chance(3, 4) { rng.range(-0x4000, 0x4000) as i32 } else { mixed_i32(rng) };
        let (ax, ay) = (mixed_i32(&mut rng), mixed_i32(&mut rng));
        let (bx, by) = (b(&mut rng), b(&mut rng));
        dot(s, ax, ay, bx, by);
    }
    // round state: (a) arbitrary states, the full domain of the theorems
    let dists: Vec<i32> = {
        let mut v: Vec<i32> = grid.clone();
        for k in -130..=130 {
            v.push(k);
        }
        v.sort();
        v.dedup();
        v
    };
    for mode in 0u8..6 {
        for &d in &dists {
            round_state(s, mode, 0, 0, 64, d);
        }
    }
    for _ in 0..n / 2 {
        let mode = rng.below(8) as u8;
        let st = |rng: &mut Rng| match rng.below(4) {
            0 => rng.range(-200, 200) as i32,
            1 => *rng.pick(&[0, 1, 22, 32, 45, 64, 90, 128, -64, -1, i32::MIN, i32::MAX]),
            _ => mixed_i32(rng),
        };
        let (thr, ph, per) = (st(&mut rng), st(&mut rng), st(&mut rng));
        let d = if rng.chance(1, 2) { rng.range(-4000, 4000) as i32 } else { mixed_i32(&mut rng) };
        round_state(s, mode, thr, ph, per, d);
    }
    // (b) states reachable by the opcode handlers: all 256 selectors × both grids × distances
    let few: Vec<i32> = vec![-2147483647, -100000, -1000, -129, -97, -96, -65, -64, -63, -33, -32, -31, -23, -22, -12, -11, -1, 0, 1, 11, 12, 22, 23, 31, 32, 33, 45, 46, 63, 64, 65, 90, 96, 97, 129, 1000, 100000, 2147483000];
    for &op in &STATE_OPS {
        let sels: Vec<i32> = if op == 0x76 || op == 0x77 { (0..256).collect() } else { vec![0] };
        for &sel in &sels {
            for &d in &few {
                round_ops(s, op, sel, d);
            }
        }
    }
    for _ in 0..n / 4 {
        let op = *rng.pick(&STATE_OPS);
        let sel = if rng.chance(1, 8) { mixed_i32(&mut rng) } else { rng.below(256) as i32 };
        let d = if rng.chance(3, 4) { rng.range(-3000, 3000) as i32 } else { mixed_i32(&mut rng) };
        round_ops(s, op, sel, d);
    }
}

/// `ft_hypot` (glyf/mod.rs, the vector length that scales SCALED_COMPONENT_OFFSET offsets) against
/// the linked `FT_Hypot` = `FT_Vector_Length`.  Oracle only: the CORDIC iteration is not modelled.
fn hypot_oracle(cfg: &Config, s: &mut Session) {
    let mut rng = Rng::new(cfg.seed ^ 0x4179);
    let mut one = |s: &mut Session, x: i32, y: i32| {
        let ft = unsafe { FT_Hypot(x as c_long, y as c_long) } as i64;
        let sk = catch(|| skrifa::outline::verif_hooks::ft_hypot(x, y));
        if fits_i32(ft) {
            s.count("hypot:fits");
            s.oracle("kernel:ft_hypot==FT_Hypot", sk == Ok(ft as i32), || format!("hypot {x} {y}"), || format!("skrifa {sk:?} freetype {ft}"));
        } else {
            s.count("hypot:ft-exceeds-i32");
            s.oracle("kernel:ft_hypot-no-panic", sk.is_ok(), || format!("hypot {x} {y}"), || format!("skrifa {sk:?} freetype {ft}"));
        }
    };
    // the domain of the call site: 2.14 transform entries as 16.16, i.e. multiples of 4 within ±2^17
    let f2: Vec<i32> = vec![-32768, -32767, -16385, -16384, -16383, -11585, -8192, -123, -2, -1, 0, 1, 2, 123, 8192, 11585, 16383, 16384, 16385, 23170, 32766, 32767];
    for &a in &f2 {
        for &b in &f2 {
            one(s, a * 4, b * 4);
        }
    }
    let n = if cfg.thorough() { 2_000_000 } else { 100_000 };
    for _ in 0..n {
        let (a, b) = (rng.range(-32768, 32767) as i32 * 4, rng.range(-32768, 32767) as i32 * 4);
        one(s, a, b);
    }
    let grid = boundary_i32();
    for &a in &grid {
        for &b in &grid {
            one(s, a, b);
        }
    }
    for _ in 0..n / 4 {
        let (a, b) = (mixed_i32(&mut rng), mixed_i32(&mut rng));
        one(s, a, b);
    }
}

// ------------------------------------------------------------------------------------------------
// C. whole-outline differential (the property statement)
// ------------------------------------------------------------------------------------------------

fn elements(e: &[PathElement]) -> String {
    e.iter()
        .map(|c| match c {
            PathElement::MoveTo { x, y } => format!("M{x},{y}"),
            PathElement::LineTo { x, y } => format!("L{x},{y}"),
            PathElement::QuadTo { cx0, cy0, x, y } => format!("Q{cx0},{cy0},{x},{y}"),
            PathElement::CurveTo { cx0, cy0, cx1, cy1, x, y } => format!("C{cx0},{cy0},{cx1},{cy1},{x},{y}"),
            PathElement::Close => "Z".into(),
        })
        .collect::<Vec<_>>()
        .join(" ")
}

/// first differing element with a little context (full paths are too long for a replay record)
fn path_diff(a: &[PathElement], b: &[PathElement]) -> String {
    let i = a.iter().zip(b.iter()).position(|(x, y)| x != y).unwrap_or(a.len().min(b.len()));
    let lo = i.saturating_sub(1);
    let w = |v: &[PathElement]| elements(&v[lo.min(v.len())..(i + 2).min(v.len())]);
    format!("len {}/{} first difference at element {i}: freetype [{}] skrifa [{}]", a.len(), b.len(), w(a), w(b))
}

fn first_few(key: &str) -> bool {
    use std::collections::HashMap;
    use std::sync::Mutex;
    static SEEN: Mutex<Option<HashMap<String, u32>>> = Mutex::new(None);
    let mut g = SEEN.lock().unwrap();
    let n = g.get_or_insert_with(HashMap::new).entry(key.to_string()).or_insert(0);
    *n += 1;
    *n <= 4
}

pub fn mode_name(h: Option<Hinting>) -> String {
    match h {
        None => "unhinted".into(),
        Some(Hinting::Interpreter(t)) => format!("interp-{t:?}").to_lowercase(),
        Some(Hinting::Auto(t)) => format!("auto-{t:?}").to_lowercase(),
    }
}

/// fauntlet `compare_glyphs`, re-stated so that a mismatch yields (font, gid, ppem, mode):
/// same instances (`Font::instantiate`), same pens (`RegularizingPen`), same skips
/// (compare_glyphs.rs: non-scalable faces are skipped; the Handjet skip applies to the autohinter
/// only; font/freetype.rs: tricky fonts ignore the hinting request on the FreeType side and
/// font/skrifa.rs forces the interpreter for them — both are inside the instances).
/// Differences to fauntlet: (1) the advance is compared for static fonts too (fauntlet only
/// reports an advance mismatch when HVAR and gvar are both present); (2) no early `break`.
pub fn differential(cfg: &Config, s: &mut Session, path: &std::path::Path, ppems: &[u32], modes: &[Option<Hinting>]) {
    let name = path.file_name().unwrap().to_string_lossy().to_string();
    let Some(mut font) = fauntlet::Font::new(path) else {
        s.count("diff:font-unreadable");
        return;
    };
    let _ = cfg;
    for index in 0..font.count() {
        if font.axis_count(index) != 0 {
            s.count("diff:skip-variable");
            continue;
        }
        for &ppem in ppems {
            for &mode in modes {
                if ppem == 0 && mode.is_some() {
                    continue;
                }
                let options = InstanceOptions::new(index, ppem, &[], mode);
                let Some((mut ft, mut sk)) = font.instantiate(&options) else {
                    s.count("diff:instantiate-none");
                    s.count(&format!("diff:instantiate-none:{name}:{}", if mode.is_some() { "hinted" } else { "unhinted" }));
                    continue;
                };
                if !ft.is_scalable() {
                    s.count("diff:skip-not-scalable");
                    continue;
                }
                let glyph_count = sk.glyph_count();
                if FRESH_INSTANCE_PER_GLYPH.load(std::sync::atomic::Ordering::Relaxed) {
                    // FreeType keeps interpreter state in the size object (twilight zone, super-round
                    // parameters …): with one face for all glyphs its output depends on which glyphs were
                    // loaded before.  For generated programs every glyph gets a fresh pair of instances so
                    // that both sides are a function of (font, glyph, size, mode).
                    drop((ft, sk));
                    for gid in 0..glyph_count {
                        let Some((mut ft, mut sk)) = font.instantiate(&options) else {
                            s.count("diff:instantiate-none");
                            break;
                        };
                        compare_glyph(s, &mut ft, &mut sk, &name, index, ppem, mode, GlyphId::from(gid));
                    }
                } else {
                    for gid in 0..glyph_count {
                        compare_glyph(s, &mut ft, &mut sk, &name, index, ppem, mode, GlyphId::from(gid));
                    }
                }
            }
        }
    }
}

pub static FRESH_INSTANCE_PER_GLYPH: std::sync::atomic::AtomicBool = std::sync::atomic::AtomicBool::new(false);
/// per-glyph case descriptions of a generated font (appended to the oracle input as ` case=…`)
pub static GLYPH_LABELS: std::sync::Mutex<Option<Vec<String>>> = std::sync::Mutex::new(None);

fn glyph_label(gid: u32) -> String {
    match GLYPH_LABELS.lock().unwrap().as_ref().and_then(|v| v.get(gid as usize)) {
        Some(l) => format!(" case=[{l}]"),
        None => String::new(),
    }
}

/// what the comparison of one glyph found (computed without the session so that it can run on a worker thread)
pub enum GlyphResult {
    Compared { path_same: bool, path_detail: String, adv: Option<(f32, f32)> },
    BothFail,
    FreeTypeFailsOnly,
    SkrifaFailsOnly(String),
    SkrifaPanics(String),
}

pub fn eval_glyph(ft: &mut fauntlet::FreeTypeInstance, sk: &mut fauntlet::SkrifaInstance, ppem: u32, gid: GlyphId) -> GlyphResult {
    let is_scaled = ppem != 0;
    let mut ft_outline: Vec<PathElement> = vec![];
    let mut sk_outline: Vec<PathElement> = vec![];
    let ft_adv = ft.outline(gid, &mut RegularizingPen::new(&mut ft_outline, is_scaled));
    let sk_adv = catch(|| sk.outline(gid, &mut RegularizingPen::new(&mut sk_outline, is_scaled)));
    match (ft_adv, sk_adv) {
        (Some(fa), Ok(Ok(sa))) => {
            let same = ft_outline == sk_outline;
            GlyphResult::Compared { path_same: same, path_detail: if same { String::new() } else { path_diff(&ft_outline, &sk_outline) }, adv: sa.map(|sa| (fa, sa)) }
        }
        (None, Ok(Err(_))) => GlyphResult::BothFail,
        // FreeType refusing a glyph skrifa draws is not a mismatch of outlines fauntlet could report
        // (it unwraps FreeType's result first).
        (None, Ok(Ok(_))) => GlyphResult::FreeTypeFailsOnly,
        (Some(_), Ok(Err(e))) => GlyphResult::SkrifaFailsOnly(format!("{e:?}")),
        (_, Err(p)) => GlyphResult::SkrifaPanics(p),
    }
}

#[allow(clippy::too_many_arguments)]
pub fn record_glyph(s: &mut Session, name: &str, index: usize, ppem: u32, mode: Option<Hinting>, gid: GlyphId, r: GlyphResult) {
    let input = || format!("font={name}#{index} gid={} ppem={ppem} mode={}{}", gid.to_u32(), mode_name(mode), glyph_label(gid.to_u32()));
    match r {
        GlyphResult::Compared { path_same: same, path_detail, adv } => {
            s.count("diff:compared");
            s.count(&format!("diff:mode:{}", mode_name(mode)));
            if !same {
                s.count(&format!("mismatch:path:{name}:ppem{ppem}:{}", mode_name(mode)));
            }
            // one glyph failing at every size and mode must not exhaust the harness' cap of
            // recorded failures and hide a different glyph: record 4 per (font, glyph), count the rest
            if same || first_few(&format!("path:{name}:{index}:{}", gid.to_u32())) {
                s.oracle("outline:path==freetype", same, input, || path_detail);
            } else {
                s.count("mismatch:path:further-sizes-of-an-already-recorded-glyph");
            }
            if let Some((fa, sa)) = adv {
                s.count("diff:advance-compared");
                if fa != sa {
                    s.count(&format!("mismatch:advance:{name}:ppem{ppem}:{}", mode_name(mode)));
                }
                if fa == sa || first_few(&format!("adv:{name}:{index}:{}", gid.to_u32())) {
                    s.oracle("outline:advance==freetype", fa == sa, input, || format!("freetype {fa} skrifa {sa}"));
                } else {
                    s.count("mismatch:advance:further-sizes-of-an-already-recorded-glyph");
                }
            }
        }
        GlyphResult::BothFail => s.count("diff:both-fail"),
        GlyphResult::FreeTypeFailsOnly => s.count("diff:freetype-fails-only"),
        GlyphResult::SkrifaFailsOnly(e) => s.oracle("outline:skrifa-draws-what-freetype-loads", false, input, || format!("skrifa error {e}")),
        GlyphResult::SkrifaPanics(p) => s.oracle("outline:skrifa-no-panic", false, input, || format!("panic {p}")),
    }
}

#[allow(clippy::too_many_arguments)]
fn compare_glyph(
    s: &mut Session,
    ft: &mut fauntlet::FreeTypeInstance,
    sk: &mut fauntlet::SkrifaInstance,
    name: &str,
    index: usize,
    ppem: u32,
    mode: Option<Hinting>,
    gid: GlyphId,
) {
    let r = eval_glyph(ft, sk, ppem, gid);
    record_glyph(s, name, index, ppem, mode, gid, r);
}

fn corpus() -> Vec<std::path::PathBuf> {
    let mut v = vec![];
    for dir in ["/repo/font-test-data/test_data/ttf", "/repo/font-test-data/test_data/ttc"] {
        if let Ok(rd) = std::fs::read_dir(dir) {
            for e in rd.flatten() {
                let p = e.path();
                match p.extension().and_then(|x| x.to_str()) {
                    Some("ttf") | Some("otf") | Some("ttc") => v.push(p),
                    _ => {}
                }
            }
        }
    }
    v.sort();
    v
}

fn outlines(cfg: &Config, s: &mut Session) {
    use HintingTarget::*;
    let modes: Vec<Option<Hinting>> = vec![
        None,
        Some(Hinting::Interpreter(Mono)),
        Some(Hinting::Interpreter(Normal)),
        Some(Hinting::Interpreter(Light)),
        Some(Hinting::Interpreter(Lcd)),
        Some(Hinting::Interpreter(VerticalLcd)),
    ];
    let ppems: Vec<u32> = if cfg.thorough() {
        let mut v: Vec<u32> = (0..=64).collect();
        v.extend([72, 96, 100, 113, 127, 128, 144, 200, 256, 500, 1000, 2048]);
        v
    } else {
        // fauntlet's own sizes plus the small sizes where hinting and rounding bite
        vec![0, 7, 8, 9, 11, 12, 13, 16, 17, 24, 50, 72, 113, 144]
    };
    for path in corpus() {
        // a static font is one without fvar (checked per face index inside)
        if let Ok(data) = std::fs::read(&path) {
            if let Ok(f) = FontRef::new(&data) {
                if f.fvar().is_ok() {
                    s.count("diff:skip-variable");
                    continue;
                }
            }
        }
        differential(cfg, s, &path, &ppems, &modes);
    }
}

fn run(cfg: &Config, s: &mut Session) {
    // development aid: C03_ONLY=ttedge|cffsynth|extra runs a single differential layer (the check never sets it)
    match std::env::var("C03_ONLY").as_deref() {
        Ok("ttedge") => return ttedge::run(cfg, s),
        Ok("cffsynth") => return cffsynth::run(cfg, s),
        Ok("extra") => return extra::run(cfg, s),
        Ok("movekern") => return movekern::run(cfg, s),
        Ok("prog") => return prog::run(cfg, s),
        Ok("loadkern") => return loadkern::run(cfg, s),
        Ok("ctl") => return ctl::run(cfg, s),
        _ => {}
    }
    kernels(cfg, s);
    hypot_oracle(cfg, s);
    bytecode::run(cfg, s);
    movekern::run(cfg, s);
    prog::run(cfg, s);
    loadkern::run(cfg, s);
    ctl::run(cfg, s);
    synth::run(cfg, s);
    ttfuzz::run(cfg, s);
    ttedge::run(cfg, s);
    cffsynth::run(cfg, s);
    outlines(cfg, s);
    extra::run(cfg, s);
}
