#[path = "../../../harness/src/common.rs"]
#[allow(dead_code)]
mod common;
use freetype_sys::{FT_DivFix, FT_MulDiv, FT_MulFix};
fn main() {
    let a = i32::MIN as std::os::raw::c_long;
    unsafe {
        println!("{} {} {}", FT_MulFix(a, a), FT_DivFix(1 << 30, 1), FT_MulDiv(a, a, 1));
    }
}
