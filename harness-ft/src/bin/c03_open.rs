//! c03_open <font> [gid] [ppem]: triage helper — which library refuses a generated font, and the
//! hinted outline of one glyph from both (CFF fonts; the TrueType counterpart is c03_min).
use skrifa::outline::{pen::PathElement, DrawSettings, HintingInstance, HintingOptions};
use skrifa::prelude::*;
use skrifa::raw::{FontRef, TableProvider};
use skrifa::MetadataProvider;

fn main() {
    let a: Vec<String> = std::env::args().collect();
    let data = std::fs::read(&a[1]).unwrap();
    let gid: u32 = a.get(2).map(|s| s.parse().unwrap()).unwrap_or(1);
    let ppem: u32 = a.get(3).map(|s| s.parse().unwrap()).unwrap_or(12);
    let lib = freetype::Library::init().unwrap();
    match lib.new_memory_face2(data.clone(), 0) {
        Ok(mut face) => {
            println!("freetype: opened, {} glyphs, scalable {}", face.num_glyphs(), face.is_scalable());
            println!("  set_pixel_sizes: {:?}", face.set_pixel_sizes(ppem, ppem));
            let r = face.load_glyph(gid, freetype::face::LoadFlag::NO_BITMAP | freetype::face::LoadFlag::NO_AUTOHINT);
            println!("  load_glyph: {r:?}");
            if r.is_ok() {
                let raw = face.glyph().raw();
                let o = &raw.outline;
                let pts: Vec<(i64, i64)> = unsafe { std::slice::from_raw_parts(o.points, o.n_points as usize) }.iter().map(|p| (p.x as i64, p.y as i64)).collect();
                println!("  points: {pts:?}");
            }
        }
        Err(e) => println!("freetype: {e:?}"),
    }
    match FontRef::new(&data) {
        Ok(font) => {
            println!("skrifa: FontRef ok; cff {:?} cff2 {:?}", font.cff().is_ok(), font.cff2().is_ok());
            let outlines = font.outline_glyphs();
            println!("  outline format {:?}", outlines.format());
            match HintingInstance::new(&outlines, Size::new(ppem as f32), LocationRef::default(), HintingOptions::default()) {
                Ok(h) => {
                    if let Some(g) = outlines.get(GlyphId::new(gid)) {
                        let mut v: Vec<PathElement> = vec![];
                        let r = g.draw(DrawSettings::hinted(&h, false), &mut v);
                        println!("  draw: {:?}", r.map(|_| ()));
                        let pts: Vec<(i64, i64)> = v
                            .iter()
                            .flat_map(|e| match e {
                                PathElement::MoveTo { x, y } | PathElement::LineTo { x, y } => vec![((*x * 64.0) as i64, (*y * 64.0) as i64)],
                                PathElement::CurveTo { cx0, cy0, cx1, cy1, x, y } => vec![((*cx0 * 64.0) as i64, (*cy0 * 64.0) as i64), ((*cx1 * 64.0) as i64, (*cy1 * 64.0) as i64), ((*x * 64.0) as i64, (*y * 64.0) as i64)],
                                _ => vec![],
                            })
                            .collect();
                        println!("  points: {pts:?}");
                    } else {
                        println!("  no glyph {gid}");
                    }
                }
                Err(e) => println!("  hinting instance: {e:?}"),
            }
        }
        Err(e) => println!("skrifa: {e:?}"),
    }
}
