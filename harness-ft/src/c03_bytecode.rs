//! B. FreeType's static `Round_*` / `SetSuperRound` (ttinterp.c) have no symbol to call, so they are
//! reached the way a font reaches them: generated glyph programs executed by the linked FreeType
//! interpreter.  One glyph per round state `(state opcode, selector)`, one point per distance:
//!
//!   SVTCA[y]                        ; projection and freedom vector = y axis (y moves are allowed
//!                                   ;   in every hinting mode, also in v40 backward compatibility)
//!   [PUSHW sel] <state opcode>      ; RTG / RTHG / RTDG / RDTG / RUTG / ROFF / SROUND / S45ROUND
//!   for each point p:
//!     PUSHW p ; <push d> ; ROUND[00] ; SCFS[]     ; y(p) := Round(d)
//!
//! Every point starts at y = 0, so after hinting `outline.points[p].y` IS FreeType's rounded value
//! (an `FT_Pos`, 64 bit: nothing is truncated on the way out).  `<push d>` builds a 32-bit value from
//! 16-bit pushes: `(d >> 16) * 0x4000 / 64 * 0x4000 / 64 + (d & 0xFFFF)` with MUL/ADD (exact).
//!
//! Correspondence: FreeType's value vs `ft.ropsr op sel d` (Model/FtRound.lean).
//! Oracles: (1) the real skrifa handler (hook `round_ops`) returns the same value as the real FreeType
//! interpreter; (2) the synthetic font drawn by skrifa's real hinter in every hinting mode equals
//! FreeType's outline (run through the same whole-outline differential as the corpus).
use crate::fvlib::common::*;
use skrifa::outline::verif_hooks::hint_round_ops as hr;
use write_fonts::tables::glyf::{Bbox, Contour, GlyfLocaBuilder, Glyph, SimpleGlyph};
use write_fonts::tables::{head::Head, hhea::Hhea, hmtx::Hmtx, hmtx::LongMetric, maxp::Maxp};

const PUSHW1: u8 = 0xB8;
const ADD: u8 = 0x60;
const MUL: u8 = 0x63;
const ROUND: u8 = 0x68;
const SCFS: u8 = 0x48;
const SVTCA_Y: u8 = 0x00;

fn pushw(code: &mut Vec<u8>, v: i16) {
    code.push(PUSHW1);
    code.extend_from_slice(&v.to_be_bytes());
}

/// 0 ≤ x ≤ 65535
fn push_u16(code: &mut Vec<u8>, x: i32) {
    if x <= 32767 {
        pushw(code, x as i16);
    } else {
        pushw(code, 32767);
        pushw(code, (x - 32767).min(32767) as i16);
        code.push(ADD);
        if x == 65535 {
            pushw(code, 1);
            code.push(ADD);
        }
    }
}

fn push_i32(code: &mut Vec<u8>, v: i32) {
    if v >= -32768 && v <= 32767 {
        pushw(code, v as i16);
        return;
    }
    let hi = v >> 16; // floor, in i16
    let lo = v & 0xFFFF;
    pushw(code, hi as i16);
    pushw(code, 0x4000);
    code.push(MUL); // hi * 256
    pushw(code, 0x4000);
    code.push(MUL); // hi * 65536
    push_u16(code, lo);
    code.push(ADD);
}

pub struct StateGlyph {
    pub op: u8,
    pub sel: i32,
    pub dists: Vec<i32>,
}

fn program(g: &StateGlyph) -> Vec<u8> {
    let mut c = vec![SVTCA_Y];
    if g.op == 0x76 || g.op == 0x77 {
        push_i32(&mut c, g.sel);
    }
    c.push(g.op);
    for (p, &d) in g.dists.iter().enumerate() {
        pushw(&mut c, p as i16);
        push_i32(&mut c, d);
        c.push(ROUND);
        c.push(SCFS);
    }
    c
}

pub fn build_font(glyphs: &[StateGlyph]) -> Vec<u8> {
    let mut b = GlyfLocaBuilder::new();
    b.add_glyph(&Glyph::Empty).unwrap();
    let mut max_points = 0usize;
    let mut max_ins = 0usize;
    for g in glyphs {
        let pts: Vec<_> = (0..g.dists.len())
            .map(|i| read_fonts::tables::glyf::CurvePoint::on_curve(10 * i as i16, 0))
            .collect();
        let ins = program(g);
        max_points = max_points.max(pts.len());
        max_ins = max_ins.max(ins.len());
        let glyph = SimpleGlyph {
            bbox: Bbox { x_min: 0, y_min: 0, x_max: 10 * g.dists.len() as i16, y_max: 0 },
            contours: vec![Contour::from(pts)],
            instructions: ins,
        };
        b.add_glyph(&glyph).unwrap();
    }
    let (glyf, loca, fmt) = b.build();
    let n = glyphs.len() as u16 + 1;
    let head = Head { units_per_em: 1024, index_to_loc_format: fmt as i16, magic_number: 0x5F0F3CF5, ..Default::default() };
    let maxp = Maxp {
        num_glyphs: n,
        max_points: Some(max_points as u16),
        max_contours: Some(1),
        max_composite_points: Some(0),
        max_composite_contours: Some(0),
        max_zones: Some(2),
        max_twilight_points: Some(4),
        max_storage: Some(4),
        max_function_defs: Some(4),
        max_instruction_defs: Some(0),
        max_stack_elements: Some(64),
        max_size_of_instructions: Some(max_ins as u16),
        max_component_elements: Some(0),
        max_component_depth: Some(0),
    };
    let hhea = Hhea { number_of_h_metrics: n, ascender: 800.into(), descender: (-200).into(), ..Default::default() };
    let hmtx = Hmtx::new((0..n).map(|_| LongMetric::new(600, 0)).collect(), vec![]);
    let mut fb = write_fonts::FontBuilder::new();
    fb.add_table(&head).unwrap();
    fb.add_table(&maxp).unwrap();
    fb.add_table(&hhea).unwrap();
    fb.add_table(&hmtx).unwrap();
    fb.add_table(&glyf).unwrap();
    fb.add_table(&loca).unwrap();
    fb.build()
}

/// FreeType's y coordinates of every point of glyph `gid` after hinting with TARGET_MONO.
fn freetype_points(face: &mut freetype::Face<Vec<u8>>, gid: u32) -> Option<Vec<i64>> {
    use freetype::face::LoadFlag;
    face.load_glyph(gid, LoadFlag::NO_BITMAP | LoadFlag::NO_AUTOHINT | LoadFlag::TARGET_MONO).ok()?;
    let raw = face.glyph().raw();
    let o = &raw.outline;
    let n = o.n_points as usize;
    let pts = unsafe { std::slice::from_raw_parts(o.points, n) };
    Some(pts.iter().map(|p| p.y as i64).collect())
}

pub fn state_glyphs(cfg: &Config) -> Vec<StateGlyph> {
    let mut rng = Rng::new(cfg.seed ^ 0xB17E);
    let fixed: Vec<i32> = vec![
        -2147483647, -2147483584, -1073741824, -100000, -1000, -129, -97, -96, -65, -64, -63, -33, -32, -31, -23, -22, -12,
        -11, -1, 0, 1, 11, 12, 22, 23, 31, 32, 33, 45, 46, 63, 64, 65, 90, 96, 97, 129, 1000, 100000, 1073741824, 2147483000,
    ];
    let extra = if cfg.thorough() { 200 } else { 24 };
    let mut out = vec![];
    let mut add = |op: u8, sel: i32, rng: &mut Rng| {
        let mut dists = fixed.clone();
        for _ in 0..extra {
            dists.push(match rng.below(4) {
                0 => rng.range(-300, 300) as i32,
                1 => rng.range(-70000, 70000) as i32,
                2 => rng.range(-(1 << 30), 1 << 30) as i32,
                _ => rng.range(-2147483584, 2147483584) as i32,
            });
        }
        out.push(StateGlyph { op, sel, dists });
    };
    for op in [0x18u8, 0x19, 0x3D, 0x7D, 0x7C, 0x7A] {
        add(op, 0, &mut rng);
    }
    for op in [0x76u8, 0x77] {
        for sel in 0..256 {
            add(op, sel, &mut rng);
        }
        // selectors beyond one byte: only the low byte matters
        for sel in [256, 0x148, 0x7FFF, -1, -256, 65536 + 0x9D, i32::MAX, i32::MIN + 1] {
            add(op, sel, &mut rng);
        }
    }
    out
}

pub fn run(cfg: &Config, s: &mut Session) {
    let glyphs = state_glyphs(cfg);
    let data = build_font(&glyphs);
    // the font for the whole-outline differential keeps to distances within ±2^30 (beyond that
    // FreeType's 64-bit `long` and skrifa's i32 legitimately part ways; see Props/C03.lean)
    let in_range: Vec<StateGlyph> = glyphs
        .iter()
        .map(|g| StateGlyph { op: g.op, sel: g.sel, dists: g.dists.iter().copied().filter(|d| *d >= -(1 << 30) && *d <= (1 << 30)).collect() })
        .collect();
    let data_in_range = build_font(&in_range);
    // (2) whole-font differential needs a file (fauntlet::Font maps a path)
    let dir = std::path::PathBuf::from(format!("/tmp/c03-synth-{}-{}", cfg.seed, std::process::id()));
    let _ = std::fs::create_dir_all(&dir);
    let path = dir.join("c03_round_states.ttf");
    std::fs::write(&path, &data_in_range).unwrap();

    let lib = freetype::Library::init().unwrap();
    let face = lib.new_memory_face2(data.clone(), 0);
    let Ok(mut face) = face else {
        s.oracle("synthetic:freetype-opens-font", false, || "c03_round_states.ttf".into(), || "FT_New_Memory_Face failed".into());
        return;
    };
    face.set_pixel_sizes(16, 16).unwrap();
    for (i, g) in glyphs.iter().enumerate() {
        let gid = i as u32 + 1;
        let Some(ys) = freetype_points(&mut face, gid) else {
            s.oracle("synthetic:freetype-loads-glyph", false, || format!("op={:#x} sel={}", g.op, g.sel), || "FT_Load_Glyph failed".into());
            continue;
        };
        if ys.len() != g.dists.len() {
            s.oracle("synthetic:point-count", false, || format!("op={:#x} sel={}", g.op, g.sel), || format!("{} vs {}", ys.len(), g.dists.len()));
            continue;
        }
        for (&d, &y) in g.dists.iter().zip(ys.iter()) {
            s.count(&format!("ft.ropsr:{:#x}", g.op));
            s.case("ft.ropsr", format!("ft.ropsr {} {} {d}", g.op, g.sel), y.to_string());
            // real skrifa handler vs real FreeType interpreter
            let sk = catch(|| hr::round_ops(g.op, g.sel, d).map(|r| r.3));
            let in_theorem_range = d >= -(1 << 30) && d <= (1 << 30);
            if in_theorem_range {
                s.oracle("kernel:ROUND[]==FreeType-interpreter", sk == Ok(Some(y as i32)) && y == y as i32 as i64,
                    || format!("op={:#x} sel={} d={d}", g.op, g.sel), || format!("skrifa {sk:?} freetype {y}"));
            } else {
                s.count(if sk == Ok(Some(y as i32)) && y == y as i32 as i64 { "rops:out-of-range:equal" } else { "rops:out-of-range:differs" });
            }
        }
    }
    drop(face);
    // (2) same font, every hinting mode, through the corpus differential
    use fauntlet::{Hinting, HintingTarget::*};
    let modes = [
        None,
        Some(Hinting::Interpreter(Mono)),
        Some(Hinting::Interpreter(Normal)),
        Some(Hinting::Interpreter(Light)),
        Some(Hinting::Interpreter(Lcd)),
        Some(Hinting::Interpreter(VerticalLcd)),
    ];
    crate::differential(cfg, s, &path, &[0, 16], &modes);
    let _ = std::fs::remove_dir_all(&dir);
}
