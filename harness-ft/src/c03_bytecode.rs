//! B. generated glyph programs (filled in below)
use crate::fvlib::common::*;
pub fn run(_cfg: &Config, _s: &mut Session) {}
