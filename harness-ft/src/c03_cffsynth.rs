//! G. synthetic CFF / CFF2 fonts for the PostScript hinter (skrifa outline/cff/hint.rs, a port of
//! FreeType's psaux/pshints.c + psblues.c).
//!
//! The CFF fonts of font-test-data have few, well separated stems; the comparisons inside the hint map
//! (`insert`: overlap tests; `adjust`: "room to move up / down" against MIN_COUNTER = 0.5 px; blue zone
//! capture with fuzz, shift, overshoot suppression; ghost hints; hint masks) are only exercised by DENSE
//! stems at SMALL sizes.  The fonts here are hand-assembled (CFF header, INDEXes, Top/Private DICT,
//! Type 2 charstrings; the idea of harness/src/bin/c02/charstring.rs, code copied, no dependency) with
//!
//!   * stem ladders: k stems of width w separated by gaps g, (w, g) swept so that at the tested sizes
//!     (every ppem 4‥40) widths and gaps pass through 0.25 … 3 px, in particular through the hinter's
//!     0.5 px counter minimum; fractional (16.16) widths; crowded neighbours; stems in non-ascending and
//!     overlapping order; ghost hints (-20 / -21); a hint pair sharing an edge with its neighbour;
//!   * blue zones (BlueValues, OtherBlues, FamilyBlues, FamilyOtherBlues) with stems whose edges sit at
//!     zone edge - fuzz - 1, - fuzz, inside, + fuzz, + fuzz + 1; overshoot at blue shift - 1, shift, shift + 1;
//!     BlueScale small / default / large (overshoot suppression switches at scale < BlueScale), BlueFuzz 0/1/3;
//!   * LanguageGroup 1 (em-box hints, with and without qualifying BlueValues), ForceBold, StdHW/StdVW,
//!     StemSnapH/StemSnapV;
//!   * hintmask / cntrmask: masks switching between conflicting stem subsets in mid-glyph, a mask before
//!     the first moveto, vstems interleaved (they take mask bits), stems declared in a subroutine;
//!   * the same glyph sets as CFF2.
//!
//! Every y of the outline is chosen relative to the stems (edges, edge +-3, middle, between stems, outside),
//! so every segment of the hint map's piecewise-linear transform carries a point.
use crate::fvlib::common::*;
use write_fonts::tables::{head::Head, hhea::Hhea, hmtx::Hmtx, hmtx::LongMetric, maxp::Maxp};

// ------------------------------------------------------------------------------------------------
// encoders
// ------------------------------------------------------------------------------------------------

/// DICT operand: 5-byte integer (fixed size so that offsets can be laid out in one pass)
fn dict_int(out: &mut Vec<u8>, v: i32) {
    out.push(29);
    out.extend_from_slice(&v.to_be_bytes());
}

/// DICT real operand from a decimal string
fn dict_real(out: &mut Vec<u8>, s: &str) {
    out.push(30);
    let mut nib: Vec<u8> = vec![];
    let b = s.as_bytes();
    let mut i = 0;
    while i < b.len() {
        match b[i] {
            b'0'..=b'9' => nib.push(b[i] - b'0'),
            b'.' => nib.push(0xA),
            b'-' => nib.push(0xE),
            b'E' | b'e' => {
                if i + 1 < b.len() && b[i + 1] == b'-' {
                    nib.push(0xC);
                    i += 1;
                } else {
                    nib.push(0xB);
                }
            }
            _ => {}
        }
        i += 1;
    }
    nib.push(0xF);
    if nib.len() % 2 == 1 {
        nib.push(0xF);
    }
    for c in nib.chunks(2) {
        out.push((c[0] << 4) | c[1]);
    }
}

/// a number that may be fractional (value in 1/65536)
#[derive(Clone, Copy, Debug, PartialEq)]
pub struct Num(pub i32);
impl Num {
    pub fn i(v: i32) -> Num {
        Num(v << 16)
    }
}

fn dict_num(out: &mut Vec<u8>, v: Num) {
    if v.0 & 0xFFFF == 0 {
        dict_int(out, v.0 >> 16);
    } else {
        // exact decimal expansion of k/65536 needs up to 16 digits; blues with .5/.25 are enough
        let neg = v.0 < 0;
        let a = (v.0 as i64).abs();
        let int = a >> 16;
        let frac = ((a & 0xFFFF) * 10000) >> 16;
        dict_real(out, &format!("{}{}.{:04}", if neg { "-" } else { "" }, int, frac));
    }
}

/// Type 2 charstring number
fn cs_num(out: &mut Vec<u8>, v: Num) {
    if v.0 & 0xFFFF != 0 {
        out.push(255);
        out.extend_from_slice(&v.0.to_be_bytes());
        return;
    }
    let n = v.0 >> 16;
    match n {
        -107..=107 => out.push((n + 139) as u8),
        108..=1131 => {
            let m = n - 108;
            out.push((m >> 8) as u8 + 247);
            out.push((m & 255) as u8);
        }
        -1131..=-108 => {
            let m = -n - 108;
            out.push((m >> 8) as u8 + 251);
            out.push((m & 255) as u8);
        }
        _ => {
            out.push(28);
            out.extend_from_slice(&(n as i16).to_be_bytes());
        }
    }
}

pub fn index_bytes(cff2: bool, items: &[Vec<u8>]) -> Vec<u8> {
    let mut out: Vec<u8> = vec![];
    if cff2 {
        out.extend_from_slice(&(items.len() as u32).to_be_bytes());
    } else {
        out.extend_from_slice(&(items.len() as u16).to_be_bytes());
    }
    if items.is_empty() {
        return out;
    }
    out.push(4);
    let mut off: u32 = 1;
    out.extend_from_slice(&off.to_be_bytes());
    for it in items {
        off += it.len() as u32;
        out.extend_from_slice(&off.to_be_bytes());
    }
    for it in items {
        out.extend_from_slice(it);
    }
    out
}

// ------------------------------------------------------------------------------------------------
// font description
// ------------------------------------------------------------------------------------------------

#[derive(Clone, Default)]
pub struct Private {
    pub name: String,
    pub blues: Vec<Num>,
    pub other_blues: Vec<Num>,
    pub family_blues: Vec<Num>,
    pub family_other_blues: Vec<Num>,
    pub blue_scale: Option<&'static str>,
    pub blue_shift: Option<i32>,
    pub blue_fuzz: Option<i32>,
    pub std_hw: Option<i32>,
    pub std_vw: Option<i32>,
    pub stem_snap_h: Vec<i32>,
    pub stem_snap_v: Vec<i32>,
    pub force_bold: bool,
    pub language_group: Option<i32>,
}

fn delta_array(out: &mut Vec<u8>, vals: &[Num], op: &[u8]) {
    if vals.is_empty() {
        return;
    }
    let mut prev = 0i32;
    for v in vals {
        dict_num(out, Num(v.0.wrapping_sub(prev)));
        prev = v.0;
    }
    out.extend_from_slice(op);
}

fn private_dict(p: &Private, cff2: bool, subrs_after: bool) -> Vec<u8> {
    let mut d = vec![];
    delta_array(&mut d, &p.blues, &[6]);
    delta_array(&mut d, &p.other_blues, &[7]);
    delta_array(&mut d, &p.family_blues, &[8]);
    delta_array(&mut d, &p.family_other_blues, &[9]);
    if let Some(s) = p.blue_scale {
        dict_real(&mut d, s);
        d.extend_from_slice(&[12, 9]);
    }
    if let Some(v) = p.blue_shift {
        dict_int(&mut d, v);
        d.extend_from_slice(&[12, 10]);
    }
    if let Some(v) = p.blue_fuzz {
        dict_int(&mut d, v);
        d.extend_from_slice(&[12, 11]);
    }
    if let Some(v) = p.std_hw {
        dict_int(&mut d, v);
        d.push(10);
    }
    if let Some(v) = p.std_vw {
        dict_int(&mut d, v);
        d.push(11);
    }
    let nums = |v: &[i32]| -> Vec<Num> { v.iter().map(|x| Num::i(*x)).collect() };
    delta_array(&mut d, &nums(&p.stem_snap_h), &[12, 12]);
    delta_array(&mut d, &nums(&p.stem_snap_v), &[12, 13]);
    if p.force_bold && !cff2 {
        dict_int(&mut d, 1);
        d.extend_from_slice(&[12, 14]);
    }
    if let Some(v) = p.language_group {
        dict_int(&mut d, v);
        d.extend_from_slice(&[12, 17]);
    }
    if subrs_after {
        // Subrs offset, relative to the Private DICT start: directly after it
        let here = d.len() + 6;
        dict_int(&mut d, here as i32);
        d.push(19);
    }
    d
}

/// A glyph: horizontal / vertical stems in declaration order (bottom, width), mask segments and the outline.
#[derive(Clone, Default, Debug)]
pub struct CGlyph {
    pub label: String,
    pub hstems: Vec<(Num, Num)>,
    pub vstems: Vec<(Num, Num)>,
    /// contours; before contour i the optional mask `masks[i]` (bit per stem: hstems then vstems) is set
    pub contours: Vec<Vec<(Num, Num)>>,
    pub masks: Vec<Option<Vec<bool>>>,
    /// a cntrmask directly after the stem declarations
    pub cntr: Option<Vec<bool>>,
    /// declare the stems inside local subroutine 0 of the glyph's own (index = glyph number)
    pub stems_in_subr: bool,
    /// one contour segment as curves instead of lines
    pub curves: bool,
}

fn mask_bytes(bits: &[bool], n: usize) -> Vec<u8> {
    let mut v = vec![0u8; n.div_ceil(8)];
    for (i, b) in bits.iter().enumerate().take(n) {
        if *b {
            v[i >> 3] |= 0x80 >> (i & 7);
        }
    }
    v
}

fn stem_ops(stems: &[(Num, Num)]) -> Vec<u8> {
    let mut out = vec![];
    let mut prev = 0i32;
    for (pos, w) in stems {
        cs_num(&mut out, Num(pos.0.wrapping_sub(prev)));
        cs_num(&mut out, *w);
        prev = pos.0.wrapping_add(w.0);
    }
    out
}

/// (charstring, optional subroutine body)
fn charstring(g: &CGlyph, cff2: bool, subr_index: usize) -> (Vec<u8>, Option<Vec<u8>>) {
    let mut cs = vec![];
    let mut subr = None;
    let uses_masks = g.cntr.is_some() || g.masks.iter().any(|m| m.is_some());
    let n = g.hstems.len() + g.vstems.len();
    // the stack holds at most 48 operands (CFF) / 513 (CFF2): declare in chunks of 20 stems
    let mut decl = vec![];
    {
        let mut emit = |stems: &[(Num, Num)], op: u8, decl: &mut Vec<u8>| {
            let mut prev = 0i32;
            for chunk in stems.chunks(20) {
                // re-base the first delta of a follow-up chunk on the running position
                let mut first = true;
                for (pos, w) in chunk {
                    let _ = first;
                    cs_num(decl, Num(pos.0.wrapping_sub(prev)));
                    cs_num(decl, *w);
                    prev = pos.0.wrapping_add(w.0);
                    first = false;
                }
                decl.push(op);
            }
        };
        if !g.hstems.is_empty() {
            emit(&g.hstems, if uses_masks { 18 } else { 1 }, &mut decl);
        }
        if !g.vstems.is_empty() {
            emit(&g.vstems, if uses_masks { 23 } else { 3 }, &mut decl);
        }
    }
    let _ = stem_ops;
    if g.stems_in_subr {
        let mut body = decl.clone();
        if !cff2 {
            body.push(11); // return
        }
        subr = Some(body);
        // bias 107 for fewer than 1240 subrs
        cs_num(&mut cs, Num::i(subr_index as i32 - 107));
        cs.push(10); // callsubr
    } else {
        cs.extend_from_slice(&decl);
    }
    if let Some(c) = &g.cntr {
        cs.push(20);
        cs.extend_from_slice(&mask_bytes(c, n));
    }
    let (mut cx, mut cy) = (0i32, 0i32);
    for (ci, contour) in g.contours.iter().enumerate() {
        if let Some(Some(m)) = g.masks.get(ci) {
            cs.push(19);
            cs.extend_from_slice(&mask_bytes(m, n));
        }
        let (x0, y0) = contour[0];
        cs_num(&mut cs, Num(x0.0.wrapping_sub(cx)));
        cs_num(&mut cs, Num(y0.0.wrapping_sub(cy)));
        cs.push(21); // rmoveto
        cx = x0.0;
        cy = y0.0;
        let pts = &contour[1..];
        let mut i = 0;
        while i < pts.len() {
            if g.curves && i + 3 <= pts.len() && (i / 3) % 2 == 1 {
                for (x, y) in &pts[i..i + 3] {
                    cs_num(&mut cs, Num(x.0.wrapping_sub(cx)));
                    cs_num(&mut cs, Num(y.0.wrapping_sub(cy)));
                    cx = x.0;
                    cy = y.0;
                }
                cs.push(8); // rrcurveto
                i += 3;
            } else {
                let (x, y) = pts[i];
                cs_num(&mut cs, Num(x.0.wrapping_sub(cx)));
                cs_num(&mut cs, Num(y.0.wrapping_sub(cy)));
                cs.push(5); // rlineto
                cx = x.0;
                cy = y.0;
                i += 1;
            }
        }
    }
    if !cff2 {
        cs.push(14); // endchar
    }
    (cs, subr)
}

pub struct CFont {
    pub name: String,
    /// head.unitsPerEm (1000, or 1024: power-of-two sizes then have exact scales, device coordinates fall
    /// exactly on pixel and half-pixel boundaries, the `fract == 0` cases of the hint map)
    pub upem: u16,
    pub cff2: bool,
    pub private: Private,
    pub glyphs: Vec<CGlyph>,
}

fn cff1_table(f: &CFont) -> Vec<u8> {
    let mut charstrings: Vec<Vec<u8>> = vec![vec![14]];
    let mut subrs: Vec<Vec<u8>> = vec![];
    for g in &f.glyphs {
        let (cs, sub) = charstring(g, false, subrs.len());
        if let Some(s) = sub {
            subrs.push(s);
        }
        charstrings.push(cs);
    }
    let mut t: Vec<u8> = vec![1, 0, 4, 4];
    t.extend_from_slice(&index_bytes(false, &[b"C03Synth".to_vec()]));
    let top_len = 5 + 1 + 5 + 5 + 1;
    let top_index_len = 2 + 1 + 4 * 2 + top_len;
    let strings = index_bytes(false, &[]);
    let gsubrs = index_bytes(false, &[]);
    let cs_index = index_bytes(false, &charstrings);
    let cs_off = t.len() + top_index_len + strings.len() + gsubrs.len();
    let priv_off = cs_off + cs_index.len();
    let private = private_dict(&f.private, false, !subrs.is_empty());
    let mut top: Vec<u8> = vec![];
    dict_int(&mut top, cs_off as i32);
    top.push(17);
    dict_int(&mut top, private.len() as i32);
    dict_int(&mut top, priv_off as i32);
    top.push(18);
    assert_eq!(top.len(), top_len);
    let ti = index_bytes(false, &[top]);
    assert_eq!(ti.len(), top_index_len);
    t.extend_from_slice(&ti);
    t.extend_from_slice(&strings);
    t.extend_from_slice(&gsubrs);
    t.extend_from_slice(&cs_index);
    t.extend_from_slice(&private);
    if !subrs.is_empty() {
        t.extend_from_slice(&index_bytes(false, &subrs));
    }
    t
}

fn cff2_table(f: &CFont) -> Vec<u8> {
    let mut charstrings: Vec<Vec<u8>> = vec![vec![]];
    let mut subrs: Vec<Vec<u8>> = vec![];
    for g in &f.glyphs {
        let (cs, sub) = charstring(g, true, subrs.len());
        if let Some(s) = sub {
            subrs.push(s);
        }
        charstrings.push(cs);
    }
    let top_len = 6 + 7;
    let mut t: Vec<u8> = vec![2, 0, 5];
    t.extend_from_slice(&(top_len as u16).to_be_bytes());
    let gsubrs = index_bytes(true, &[]);
    let cs_index = index_bytes(true, &charstrings);
    let cs_off = 5 + top_len + gsubrs.len();
    let fd_off = cs_off + cs_index.len();
    let font_dict_len = 5 + 5 + 1;
    let fd_index_len = 4 + 1 + 4 * 2 + font_dict_len;
    let priv_off = fd_off + fd_index_len;
    let private = private_dict(&f.private, true, !subrs.is_empty());
    let mut top: Vec<u8> = vec![];
    dict_int(&mut top, cs_off as i32);
    top.push(17);
    dict_int(&mut top, fd_off as i32);
    top.extend_from_slice(&[12, 36]);
    assert_eq!(top.len(), top_len);
    t.extend_from_slice(&top);
    t.extend_from_slice(&gsubrs);
    t.extend_from_slice(&cs_index);
    let mut font_dict: Vec<u8> = vec![];
    dict_int(&mut font_dict, private.len() as i32);
    dict_int(&mut font_dict, priv_off as i32);
    font_dict.push(18);
    assert_eq!(font_dict.len(), font_dict_len);
    let fdi = index_bytes(true, &[font_dict]);
    assert_eq!(fdi.len(), fd_index_len);
    t.extend_from_slice(&fdi);
    t.extend_from_slice(&private);
    if !subrs.is_empty() {
        t.extend_from_slice(&index_bytes(true, &subrs));
    }
    t
}

pub fn build_font(f: &CFont) -> Vec<u8> {
    let n = f.glyphs.len() as u16 + 1;
    let head = Head { units_per_em: f.upem, magic_number: 0x5F0F3CF5, y_min: -300, y_max: 1000, x_max: 1000, ..Default::default() };
    let maxp = Maxp { num_glyphs: n, ..Default::default() };
    let hhea = Hhea { number_of_h_metrics: n, ascender: 800.into(), descender: (-200).into(), ..Default::default() };
    let hmtx = Hmtx::new((0..n).map(|i| LongMetric::new(500 + (i % 11) * 7, 0)).collect(), vec![]);
    let mut fb = write_fonts::FontBuilder::new();
    fb.add_table(&head).unwrap();
    fb.add_table(&maxp).unwrap();
    fb.add_table(&hhea).unwrap();
    fb.add_table(&hmtx).unwrap();
    if f.cff2 {
        fb.add_raw(read_fonts::types::Tag::new(b"CFF2"), cff2_table(f));
    } else {
        fb.add_raw(read_fonts::types::Tag::new(b"CFF "), cff1_table(f));
    }
    let mut data = fb.build();
    // FontBuilder always writes the TrueType sfnt version; FreeType's cff driver wants 'OTTO'
    data[..4].copy_from_slice(b"OTTO");
    data
}

// ------------------------------------------------------------------------------------------------
// glyph generators
// ------------------------------------------------------------------------------------------------

/// outline whose y values probe every segment of the hint map built from `stems`
fn probe_contours(stems: &[(Num, Num)], curves: bool) -> Vec<Vec<(Num, Num)>> {
    let mut ys: Vec<i32> = vec![];
    for (pos, w) in stems {
        let (a, b) = (pos.0, pos.0.wrapping_add(w.0));
        for e in [a, b] {
            ys.push(e);
            ys.push(e - (3 << 16));
            ys.push(e + (3 << 16));
        }
        ys.push(a / 2 + b / 2);
    }
    ys.push(0);
    let lo = ys.iter().copied().min().unwrap_or(0);
    let hi = ys.iter().copied().max().unwrap_or(0);
    ys.push(lo - (40 << 16));
    ys.push(hi + (40 << 16));
    ys.sort();
    ys.dedup();
    // up the left side (zig-zag in x), down the right side
    let mut c: Vec<(Num, Num)> = vec![];
    for (i, y) in ys.iter().enumerate() {
        c.push((Num::i(100 + 20 * (i as i32 % 3)), Num(*y)));
    }
    for (i, y) in ys.iter().rev().enumerate() {
        if i % 2 == 0 {
            c.push((Num::i(400 - 15 * (i as i32 % 4)), Num(*y + 0x8000)));
        }
    }
    let _ = curves;
    vec![c]
}

fn ladder(label: String, y0: Num, ws: &[Num], gaps: &[Num]) -> CGlyph {
    let mut stems = vec![];
    let mut y = y0.0;
    for (i, w) in ws.iter().enumerate() {
        stems.push((Num(y), *w));
        y = y.wrapping_add(w.0).wrapping_add(gaps[i % gaps.len()].0);
    }
    let contours = probe_contours(&stems, false);
    CGlyph { label, hstems: stems, contours, masks: vec![None], ..Default::default() }
}

fn fx(v: f64) -> Num {
    Num((v * 65536.0).round() as i32)
}

/// systematic stem ladders + random dense stems
pub fn ladder_glyphs(rng: &mut Rng, n_random: usize) -> Vec<CGlyph> {
    let mut out = vec![];
    // (a) uniform ladders: width w, gap g
    for &w in &[20.0, 33.0, 50.0, 62.5, 80.0, 100.0, 125.0, 150.0, 200.0] {
        for &g in &[10.0, 25.0, 40.0, 50.0, 62.5, 83.0, 100.0, 130.0, 200.0] {
            for y0 in [0.0, -120.0, 7.0] {
                if (w + g) as i32 % 3 != (y0 as i32 + 120) % 3 && y0 != 0.0 {
                    continue;
                }
                let k = ((700.0 / (w + g)) as usize).clamp(2, 8);
                out.push(ladder(format!("ladder w={w} g={g} y0={y0} k={k}"), fx(y0), &vec![fx(w); k], &[fx(g)]));
            }
        }
    }
    // (b) mixed: wide and thin stems alternating, a crowded neighbour above / below an isolated pair
    for &(w1, w2, g1, g2) in &[(100.0, 20.0, 30.0, 200.0), (60.0, 60.0, 20.0, 45.0), (40.0, 90.0, 55.0, 35.0), (25.0, 25.0, 25.0, 25.0), (70.0, 70.0, 0.0, 70.0), (90.0, 30.0, 1.0, 2.0)] {
        for y0 in [0.0, 13.0, -200.0] {
            out.push(ladder(format!("mixed w=({w1},{w2}) g=({g1},{g2}) y0={y0}"), fx(y0), &[fx(w1), fx(w2), fx(w1), fx(w2), fx(w1)], &[fx(g1), fx(g2)]));
        }
    }
    // (c) ghost hints and pairs sharing edges / overlapping / out of order
    let ghost_sets: Vec<(&str, Vec<(f64, f64)>)> = vec![
        ("ghost bottom+top", vec![(21.0, -21.0), (700.0, -20.0)]),
        ("ghost around a pair", vec![(21.0, -21.0), (300.0, 60.0), (720.0, -20.0)]),
        ("ghost top close above a pair", vec![(100.0, 50.0), (190.0, -20.0)]),
        ("ghost bottom close below a pair", vec![(121.0, -21.0), (130.0, 50.0)]),
        ("ghost top inside a pair", vec![(100.0, 100.0), (170.0, -20.0)]),
        ("two ghosts same edge", vec![(300.0, -20.0), (320.0, -20.0), (321.0, -21.0)]),
        ("shared edge", vec![(100.0, 50.0), (150.0, 50.0), (200.0, 50.0)]),
        ("overlap", vec![(100.0, 80.0), (150.0, 80.0), (400.0, 30.0), (390.0, 60.0)]),
        ("descending order", vec![(500.0, 40.0), (300.0, 40.0), (100.0, 40.0)]),
        ("inverted pair", vec![(200.0, -50.0), (400.0, -35.0)]),
        ("zero width", vec![(200.0, 0.0), (400.0, 50.0)]),
        ("one unit", vec![(200.0, 1.0), (202.0, 1.0), (204.0, 1.0), (206.0, 1.0)]),
        ("tiny fractions", vec![(200.25, 49.5), (300.75, 50.125), (401.0, 49.875)]),
        ("below baseline only", vec![(-250.0, 40.0), (-180.0, 40.0), (-100.0, 30.0)]),
        ("above zero only", vec![(300.0, 40.0), (380.0, 40.0)]),
    ];
    for (name, set) in &ghost_sets {
        let stems: Vec<(Num, Num)> = set.iter().map(|(p, w)| (fx(*p), fx(*w))).collect();
        let contours = probe_contours(&stems, false);
        out.push(CGlyph { label: format!("special {name}"), hstems: stems.clone(), contours: contours.clone(), masks: vec![None], ..Default::default() });
        out.push(CGlyph { label: format!("special {name} curves+subr"), hstems: stems, contours, masks: vec![None], curves: true, stems_in_subr: true, ..Default::default() });
    }
    // (d) random dense stems
    let wpal = [20.0, 21.0, 30.0, 40.0, 50.0, 55.5, 60.0, 66.0, 80.0, 100.0, 120.0, 150.0, -20.0, -21.0];
    let gpal = [0.0, 5.0, 10.0, 20.0, 30.0, 40.0, 50.0, 60.0, 80.0, 100.0, 150.0, 300.0, -30.0];
    for r in 0..n_random {
        let k = 2 + rng.below(8) as usize;
        let mut y = rng.range(-250, 200) as f64;
        let mut stems = vec![];
        for _ in 0..k {
            let w = *rng.pick(&wpal) + if rng.chance(1, 4) { rng.below(4) as f64 * 0.25 } else { 0.0 };
            let pos = if w < 0.0 { y - w } else { y };
            stems.push((fx(pos), fx(w)));
            y = pos + w + *rng.pick(&gpal);
        }
        let contours = probe_contours(&stems, false);
        out.push(CGlyph { label: format!("random #{r} {:?}", stems.iter().map(|(p, w)| (p.0 as f64 / 65536.0, w.0 as f64 / 65536.0)).collect::<Vec<_>>()), hstems: stems, contours, masks: vec![None], curves: rng.chance(1, 3), stems_in_subr: rng.chance(1, 5), ..Default::default() });
    }
    out
}

/// stems placed against blue zone edges; `zones` = (bottom, top) pairs as in BlueValues / OtherBlues
pub fn blue_glyphs(zones: &[(i32, i32, bool)], fuzz: i32, shift: i32) -> Vec<CGlyph> {
    let mut out = vec![];
    for &(zb, zt, is_bottom_zone) in zones {
        // candidate edge positions: around both zone edges with fuzz, and overshoot around the blue shift
        let mut cand = vec![];
        for e in [zb, zt] {
            for d in [-fuzz - 2, -fuzz - 1, -fuzz, -1, 0, 1, fuzz, fuzz + 1, fuzz + 2] {
                cand.push(e + d);
            }
        }
        let flat = if is_bottom_zone { zt } else { zb };
        for d in [shift - 1, shift, shift + 1] {
            cand.push(if is_bottom_zone { flat - d } else { flat + d });
        }
        cand.push((zb + zt) / 2);
        cand.sort();
        cand.dedup();
        for &c in &cand {
            for &w in &[60, 20, 150] {
                // the captured edge: bottom edge of a stem for a bottom zone, top edge for a top zone
                let (pos, width) = if is_bottom_zone { (c, w) } else { (c - w, w) };
                let mut stems = vec![(Num::i(pos), Num::i(width))];
                // a second, unlocked stem close by (so `adjust` works next to a locked edge)
                let (p2, w2) = if is_bottom_zone { (pos + width + 45, 50) } else { (pos - 45 - 50, 50) };
                stems.push((Num::i(p2), Num::i(w2)));
                let contours = probe_contours(&stems, false);
                out.push(CGlyph { label: format!("blue zone=({zb},{zt}) bottom={} edge={c} w={w}", is_bottom_zone as u8), hstems: stems, contours, masks: vec![None], ..Default::default() });
            }
            // ghost hint on the edge
            let stems = if is_bottom_zone { vec![(Num::i(c + 21), Num::i(-21))] } else { vec![(Num::i(c), Num::i(-20))] };
            let contours = probe_contours(&stems, false);
            out.push(CGlyph { label: format!("blue ghost zone=({zb},{zt}) bottom={} edge={c}", is_bottom_zone as u8), hstems: stems, contours, masks: vec![None], ..Default::default() });
        }
    }
    out
}

/// hintmask / cntrmask switching
pub fn mask_glyphs(rng: &mut Rng, n_random: usize) -> Vec<CGlyph> {
    let mut out = vec![];
    let mk = |label: String, hs: Vec<(f64, f64)>, vs: Vec<(f64, f64)>, masks: Vec<Option<Vec<bool>>>, cntr: Option<Vec<bool>>, in_subr: bool| -> CGlyph {
        let hstems: Vec<(Num, Num)> = hs.iter().map(|(p, w)| (fx(*p), fx(*w))).collect();
        let vstems: Vec<(Num, Num)> = vs.iter().map(|(p, w)| (fx(*p), fx(*w))).collect();
        let base = probe_contours(&hstems, false).remove(0);
        let contours: Vec<Vec<(Num, Num)>> = (0..masks.len())
            .map(|i| base.iter().map(|(x, y)| (Num(x.0 + ((i as i32 * 330) << 16)), *y)).collect())
            .collect();
        CGlyph { label, hstems, vstems, contours, masks, cntr, stems_in_subr: in_subr, curves: false }
    };
    // conflicting stems: A = {0,2,4} B = {1,3,5}, overlapping pairs
    let hs = vec![(0.0, 60.0), (30.0, 60.0), (200.0, 50.0), (225.0, 50.0), (500.0, 40.0), (480.0, 40.0)];
    let vs = vec![(100.0, 40.0), (300.0, 40.0)];
    let a = vec![true, false, true, false, true, false, true, true];
    let b = vec![false, true, false, true, false, true, true, false];
    let all = vec![true; 8];
    let none = vec![false; 8];
    out.push(mk("mask A then B".into(), hs.clone(), vs.clone(), vec![Some(a.clone()), Some(b.clone())], None, false));
    out.push(mk("mask B then A then all".into(), hs.clone(), vs.clone(), vec![Some(b.clone()), Some(a.clone()), Some(all.clone())], None, false));
    out.push(mk("mask none then A".into(), hs.clone(), vs.clone(), vec![Some(none.clone()), Some(a.clone())], None, false));
    out.push(mk("mask only on second contour".into(), hs.clone(), vs.clone(), vec![None, Some(b.clone())], None, false));
    out.push(mk("cntrmask A, hintmask B, A".into(), hs.clone(), vs.clone(), vec![Some(b.clone()), Some(a.clone())], Some(a.clone()), false));
    out.push(mk("cntrmask all".into(), hs.clone(), vs.clone(), vec![Some(a.clone()), Some(b.clone())], Some(all.clone()), true));
    out.push(mk("same mask twice".into(), hs.clone(), vs.clone(), vec![Some(a.clone()), Some(a.clone()), Some(b.clone())], None, true));
    // no vstems, 9+ stems (two mask bytes)
    let hs9: Vec<(f64, f64)> = (0..10).map(|i| (-100.0 + 85.0 * i as f64, if i % 2 == 0 { 40.0 } else { 60.0 })).collect();
    let m1: Vec<bool> = (0..10).map(|i| i % 2 == 0).collect();
    let m2: Vec<bool> = (0..10).map(|i| i % 3 != 0).collect();
    out.push(mk("ten stems two bytes".into(), hs9.clone(), vec![], vec![Some(m1.clone()), Some(m2.clone()), Some(m1.clone())], None, false));
    out.push(mk("ten stems cntr".into(), hs9, vec![], vec![Some(m2), Some(m1.clone())], Some(m1), false));
    for r in 0..n_random {
        let k = 3 + rng.below(8) as usize;
        let mut y = rng.range(-200, 100) as f64;
        let mut hs = vec![];
        for _ in 0..k {
            let w = *rng.pick(&[20.0, 40.0, 50.0, 60.0, 80.0, 120.0]);
            hs.push((y, w));
            y += *rng.pick(&[-40.0, -10.0, 10.0, 30.0, 50.0, 70.0, 120.0]) + if rng.chance(1, 2) { w } else { 0.0 };
        }
        let nv = rng.below(3) as usize;
        let vs: Vec<(f64, f64)> = (0..nv).map(|i| (100.0 + 150.0 * i as f64, 40.0)).collect();
        let n = k + nv;
        let nm = 1 + rng.below(3) as usize;
        let masks: Vec<Option<Vec<bool>>> = (0..nm).map(|_| if rng.chance(1, 6) { None } else { Some((0..n).map(|_| rng.chance(1, 2)).collect()) }).collect();
        let cntr = if rng.chance(1, 3) { Some((0..n).map(|_| rng.chance(1, 2)).collect()) } else { None };
        out.push(mk(format!("random mask #{r} hs={hs:?} masks={}", masks.len()), hs, vs, masks, cntr, rng.chance(1, 4)));
    }
    out
}

fn nums(v: &[i32]) -> Vec<Num> {
    v.iter().map(|x| Num::i(*x)).collect()
}

pub fn privates() -> Vec<Private> {
    let std_blues = nums(&[-15, 0, 500, 515, 700, 712]);
    let std_other = nums(&[-250, -240]);
    vec![
        Private { name: "plain".into(), ..Default::default() },
        Private { name: "blues".into(), blues: std_blues.clone(), other_blues: std_other.clone(), ..Default::default() },
        Private { name: "blues-fuzz0-shift0".into(), blues: std_blues.clone(), other_blues: std_other.clone(), blue_fuzz: Some(0), blue_shift: Some(0), ..Default::default() },
        Private { name: "blues-fuzz3-shift1-scale.0625".into(), blues: std_blues.clone(), other_blues: std_other.clone(), blue_fuzz: Some(3), blue_shift: Some(1), blue_scale: Some("0.0625"), ..Default::default() },
        Private { name: "blues-scale.02".into(), blues: std_blues.clone(), other_blues: std_other.clone(), blue_scale: Some("0.02"), blue_shift: Some(12), ..Default::default() },
        Private { name: "blues-scale.5-clamped".into(), blues: nums(&[-20, 0, 480, 520, 690, 700]), other_blues: nums(&[-260, -230]), blue_scale: Some("0.5"), ..Default::default() },
        Private { name: "family".into(), blues: std_blues.clone(), other_blues: std_other.clone(), family_blues: nums(&[-15, 3, 505, 520, 690, 705]), family_other_blues: nums(&[-255, -236]), ..Default::default() },
        Private { name: "fractional-blues".into(), blues: vec![fx(-15.5), fx(0.5), fx(499.5), fx(515.25), fx(700.0), fx(712.75)], other_blues: vec![fx(-250.5), fx(-239.5)], ..Default::default() },
        Private { name: "lang1-noblues".into(), language_group: Some(1), ..Default::default() },
        Private { name: "lang1-icf-blues".into(), language_group: Some(1), blues: nums(&[-130, -121, 881, 890]), ..Default::default() },
        Private { name: "lang1-other-blues".into(), language_group: Some(1), blues: nums(&[-120, -110, 870, 880]), ..Default::default() },
        Private { name: "lang1-boundary-blues".into(), language_group: Some(1), blues: nums(&[-130, -120, 880, 890]), ..Default::default() },
        // each conjunct of the em-box test (b0 < -120, t0 < -120, b1 > 880, t1 > 880) alone at its boundary
        Private { name: "lang1-icf-c1".into(), language_group: Some(1), blues: nums(&[-120, -125, 881, 890]), ..Default::default() },
        Private { name: "lang1-icf-c2".into(), language_group: Some(1), blues: nums(&[-130, -120, 881, 890]), ..Default::default() },
        Private { name: "lang1-icf-c3".into(), language_group: Some(1), blues: nums(&[-130, -121, 880, 890]), ..Default::default() },
        Private { name: "lang1-icf-c4".into(), language_group: Some(1), blues: nums(&[-130, -121, 881, 880]), ..Default::default() },
        Private { name: "forcebold-std-snap".into(), blues: std_blues.clone(), force_bold: true, std_hw: Some(60), std_vw: Some(80), stem_snap_h: vec![50, 60, 80], stem_snap_v: vec![40, 80], ..Default::default() },
        Private { name: "seven-blues".into(), blues: nums(&[-15, 0, 100, 110, 200, 210, 300, 310, 400, 410, 500, 510, 600, 610]), other_blues: nums(&[-300, -290, -250, -240, -200, -190, -150, -140, -100, -90]), ..Default::default() },
        Private { name: "negative-height-zone".into(), blues: nums(&[0, -15, 515, 500]), ..Default::default() },
    ]
}

fn zones_of(p: &Private) -> Vec<(i32, i32, bool)> {
    let mut z = vec![];
    for (i, c) in p.blues.chunks(2).enumerate() {
        if c.len() == 2 {
            z.push((c[0].0 >> 16, c[1].0 >> 16, i == 0));
        }
    }
    for c in p.other_blues.chunks(2) {
        if c.len() == 2 {
            z.push((c[0].0 >> 16, c[1].0 >> 16, true));
        }
    }
    z.truncate(4);
    z
}

pub fn fonts(cfg: &Config) -> Vec<CFont> {
    let mut rng = Rng::new(cfg.seed ^ 0xCFF5);
    let thorough = cfg.thorough();
    let mut out = vec![];
    for (pi, p) in privates().into_iter().enumerate() {
        let mut glyphs = vec![];
        // the ladders in every configuration would be too many for the quick tier: full set for the two
        // main configurations, a random third elsewhere
        let lad = ladder_glyphs(&mut rng, if thorough { 120 } else { 30 });
        if pi < 2 || thorough {
            glyphs.extend(lad);
        } else {
            glyphs.extend(lad.into_iter().filter(|_| rng.chance(1, 4)));
        }
        let fuzz = p.blue_fuzz.unwrap_or(1);
        let shift = p.blue_shift.unwrap_or(7);
        glyphs.extend(blue_glyphs(&zones_of(&p), fuzz, shift));
        if p.language_group == Some(1) {
            // em box edges
            glyphs.extend(blue_glyphs(&[(-120, -120, true), (880, 880, false)], 1, 7));
        }
        glyphs.extend(mask_glyphs(&mut rng, if thorough { 40 } else { 10 }));
        // CFF (predefined charset) allows 229 glyphs: split
        for (ci, chunk) in glyphs.chunks(200).enumerate() {
            for cff2 in [false, true] {
                if cff2 && !(thorough || pi % 3 == 1 || ci == 0 && pi < 2) {
                    continue;
                }
                out.push(CFont { name: format!("{}{}-{}", if cff2 { "cff2-" } else { "cff-" }, p.name, ci), upem: 1000, cff2, private: p.clone(), glyphs: chunk.to_vec() });
            }
        }
    }
    out
}

/// 1024 units per em: at 4, 8, 16, 32, 64 ppem the scale is exact; stems and zones on multiples of 32/64/256
/// units put device coordinates exactly on pixel / half-pixel boundaries.
pub fn exact_fonts(cfg: &Config) -> Vec<CFont> {
    let mut out = vec![];
    let blues = nums(&[-16, 0, 512, 528, 768, 784]);
    let other = nums(&[-256, -240]);
    let configs = vec![
        Private { name: "exact-plain".into(), ..Default::default() },
        Private { name: "exact-blues".into(), blues: blues.clone(), other_blues: other.clone(), ..Default::default() },
        Private { name: "exact-blues-scale.0625".into(), blues: blues.clone(), other_blues: other.clone(), blue_scale: Some("0.0625"), blue_fuzz: Some(0), ..Default::default() },
        Private { name: "exact-lang1".into(), language_group: Some(1), ..Default::default() },
    ];
    for p in configs {
        let mut glyphs = vec![];
        for &w in &[32.0, 64.0, 96.0, 128.0, 192.0, 256.0] {
            for &g in &[16.0, 32.0, 64.0, 96.0, 128.0, 256.0] {
                for y0 in [0.0, -256.0, 32.0, 16.0] {
                    let k = ((900.0 / (w + g)) as usize).clamp(2, 7);
                    glyphs.push(ladder(format!("exact ladder w={w} g={g} y0={y0} k={k}"), fx(y0), &vec![fx(w); k], &[fx(g)]));
                }
            }
        }
        glyphs.extend(blue_glyphs(&zones_of(&p), p.blue_fuzz.unwrap_or(1), 7));
        for (ci, chunk) in glyphs.chunks(200).enumerate() {
            for cff2 in [false, true] {
                if cff2 && !(cfg.thorough() || ci == 0) {
                    continue;
                }
                out.push(CFont { name: format!("{}{}-{}", if cff2 { "cff2-" } else { "cff-" }, p.name, ci), upem: 1024, cff2, private: p.clone(), glyphs: chunk.to_vec() });
            }
        }
    }
    out
}

pub fn run(cfg: &Config, s: &mut Session) {
    use fauntlet::{Hinting, HintingTarget::*};
    let dir = std::path::PathBuf::from(format!("/tmp/c03-cffsynth-{}-{}", cfg.seed, std::process::id()));
    let _ = std::fs::create_dir_all(&dir);
    // the CFF hinter does not depend on the target; two targets at every size, all five at a few
    let main_modes = [None, Some(Hinting::Interpreter(Normal)), Some(Hinting::Interpreter(Mono))];
    let other_modes = [Some(Hinting::Interpreter(Light)), Some(Hinting::Interpreter(Lcd)), Some(Hinting::Interpreter(VerticalLcd))];
    let mut ppems: Vec<u32> = (4..=40).collect();
    ppems.extend([48, 64, 100, 250]);
    if cfg.thorough() {
        ppems.extend([1, 2, 3, 41, 42, 43, 45, 50, 57, 72, 96, 128, 500, 1000, 2000, 2001]);
    }
    let only = std::env::var("C03_CFF_ONLY").ok();
    let mut all = fonts(cfg);
    all.extend(exact_fonts(cfg));
    for f in all {
        if let Some(o) = &only {
            if !f.name.contains(o.as_str()) {
                continue;
            }
        }
        let data = match catch(|| build_font(&f)) {
            Ok(d) => d,
            Err(e) => {
                s.oracle("cffsynth:font-builds", false, || format!("font={}", f.name), || e.clone());
                continue;
            }
        };
        if let Ok(d) = std::env::var("C03_CFF_DUMP") {
            // development aid: C03_CFF_DUMP=<gid> prints the description of that glyph of every font run
            if let Some(g) = d.parse::<usize>().ok().and_then(|i| f.glyphs.get(i.wrapping_sub(1))) {
                let n = |v: &[(Num, Num)]| v.iter().map(|(a, b)| (a.0 as f64 / 65536.0, b.0 as f64 / 65536.0)).collect::<Vec<_>>();
                eprintln!("font {} gid {d}: hstems {:?} vstems {:?} masks {:?} cntr {:?} subr {} curves {}", f.name, n(&g.hstems), n(&g.vstems), g.masks, g.cntr, g.stems_in_subr, g.curves);
            }
        }
        let path = dir.join(format!("c03_cffsynth_{}.otf", f.name));
        std::fs::write(&path, &data).unwrap();
        let labels: Vec<String> = std::iter::once("notdef".to_string()).chain(f.glyphs.iter().map(|g| g.label.clone())).collect();
        *crate::GLYPH_LABELS.lock().unwrap() = Some(labels);
        for _ in 0..f.glyphs.len() {
            s.count(if f.cff2 { "cffsynth:glyphs:cff2" } else { "cffsynth:glyphs:cff" });
        }
        let before = s.dist.get("diff:compared").copied().unwrap_or(0);
        crate::differential(cfg, s, &path, &ppems, &main_modes);
        crate::differential(cfg, s, &path, &[9, 13, 24], &other_modes);
        let after = s.dist.get("diff:compared").copied().unwrap_or(0);
        // a font FreeType or skrifa does not open would silently compare nothing
        s.oracle("cffsynth:font-is-compared", after > before, || format!("font={}", f.name), || "no glyph of the generated font was compared (instantiate failed?)".into());
        *crate::GLYPH_LABELS.lock().unwrap() = None;
    }
    if std::env::var_os("C03_KEEP").is_none() {
        let _ = std::fs::remove_dir_all(&dir);
    }
}
