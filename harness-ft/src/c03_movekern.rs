//! I. MIRP / MIAP / MDRP value computation, three-way: Model/HintMove.lean (skrifa) and
//! Model/FtMove.lean (FreeType) against the REAL handlers, both reached through generated glyph
//! programs (no hook): a font with 1024 units per em at 16 ppem has scale 1.0, so a design
//! coordinate IS the 26.6 value both interpreters see as original position.  Per case the program
//! sets the complete graphics state the handler reads (round state, SCVTCI, SSW, SSWCI, SMD,
//! FLIPON/OFF), puts the point's current position with SCFS, writes the CVT entry with WCVTP and
//! executes the instruction; the point's final y is `cur + move`.
//!
//!   A = point 0 at (0,0) = rp0 (same zone) — or twilight point 0 (never written, at the origin) = rp0
//!   B_i = point i at (20 i, org_i): original distance org_i
//!
//! FreeType: `outline.points[i].y` of the linked interpreter → `ft.mirp …` (Model/FtMove.lean);
//! skrifa: the hinted outline drawn by the real hinter (all points on-curve: one path element each)
//! → `sk.mirp …` (Model/HintMove.lean); oracle: the two real values are equal.
use crate::fvlib::common::*;
use crate::ttedge::{build_font, o::*, EdgeFont, EdgeGlyph, P};
use skrifa::outline::{pen::PathElement, DrawSettings, Engine, HintingInstance, HintingOptions, Target};
use skrifa::prelude::*;
use skrifa::raw::FontRef;
use skrifa::MetadataProvider;

#[derive(Clone, Debug)]
struct Case {
    kind: u8, // 0 MIRP, 1 MIAP, 2 MDRP
    op: u8,
    sel: i32,
    cutin: i32,
    sw: i32,
    swci: i32,
    md: i32,
    flip: bool,
    flags: u8,
    same: bool,
    c: i32,
    org: i16,
    cur: i32,
}

impl Case {
    fn request(&self, side: &str) -> String {
        let (op, sel) = (self.op as i32, if self.op == SROUND || self.op == S45ROUND { self.sel } else { 0 });
        match self.kind {
            0 => format!("{side}.mirp {op} {sel} {} {} {} {} {} {} {} {} {} {}", self.cutin, self.sw, self.swci, self.md, self.flip as u8, self.flags, self.same as u8, self.c, self.org, self.cur),
            1 => format!("{side}.miap {op} {sel} {} {} {} {}", self.cutin, self.flags & 1, self.c, self.cur),
            _ => format!("{side}.mdrp {op} {sel} {} {} {} {} {} {}", self.sw, self.swci, self.md, self.flags, self.org, self.cur),
        }
    }
    fn emit(&self, p: &mut P, i: i32) {
        p.svtca(false);
        if self.op == SROUND || self.op == S45ROUND {
            p.push32(self.sel);
        }
        p.op(self.op);
        p.push32(self.cutin).op(SCVTCI);
        p.push32(self.sw).op(SSW);
        p.push32(self.swci).op(SSWCI);
        p.push32(self.md).op(SMD);
        p.op(if self.flip { FLIPON } else { FLIPOFF });
        // current position of B_i
        p.push(&[i]).push32(self.cur).op(SCFS);
        match self.kind {
            0 => {
                if !self.same {
                    p.set(SZP0, 0);
                }
                p.set(SRP0, 0);
                p.push(&[i % 60]).push32(self.c).op(WCVTP);
                p.push(&[i, i % 60]).op(MIRP + self.flags);
                if !self.same {
                    p.set(SZP0, 1);
                }
            }
            1 => {
                p.push(&[i % 60]).push32(self.c).op(WCVTP);
                p.push(&[i, i % 60]).op(MIAP + (self.flags & 1));
            }
            _ => {
                p.set(SRP0, 0);
                p.push(&[i]).op(MDRP + self.flags);
            }
        }
    }
}

const STATE_OPS: [u8; 8] = [RTG, RTHG, RTDG, RDTG, RUTG, ROFF, SROUND, S45ROUND];

fn small(rng: &mut Rng) -> i32 {
    match rng.below(5) {
        0 => *rng.pick(&[0, 1, -1, 31, 32, 33, 63, 64, 65, 68, 17, 128, -64]),
        1 => rng.range(-200, 200) as i32,
        2 => rng.range(-5000, 5000) as i32,
        3 => rng.range(-(1 << 22), 1 << 22) as i32,
        _ => rng.range(-70, 70) as i32,
    }
}

fn gen_case(rng: &mut Rng, kind: u8) -> Case {
    let op = *rng.pick(&STATE_OPS);
    let sel = rng.below(256) as i32;
    let org: i16 = match rng.below(6) {
        0 => *rng.pick(&[0i16, 1, -1, 300, -300, 37, -37, 64, -64]),
        1 => rng.range(-100, 100) as i16,
        _ => rng.range(-16000, 16000) as i16,
    };
    let cutin = match rng.below(4) {
        0 => *rng.pick(&[0, 1, 17, 68, 200, 20000, -5]),
        _ => small(rng).abs(),
    };
    let flip = rng.chance(1, 2);
    let sgn = if rng.chance(1, 4) { -1 } else { 1 };
    // the compared quantities at the boundary, one unit either side, or anywhere
    let k = *rng.pick(&[0, 0, 1, -1, 1, -1, 2, 40, -40, 1000]);
    let side = if rng.chance(1, 2) { 1 } else { -1 };
    let sw = match rng.below(3) {
        0 => 0,
        1 => *rng.pick(&[200, -200, 1, 64]),
        _ => small(rng),
    };
    let swci = match rng.below(3) {
        0 => 0,
        1 => *rng.pick(&[1, 30, 64, -3]),
        _ => small(rng).abs(),
    };
    let md = match rng.below(3) {
        0 => 64,
        1 => *rng.pick(&[0, 1, 63, 65, 128, -64]),
        _ => small(rng),
    };
    let cur = match rng.below(3) {
        0 => org as i32,
        1 => org as i32 + rng.range(-100, 100) as i32,
        _ => small(rng),
    };
    let c = match (kind, rng.below(5)) {
        // MIAP compares with the CURRENT position
        (1, 0..=2) => cur + side * (cutin + k),
        (_, 0 | 1) => sgn * org as i32 + side * (cutin + k),
        (_, 2) => sgn * (sw + side * (swci + k)),
        (_, 3) => sgn * (md + k),
        _ => small(rng),
    };
    let mut cs = Case { kind, op, sel, cutin, sw, swci, md, flip, flags: rng.below(32) as u8, same: rng.chance(3, 4), c, org, cur };
    if kind == 2 {
        // MDRP: single width around the original distance, minimum distance around its rounded value
        match rng.below(4) {
            0 => cs.sw = sgn * org as i32 + side * (swci + k),
            1 => cs.swci = (org as i32 - sw).abs() + k,
            2 => cs.md = (org as i32).abs() + k,
            _ => {}
        }
    }
    cs
}

fn skrifa_points(data: &[u8], gid: u32) -> Result<Vec<i64>, String> {
    let font = FontRef::new(data).map_err(|e| format!("{e:?}"))?;
    let outlines = font.outline_glyphs();
    let h = HintingInstance::new(&outlines, Size::new(16.0), LocationRef::default(), HintingOptions { engine: Engine::Interpreter, target: Target::Mono })
        .map_err(|e| format!("{e:?}"))?;
    let g = outlines.get(GlyphId::new(gid)).ok_or("no glyph")?;
    let mut v: Vec<PathElement> = vec![];
    g.draw(DrawSettings::hinted(&h, false), &mut v).map_err(|e| format!("{e:?}"))?;
    let mut out = vec![];
    for e in &v {
        match e {
            PathElement::MoveTo { y, .. } | PathElement::LineTo { y, .. } => out.push((*y as f64 * 64.0).round() as i64),
            PathElement::Close => {}
            other => return Err(format!("unexpected element {other:?}")),
        }
    }
    Ok(out)
}

pub fn run(cfg: &Config, s: &mut Session) {
    let mut rng = Rng::new(cfg.seed ^ 0x30FE);
    let per_kind = if cfg.thorough() { 60_000 } else { 12_000 };
    let per_glyph = 40usize;
    let lib = freetype::Library::init().unwrap();
    for kind in 0..3u8 {
        let name = ["mirp", "miap", "mdrp"][kind as usize];
        let cases: Vec<Case> = (0..per_kind).map(|_| gen_case(&mut rng, kind)).collect();
        let mut failures_recorded = 0;
        let mut glyphs = vec![];
        for chunk in cases.chunks(per_glyph) {
            let mut pts: Vec<(i16, i16, bool)> = vec![(0, 0, true)];
            let mut p = P::new();
            for (j, cs) in chunk.iter().enumerate() {
                pts.push((20 * (j as i16 + 1), cs.org, true));
                cs.emit(&mut p, j as i32 + 1);
            }
            let e = pts.len() - 1;
            glyphs.push(EdgeGlyph { label: String::new(), pts, ends: vec![e], code: p.c });
        }
        let font = EdgeFont { family: "movekern", glyphs, prep: vec![], fpgm: vec![], cvt: vec![0; 64], upem: 1024 };
        let data = build_font(&font);
        for (gi, chunk) in cases.chunks(per_glyph).enumerate() {
            let gid = gi as u32 + 1;
            // FreeType: a fresh face per glyph (the cvt and twilight zone live in the size object)
            let ft: Option<Vec<i64>> = (|| {
                let mut face = lib.new_memory_face2(data.clone(), 0).ok()?;
                face.set_pixel_sizes(16, 16).ok()?;
                use freetype::face::LoadFlag;
                face.load_glyph(gid, LoadFlag::NO_BITMAP | LoadFlag::NO_AUTOHINT | LoadFlag::TARGET_MONO).ok()?;
                let raw = face.glyph().raw();
                let o = &raw.outline;
                Some(unsafe { std::slice::from_raw_parts(o.points, o.n_points as usize) }.iter().map(|p| p.y as i64).collect())
            })();
            let sk = catch(|| skrifa_points(&data, gid));
            let Some(ft) = ft else {
                s.oracle("movekern:freetype-loads-glyph", false, || format!("{name} glyph {gid}"), || "load failed".into());
                continue;
            };
            if ft.len() != chunk.len() + 1 {
                s.oracle("movekern:point-count", false, || format!("{name} glyph {gid}"), || format!("{} points", ft.len()));
                continue;
            }
            for (j, cs) in chunk.iter().enumerate() {
                let fy = ft[j + 1];
                s.count(&format!("movekern:{name}:flags{:02}", if kind == 1 { cs.flags & 1 } else { cs.flags }));
                s.count(&format!("movekern:{name}:same{}", cs.same as u8));
                // where the operands sit relative to the thresholds (on the raw parameters)
                let rel = |a: i64, b: i64| if a < b { "lt" } else if a == b { "eq" } else { "gt" };
                match kind {
                    0 => {
                        s.count(&format!("movekern:mirp:|c-org|:cutin:{}", rel((cs.c as i64 - cs.org as i64).abs(), cs.cutin as i64)));
                        s.count(&format!("movekern:mirp:|c+org|:cutin:{}", rel((cs.c as i64 + cs.org as i64).abs(), cs.cutin as i64)));
                        s.count(&format!("movekern:mirp:|c-sw|:swci:{}", rel((cs.c as i64 - cs.sw as i64).abs(), cs.swci as i64)));
                        s.count(&format!("movekern:mirp:|c|:md:{}", rel((cs.c as i64).abs(), cs.md as i64)));
                    }
                    1 => s.count(&format!("movekern:miap:|c-cur|:cutin:{}", rel((cs.c as i64 - cs.cur as i64).abs(), cs.cutin as i64))),
                    _ => {
                        s.count(&format!("movekern:mdrp:|org-sw|:swci:{}", rel((cs.org as i64 - cs.sw as i64).abs(), cs.swci as i64)));
                        s.count(&format!("movekern:mdrp:|org|:md:{}", rel((cs.org as i64).abs(), cs.md as i64)));
                    }
                }
                s.case(["ft.mirp", "ft.miap", "ft.mdrp"][kind as usize], cs.request("ft"), fy.to_string());
                let sy: String = match &sk {
                    Ok(Ok(v)) if v.len() == ft.len() => v[j + 1].to_string(),
                    Ok(Ok(v)) => format!("points:{}", v.len()),
                    Ok(Err(e)) => format!("err:{e}"),
                    Err(_) => "trap".into(),
                };
                s.case(["sk.mirp", "sk.miap", "sk.mdrp"][kind as usize], cs.request("sk"), sy.clone());
                // a broken handler fails thousands of cases: record 24 per opcode, count the rest, so that the
                // session's cap of recorded failures still has room for the whole-outline layers
                let ok = sy == fy.to_string();
                if ok || failures_recorded < 24 {
                    s.oracle(["kernel:MIRP==FreeType-interpreter", "kernel:MIAP==FreeType-interpreter", "kernel:MDRP==FreeType-interpreter"][kind as usize], ok, || format!("{cs:?}"), || format!("skrifa {sy} freetype {fy}"));
                    if !ok {
                        failures_recorded += 1;
                    }
                } else {
                    s.count(&format!("movekern:{name}:further-failures-not-recorded"));
                }
            }
        }
    }
}
