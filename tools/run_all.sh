#!/bin/bash
# tools/run_all.sh [quick|thorough] [jobs]
# Run every claimed property's check against /repo's current tree, <jobs> at a time (default 2), and print one
# summary line per property plus every VIOLATION / KNOWN-FINDING count. Logs: /verif/.run_all/<Cxx>.log (scratch,
# not committed). Exit 0 iff every check exited 0 and printed no VIOLATION line.
TIER=${1:-quick}; JOBS=${2:-2}
cd /verif || exit 2
mkdir -p .run_all; rm -f .run_all/*.log .run_all/*.rc
run_one() {
  c=$1
  ./check "$c" --tier "$TIER" > ".run_all/$c.log" 2>&1
  echo $? > ".run_all/$c.rc"
}
PROPS=$(python3 -c "import json;print(' '.join(c['property_id'] for c in json.load(open('MANIFEST.json'))['checks']))")
n=0
for c in $PROPS; do
  run_one "$c" &
  n=$((n+1))
  if [ "$n" -ge "$JOBS" ]; then wait -n; n=$((n-1)); fi
done
wait
bad=0
for c in $PROPS; do
  rc=$(cat ".run_all/$c.rc" 2>/dev/null || echo "?")
  v=$(grep -c "^VIOLATION" ".run_all/$c.log")
  k=$(grep -c "^KNOWN-FINDING" ".run_all/$c.log")
  s=$(grep -E "^$c $TIER:" ".run_all/$c.log" | tail -1)
  echo "$c rc=$rc violations=$v known=$k | $s"
  if [ "$rc" != "0" ] || [ "$v" != "0" ]; then bad=1; grep "^VIOLATION" ".run_all/$c.log" | head -3; fi
done
exit $bad
