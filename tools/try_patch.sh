#!/bin/sh
# tools/try_patch.sh <Cxx> <patch.diff> <scratch-worktree>
# Confirm a seeded change without touching /repo: apply the patch in a scratch worktree, build a scratch copy of
# the harness whose path deps point at that worktree (own target dir under the worktree), run the property's
# binary against the property's Lean driver, print the outcome summary, undo the patch, remove the copy.
set -e
PROP=$1; PATCH=$2; WT=$3
LOW=$(echo "$PROP" | tr 'A-Z' 'a-z')
git -C "$WT" checkout -q -- . && git -C "$WT" apply "$PATCH"
H=$WT/.fv-harness-copy
rm -rf "$H"; mkdir -p "$H"
cp -r /verif/harness/src /verif/harness/Cargo.toml /verif/harness/Cargo.lock "$H"/
mkdir -p "$H/.cargo"
sed "s#/verif/harness/target#$WT/.fv-target#" /verif/harness/.cargo/config.toml > "$H/.cargo/config.toml"
sed -i "s#\"/repo/#\"$WT/#g" "$H/Cargo.toml"
(cd "$H" && CARGO_NET_OFFLINE=true cargo build --release --quiet --bin "$LOW" 2>&1 | grep -E "^error" | head -5) || true
OUT=$WT/.fv-result.json
if [ -x "$WT/.fv-target/release/$LOW" ]; then
  "$WT/.fv-target/release/$LOW" --tier quick --seed "${VERIF_SEED:-1}" --driver /verif/lean/.lake/build/bin/drv_$LOW --out "$OUT" || echo "harness rc=$?"
  python3 - "$OUT" "$PROP" <<'PY'
import json,sys,collections,re,glob
r=json.load(open(sys.argv[1])); prop=sys.argv[2]
known=[]
for f in ["/verif/known_findings.json"]+sorted(glob.glob("/verif/known_findings.d/*.json")):
    try: known+=[k for k in json.load(open(f)).get("findings",[]) if k.get("property")==prop]
    except Exception: pass
def is_known(f):
    return any(re.search(k["match"].get("oracle",".*"),f["oracle"]) and re.search(k["match"].get("input",".*"),f["input"]) for k in known)
allf=r["oracle_failures"]; r["oracle_failures"]=[f for f in allf if not is_known(f)]
print("cases",r["correspondence_cases"],"disagreements",r["disagreement_count"],"oracle_failures (not known findings)",len(r["oracle_failures"]),"known-finding hits",len(allf)-len(r["oracle_failures"]))
print("groups:",collections.Counter(d["group"] for d in r["disagreements"]).most_common(6))
print("oracles:",collections.Counter(f["oracle"] for f in r["oracle_failures"]).most_common(6))
for d in r["disagreements"][:2]: print(" dis:",d)
for f in r["oracle_failures"][:2]: print(" fail:",f)
PY
else
  echo "HARNESS-BUILD-FAILED (the check would report harness-build broken, no-failing-input-found)"
fi
# --- translators + proofs against the patched tree (only for properties that have translators) ---
TRS=$(python3 -c "import json;print(' '.join(json.load(open('/verif/props/$PROP.json')).get('translators',[])))")
if [ -n "$TRS" ]; then
  L=$WT/.fv-lean
  rm -rf "$L"; mkdir -p "$L"; rsync -a /verif/lean/ "$L"/
  for t in $TRS; do
    rc=0; python3 /verif/translate/$t --repo "$WT" --out "$L/FontVerif/Gen" --report "$WT/.fv-tr-$t.json" >/dev/null 2>"$WT/.fv-tr-$t.err" || rc=$?
    python3 - "$WT/.fv-tr-$t.json" "$t" $rc <<'PY'
import json,sys,os
p,t,rc=sys.argv[1],sys.argv[2],sys.argv[3]
r=json.load(open(p)) if os.path.exists(p) else {}
print(f"translator {t}: rc={rc} obligations={r.get('obligations')} unparsed={json.dumps(r.get('unparsed'))[:600] if r.get('unparsed') else None}")
PY
  done
  if diff -rq /verif/lean/FontVerif/Gen "$L/FontVerif/Gen" >/dev/null 2>&1; then echo "translator output: UNCHANGED"; else
    echo "translator output: CHANGED:"; diff -rq /verif/lean/FontVerif/Gen "$L/FontVerif/Gen" | head -5
    MODS=$(python3 -c "import json;print(' '.join(json.load(open('/verif/props/$PROP.json'))['props']))")
    (cd "$L" && timeout 1500 lake build $MODS 2>&1 | grep -E "^error|error:|Build completed" | head -8)
  fi
  rm -rf "$L" "$WT"/.fv-tr-*
fi
git -C "$WT" checkout -q -- .
rm -rf "$H" "$OUT"
