#!/usr/bin/env python3
"""Regenerate MANIFEST.json from props/Cxx.json ("claim" key) — run from /verif after changing a claim.
A property is claimed iff props/Cxx.json exists and has a "claim" object {text, note, technique?, design_ref?}.
Everything else is listed under not_applicable with the reason in tools/unclaimed_reasons.json (or a default)."""
import json, os, subprocess
ROOT = os.path.dirname(os.path.dirname(os.path.abspath(__file__)))
ids = [json.loads(l)["id"] for l in open(os.path.join(ROOT, "properties.jsonl"))]
reasons_path = os.path.join(ROOT, "tools", "unclaimed_reasons.json")
reasons = json.load(open(reasons_path)) if os.path.exists(reasons_path) else {}
hooks = subprocess.run(["git", "-C", "/repo", "log", "--format=%h %s", "--grep=^verif-hook:"], capture_output=True, text=True).stdout.strip().splitlines()
checks, na, served = [], [], []
for pid in ids:
    p = os.path.join(ROOT, "props", pid + ".json")
    cfg = json.load(open(p)) if os.path.exists(p) else {}
    c = cfg.get("claim")
    if not c:
        na.append({"property_id": pid, "reason": reasons.get(pid, "not claimed yet: model/theorems/correspondence for this property are still under construction (see DESIGN.md section 5 " + pid + "); no technique other than Lean proof + correspondence is substituted")})
        continue
    served.append(pid)
    checks.append({
        "property_id": pid,
        "quick_cmd": f"./check {pid} --tier quick",
        "thorough_cmd": f"./check {pid} --tier thorough",
        "evidence_file": f"evidence/{pid}.json",
        "replay_cmd_template": f"./check {pid} --replay {{path}}",
        "engine": "lean-proofs",
        "level_claimed": {"category": "proof", "text": c["text"], "design_ref": c.get("design_ref", f"DESIGN.md section 5 {pid}")},
        "level_note": c["note"],
        "technique": c.get("technique", "Lean 4 proof over a hand model + differential correspondence"),
    })
m = {
    "version": 1,
    "setup_cmd": "./setup.sh",
    "hooks": {
        "guard": "--cfg googlefonts_fontations_verif",
        "enable": "harness/.cargo/config.toml (and harness-ft/.cargo/config.toml) set rustflags = [\"--cfg\", \"googlefonts_fontations_verif\"]; the harness crates path-depend on /repo's crates, so every check rebuilds them from the current working tree with hooks on",
        "baseline_off_cmd": "cd /repo && cargo test --workspace --no-fail-fast --offline",
        "source_commits": hooks,
        "add_only": True,
    },
    "engines": [
        {"name": "lean-proofs", "path": "lean", "serves_properties": served, "kind_free_text": "Lean 4 models (FontVerif/Model), property theorems (FontVerif/Props), translator output (FontVerif/Gen), compiled line-protocol drivers (drv_cxx)"},
        {"name": "fv-harness", "path": "harness", "serves_properties": served, "kind_free_text": "Rust differential correspondence harness (one binary per property): real fontations code vs Lean driver on the same requests, plus model-independent property oracles on the real code"},
        {"name": "translators", "path": "translate", "serves_properties": [p for p in served if json.load(open(os.path.join(ROOT, 'props', p + '.json'))).get('translators')], "kind_free_text": "Python translators regenerating Lean data (shapes, site inventories) from /repo's current source on every run"},
    ],
    "checks": checks,
    "not_applicable": na,
    "notes": "All checks share one orchestrator (./check). Known findings: known_findings.json + known_findings.d/*.json. Seeded changes and which check catches them: seeded/*/meta.json and DESIGN.md.",
}
json.dump(m, open(os.path.join(ROOT, "MANIFEST.json"), "w"), indent=1)
print("claimed:", served, "unclaimed:", [x["property_id"] for x in na])
