#!/usr/bin/env python3
"""Regenerates the machine-written parts of DESIGN.md (between <!-- BEGIN:x --> / <!-- END:x --> markers):
  seeded  — table of seeded changes (seeded/*/meta.json) and what caught each
  fixes   — fix:/verif-hook: commits in /repo with the property that found them (known_findings.d/*.json `fixed`)
  findings— open known findings
  status  — per-property status line from MANIFEST.json + evidence/*.json
"""
import json, glob, os, re, subprocess
ROOT = os.path.dirname(os.path.dirname(os.path.abspath(__file__)))
def md_escape(s): return s.replace("|", "\\|").replace("\n", " ")
def seeded():
    rows = ["| id | property | change (short) | needs to manifest | caught by |", "|---|---|---|---|---|"]
    for d in sorted(glob.glob(os.path.join(ROOT, "seeded", "*"))):
        mp = os.path.join(d, "meta.json")
        if not os.path.exists(mp): continue
        m = json.load(open(mp))
        rows.append("| %s | %s | %s | %s | %s |" % (os.path.basename(d), m.get("property") or m.get("breaks"),
                    md_escape(m.get("summary", ""))[:260], md_escape(m.get("needs_to_manifest", ""))[:200], md_escape(m.get("caught_by", ""))[:300]))
    return "\n".join(rows)
def fixes():
    log = subprocess.run(["git", "-C", "/repo", "log", "--reverse", "--format=%h %s", "8fbdad5..HEAD"], capture_output=True, text=True).stdout.strip().splitlines()
    by_sha = {}
    for f in sorted(glob.glob(os.path.join(ROOT, "known_findings.d", "*.json"))):
        for line in json.load(open(f)).get("fixed", []):
            m = re.search(r"property=(C\d+)\s+([0-9a-f]{7,})", line)
            if m: by_sha.setdefault(m.group(2)[:7], []).append(m.group(1))
    rows = ["| commit | kind | found by | subject |", "|---|---|---|---|"]
    for l in log:
        sha, subj = l.split(" ", 1)
        kind = subj.split(":")[0]
        rows.append("| %s | %s | %s | %s |" % (sha, kind, ",".join(sorted(set(by_sha.get(sha[:7], [])))) or "-", md_escape(subj)[:200]))
    return "\n".join(rows)
def findings():
    rows = ["| id | property | summary |", "|---|---|---|"]
    for f in sorted(glob.glob(os.path.join(ROOT, "known_findings.d", "*.json"))) + [os.path.join(ROOT, "known_findings.json")]:
        for k in json.load(open(f)).get("findings", []):
            rows.append("| %s | %s | %s |" % (k["id"], k["property"], md_escape(k.get("summary", ""))[:400]))
    return "\n".join(rows)
def status():
    m = json.load(open(os.path.join(ROOT, "MANIFEST.json")))
    rows = ["| id | claimed | theorems/obligations | correspondence cases (quick) | oracle checks | known findings hit | quick wall s |", "|---|---|---|---|---|---|---|"]
    claimed = {c["property_id"] for c in m["checks"]}
    for i in range(1, 21):
        pid = "C%02d" % i
        ep = os.path.join(ROOT, "evidence", pid + ".json")
        if os.path.exists(ep):
            e = json.load(open(ep)); c = e["coverage"]
            rows.append("| %s | %s | %s/%s | %s | %s | %s | %s |" % (pid, "yes" if pid in claimed else "no", c.get("discharged"), c.get("obligations"), c.get("correspondence_cases"), c.get("oracle_checks"), len(c.get("known_findings_hit", [])), e.get("wall_s")))
        else:
            rows.append("| %s | %s | - | - | - | - | - |" % (pid, "yes" if pid in claimed else "no"))
    return "\n".join(rows)
def asbuilt():
    """per property: what the check proves / ties / leaves open, taken verbatim from the claim in props/Cxx.json
    (the same text MANIFEST.json carries), plus the Lean modules, translators and the report file"""
    out = []
    for i in range(1, 21):
        pid = "C%02d" % i
        cfg = json.load(open(os.path.join(ROOT, "props", pid + ".json")))
        c = cfg.get("claim", {})
        rep = " (details: reports/%s.md)" % pid if os.path.exists(os.path.join(ROOT, "reports", pid + ".md")) else ""
        mods = ", ".join(m.replace("FontVerif.", "") for m in cfg.get("props", []))
        trs = ", ".join(cfg.get("translators", [])) or "-"
        out.append("**%s**%s. Theorem modules: %s. Translators: %s.\n\n%s\n\n*Trusted / assumed:* %s\n\n*Modelled rather than verified:* %s\n" % (
            pid, rep, mods, trs, c.get("text", "(not claimed)"), c.get("note", ""), cfg.get("not_modelled", "")))
    return "\n".join(out)
p = os.path.join(ROOT, "DESIGN.md"); s = open(p).read()
for name, fn in (("seeded", seeded), ("fixes", fixes), ("findings", findings), ("status", status), ("asbuilt", asbuilt)):
    b, e = f"<!-- BEGIN:{name} -->", f"<!-- END:{name} -->"
    if b in s and e in s:
        s = s[:s.index(b) + len(b)] + "\n" + fn() + "\n" + s[s.index(e):]
open(p, "w").write(s)
print("DESIGN.md tables regenerated")
