#!/usr/bin/env python3
"""tools/seed_prompt.py Cxx K [hint] -> prints the prompt for an independent seeded-change sub-agent and creates its scratch worktree /tmp/seed-cxx-K"""
import json, subprocess, sys
pid, k = sys.argv[1], sys.argv[2]
hint = sys.argv[3] if len(sys.argv) > 3 else ""
prop = [json.loads(l) for l in open('/verif/properties.jsonl') if json.loads(l)['id'] == pid][0]
wt = f"/tmp/seed-{pid.lower()}-{k}"
subprocess.run(["git", "-C", "/repo", "worktree", "add", "--detach", wt, "HEAD"], capture_output=True)
print(f"""You are helping to test a verification effort by playing the adversary. The Rust repository googlefonts/fontations
(font parsing/writing/subsetting/rendering + incremental font transfer) is checked out for you as a scratch git
worktree at {wt} (work ONLY there; never touch /repo or /verif; offline sandbox: use `cargo ... --offline`,
`CARGO_NET_OFFLINE=true`; build output stays inside the worktree's own `target/`). Shell commands may print a
harmless conda warning/traceback first; ignore it.

Here is a semantic property the repository is supposed to satisfy:

{json.dumps({k_: prop[k_] for k_ in ('id','title','statement','quantifier','why_tests_cant','anchors')}, indent=1)}

Your task: produce {('THREE' if not hint else 'the requested')} DIFFERENT, realistic source changes (each the kind of slip a maintainer could make in a refactor, optimisation or
feature change: small, plausible, a few lines) to the repository, each of which BREAKS this property while the workspace
still compiles and the existing test suite still passes. Prefer changes that need something specific to manifest — an
unusual input, a boundary size, a multi-step sequence of operations, a particular interleaving, or two cooperating sites
that each look fine alone — not ones ordinary use would expose at once. Spread the three over different mechanisms/files
named in the anchors. {hint}

For EACH change i = 1..3 deliver, under {wt}/seed_out/<i>/ :
  * patch.diff — `git diff` of the change against HEAD (source files only; it must apply with `git apply` to a clean checkout);
  * demo.rs (or demo test file) — a small demonstration (a `#[test]` placed in an appropriate crate's tests/ dir or a small
    example program) that FAILS (panics/asserts) with the change applied and PASSES without it, using only the public API
    (and the crates already in the workspace / cargo registry cache); say in meta.json exactly where the file must be
    placed and the command to run it;
  * meta.json — {{"breaks": "{pid}", "summary": what was changed and why it violates the property, "needs_to_manifest": the specific
    input/sequence/condition needed, "files_touched": [...], "demo_placement": path where demo goes, "demo_cmd": command,
    "suite_commands_run": [...], "suite_result": "..."}}.
Confirm for each change yourself: (a) workspace builds; (b) the existing tests of every affected crate and its dependents
pass WITH the change (`cargo test -p <crate> --offline` for the touched crate and the crates that depend on it; the whole
suite is `cargo test --workspace --no-fail-fast --offline`, ~1222 tests — run it at least once per change if time permits);
(c) the demo fails with the change and passes without. Work on one change at a time: apply, test, save the diff, then
`git checkout -- .` (keep seed_out/, which is untracked) before the next. Leave the worktree clean (apart from seed_out/) at the end.
Final answer: a short list of the three changes (one paragraph each) and the test results.""")
