#!/usr/bin/env python3
"""tools/keep_seed.py <Cxx> <worktree> <i> <seed-id> <caught_by text> [confirm-log]
Store a confirmed seeded change under /verif/seeded/<seed-id>/ (patch.diff, demo, meta.json)."""
import json, os, shutil, sys, glob
prop, wt, i, sid, caught = sys.argv[1:6]
log = sys.argv[6] if len(sys.argv) > 6 else None
src = os.path.join(wt, "seed_out", i)
dst = os.path.join("/verif/seeded", sid)
os.makedirs(dst, exist_ok=True)
shutil.copy(os.path.join(src, "patch.diff"), dst)
for d in glob.glob(os.path.join(src, "demo*")):
    shutil.copy(d, dst)
m = json.load(open(os.path.join(src, "meta.json")))
m["property"] = prop
m["produced_by"] = "independent sub-agent given only the property text and a scratch worktree (tools/seed_prompt.py)"
m["confirmed_by_coordinator"] = ("tools/confirm_seed.sh: patch applies to a clean worktree of /repo HEAD; `cargo test` of the touched crates and dependents passes with it; "
                                 "the demo fails with the patch and passes without; then tools/try_patch.sh ran the property's harness built against the patched tree")
m["caught_by"] = caught
if log and os.path.exists(log):
    m["confirm_log_excerpt"] = open(log).read()[-3000:]
json.dump(m, open(os.path.join(dst, "meta.json"), "w"), indent=1)
print("kept", dst)
