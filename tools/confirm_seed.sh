#!/bin/sh
# tools/confirm_seed.sh <Cxx> <worktree> <i> [cargo-test-args…]
# Coordinator's own confirmation of a seeded change produced by an independent sub-agent in <worktree>/seed_out/<i>:
#  1. patch applies to a clean worktree and the workspace test suite passes with it (default: --workspace)
#  2. the demo FAILS with the patch and PASSES without it
#  3. the property's check machinery is run against the patched worktree (tools/try_patch.sh)
# Output: a summary on stdout; nothing under /repo is touched.
PROP=$1; WT=$2; I=$3; shift 3
ARGS=${*:---workspace}
D=$WT/seed_out/$I
export CARGO_NET_OFFLINE=true
cd "$WT" || exit 2
git checkout -q -- . ; git clean -fdq -e seed_out -e target -e .fv-target
git apply "$D/patch.diff" || { echo "PATCH-DOES-NOT-APPLY"; exit 2; }
echo "== suite with patch: cargo test $ARGS --no-fail-fast --offline"
cargo test $ARGS --no-fail-fast --offline 2>&1 | grep -E "^test result|FAILED|failed|error(\[|:)" | awk '/test result/{p+=$4; f+=$6} !/test result/{print} END{print "SUITE passed=" p " failed=" f}'
PLACE=$(python3 -c "import json,re;m=json.load(open('$D/meta.json'));print(re.split(r'[ (]',m['demo_placement'].strip())[0])")
CMD=$(python3 -c "import json;m=json.load(open('$D/meta.json'));print(m['demo_cmd'])")
SRC=$(ls $D/demo* | head -1)
mkdir -p "$(dirname "$PLACE")"; cp "$SRC" "$PLACE"
echo "== demo WITH patch ($CMD)"
sh -c "$CMD" > "$D/.demo_with.log" 2>&1; echo "demo-with-patch rc=$? (expect non-zero)"; grep -E "^test result|panicked" "$D/.demo_with.log" | head -4
git checkout -q -- .
echo "== demo WITHOUT patch"
sh -c "$CMD" > "$D/.demo_without.log" 2>&1; echo "demo-without-patch rc=$? (expect 0)"; grep -E "^test result" "$D/.demo_without.log" | head -3
rm -f "$PLACE"; git clean -fdq -e seed_out -e target -e .fv-target
echo "== check machinery against the patched tree"
/verif/tools/try_patch.sh "$PROP" "$D/patch.diff" "$WT"
