#!/usr/bin/env python3
"""tools/scan_changed_tests.py — prints every #[test] function of the pinned baseline (8fbdad5) whose text is no
longer present verbatim in /repo's working tree.  Must print nothing: `fix:` commits may ADD new test functions
but never edit an existing one (the existing suite, unedited, must still pass)."""
import os
os.chdir("/repo")
import subprocess,sys,re
def tests_of(src):
    out={}
    for m in re.finditer(r'#\[test\][^\n]*\n(?:\s*#\[[^\n]*\]\n)*\s*(?:pub\s+)?fn\s+(\w+)\s*\(',src):
        i=src.index('{',m.end()); d=0; j=i
        while True:
            ch=src[j]
            if ch=='{': d+=1
            elif ch=='}':
                d-=1
                if d==0: break
            j+=1
        out[m.group(1)]=src[m.start():j+1]
    return out
base="8fbdad5"
files=subprocess.run(["git","diff","--name-only",base,"HEAD"],capture_output=True,text=True).stdout.split()
for f in files:
    if not f.endswith('.rs'): continue
    old=subprocess.run(["git","show",f"{base}:{f}"],capture_output=True,text=True)
    if old.returncode!=0: continue
    new=open(f).read() if __import__('os').path.exists(f) else ''
    for name,body in tests_of(old.stdout).items():
        if body not in new:
            print("CHANGED-TEST",f,name)
