#!/bin/sh
# tools/try_patch_c03.sh <patch.diff> <scratch-worktree>
# C03 variant of try_patch.sh: the C03 harness lives in /verif/harness-ft (links FreeType) and includes
# /verif/harness/src/{lib,common}.rs by relative path, so both directories are copied side by side.
set -e
PATCH=$1; WT=$2
git -C "$WT" checkout -q -- . && git -C "$WT" apply "$PATCH"
H=$WT/.fv-copy
rm -rf "$H"; mkdir -p "$H/harness-ft/.cargo" "$H/harness"
cp -r /verif/harness-ft/src /verif/harness-ft/Cargo.toml /verif/harness-ft/Cargo.lock "$H/harness-ft"/
cp -r /verif/harness/src "$H/harness"/
sed "s#/verif/harness-ft/target#$WT/.fv-target#" /verif/harness-ft/.cargo/config.toml > "$H/harness-ft/.cargo/config.toml"
sed -i "s#\"/repo/#\"$WT/#g" "$H/harness-ft/Cargo.toml"
(cd "$H/harness-ft" && CARGO_NET_OFFLINE=true cargo build --release --quiet --bin c03 2>&1 | grep -E "^error" | head -5) || true
OUT=$WT/.fv-result.json
if [ -x "$WT/.fv-target/release/c03" ]; then
  "$WT/.fv-target/release/c03" --tier quick --seed "${VERIF_SEED:-1}" --driver /verif/lean/.lake/build/bin/drv_c03 --out "$OUT" || echo "harness rc=$?"
  python3 - "$OUT" <<'PY'
import json,sys,collections,re
r=json.load(open(sys.argv[1]))
# the known findings of C03 (known_findings.d/C03.json), matched exactly as ./check matches them
known=[(re.compile(k["match"].get("oracle",".*")), re.compile(k["match"].get("input",".*"))) for k in json.load(open("/verif/known_findings.d/C03.json"))["findings"]]
fails=[f for f in r["oracle_failures"] if not any(o.search(f["oracle"]) and i.search(f["input"]) for o,i in known)]
print("cases",r["correspondence_cases"],"disagreements",r["disagreement_count"],"oracle_failures(not known)",len(fails),"known",len(r["oracle_failures"])-len(fails))
print("groups:",collections.Counter(d["group"] for d in r["disagreements"]).most_common(8))
print("oracles:",collections.Counter(f["oracle"] for f in fails).most_common(8))
for d in r["disagreements"][:2]: print(" dis:",d)
# the first two failures of every distinct oracle (a kernel oracle must not hide the (font, gid, ppem, mode) of an outline failure)
seen=collections.Counter()
for f in fails:
    seen[f["oracle"]]+=1
    if seen[f["oracle"]]<=2: print(" fail:",{k:(v[:400] if isinstance(v,str) else v) for k,v in f.items()})
PY
else
  echo "HARNESS-BUILD-FAILED (the check would report harness-build broken, no-failing-input-found)"
fi
git -C "$WT" checkout -q -- .
rm -rf "$H" "$OUT"
