//! fv-harness: drives the real fontations code, records one line-protocol request per case for
//! the Lean driver, evaluates the property oracles, and writes a JSON result.
//!
//! usage: fv-harness <PROP> --tier quick|thorough --seed N --driver PATH --out FILE [--replay FILE]
mod common;
mod props;

use common::{Config, Session};
use std::path::PathBuf;

fn main() {
    let args: Vec<String> = std::env::args().collect();
    if args.len() < 2 {
        eprintln!("usage: fv-harness <PROP> --tier T --seed N --driver PATH --out FILE");
        std::process::exit(2);
    }
    let mut cfg = Config {
        prop: args[1].clone(),
        tier: "quick".into(),
        seed: 1,
        driver: PathBuf::from("/verif/lean/.lake/build/bin/fvdriver"),
        out: PathBuf::from("/verif/out/result.json"),
        replay: None,
    };
    let mut i = 2;
    while i < args.len() {
        match args[i].as_str() {
            "--tier" => { cfg.tier = args[i + 1].clone(); i += 2; }
            "--seed" => { cfg.seed = args[i + 1].parse().unwrap_or(1); i += 2; }
            "--driver" => { cfg.driver = PathBuf::from(&args[i + 1]); i += 2; }
            "--out" => { cfg.out = PathBuf::from(&args[i + 1]); i += 2; }
            "--replay" => { cfg.replay = Some(PathBuf::from(&args[i + 1])); i += 2; }
            other => { eprintln!("unknown argument {other}"); std::process::exit(2); }
        }
    }
    // Panics are observed outcomes; keep stderr quiet.
    std::panic::set_hook(Box::new(|_| {}));
    let start = std::time::Instant::now();
    let mut s = Session::new(&cfg.prop);
    if !props::run(&cfg, &mut s) {
        eprintln!("unknown property {}", cfg.prop);
        std::process::exit(2);
    }
    if let Err(e) = s.finish(&cfg, start) {
        eprintln!("harness i/o error: {e}");
        std::process::exit(3);
    }
}
