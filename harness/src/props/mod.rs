use crate::common::{Config, Session};

pub mod c15;

/// Dispatch to the property's generators; returns false for an unknown id.
pub fn run(cfg: &Config, s: &mut Session) -> bool {
    match cfg.prop.as_str() {
        "C15" => c15::run(cfg, s),
        _ => return false,
    }
    true
}
