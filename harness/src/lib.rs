//! fv-harness: shared plumbing for the per-property correspondence binaries (src/bin/cXX.rs).
//!
//! Each binary drives the real fontations code, records one line-protocol request per case for
//! the property's Lean driver, evaluates model-independent property oracles, and writes a JSON
//! result.  usage: cXX --tier quick|thorough --seed N --driver PATH --out FILE
pub mod common;

use common::{Config, Session};
use std::path::PathBuf;

pub fn main_with(prop: &str, run: fn(&Config, &mut Session)) {
    let args: Vec<String> = std::env::args().collect();
    let lower = prop.to_lowercase();
    let mut cfg = Config {
        prop: prop.to_string(),
        tier: "quick".into(),
        seed: 1,
        driver: PathBuf::from(format!("/verif/lean/.lake/build/bin/drv_{lower}")),
        out: PathBuf::from(format!("/verif/out/{prop}.result.json")),
        replay: None,
    };
    let mut i = 1;
    while i < args.len() {
        match args[i].as_str() {
            "--tier" => { cfg.tier = args[i + 1].clone(); i += 2; }
            "--seed" => { cfg.seed = args[i + 1].parse().unwrap_or(1); i += 2; }
            "--driver" => { cfg.driver = PathBuf::from(&args[i + 1]); i += 2; }
            "--out" => { cfg.out = PathBuf::from(&args[i + 1]); i += 2; }
            "--replay" => { cfg.replay = Some(PathBuf::from(&args[i + 1])); i += 2; }
            other => { eprintln!("unknown argument {other}"); std::process::exit(2); }
        }
    }
    // Panics are observed outcomes; keep stderr quiet.
    let show = std::env::var_os("FV_PANIC_LOC").is_some();
    std::panic::set_hook(Box::new(move |info| {
        if show {
            eprintln!("PANIC at {:?}\n{}", info.location().map(|l| format!("{}:{}", l.file(), l.line())), std::backtrace::Backtrace::force_capture());
        }
    }));
    let start = std::time::Instant::now();
    let mut s = Session::new(&cfg.prop);
    run(&cfg, &mut s);
    if let Err(e) = s.finish(&cfg, start) {
        eprintln!("harness i/o error: {e}");
        std::process::exit(3);
    }
}
