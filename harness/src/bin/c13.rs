//! C13 — colour glyph painting terminates with balanced, correctly nested callbacks.
//!
//! For every case: a COLR table (built with write-fonts from a generated paint graph, or mutated
//! bytes, or a font-test-data font) is
//!  * painted by the REAL `skrifa::color::ColorGlyph::paint` with a recording `ColorPainter`
//!    (overriding `fill_glyph` or not, four `paint_cached_color_glyph` answer policies) in a CHILD
//!    PROCESS with a wall-clock cap (a hang / stack overflow / panic is an observed outcome);
//!  * decompiled, with read-fonts accessors only, into the model's `Instance` (paint id = absolute
//!    position; node shape; lookup tables) and sent to the Lean model (`paint …`);
//!  * judged by model-independent oracles: success ⇒ the recorded stream is LIFO well nested with
//!    matching kinds and composite modes; a reachable cycle ⇒ error; a root path far longer than the
//!    depth limit ⇒ error; termination within the cap; determinism.
use fv_harness::common::*;
use read_fonts::tables::colr as rc;
use read_fonts::types::{BoundingBox, F2Dot14, FWord, Fixed, GlyphId, GlyphId16, Tag, UfWord};
use read_fonts::{FontRef, TableProvider};
use skrifa::color::{
    Brush, ColorGlyphFormat, ColorPainter, CompositeMode, PaintCachedColorGlyph, PaintError, Transform,
};
use skrifa::prelude::{LocationRef, Size};
use skrifa::MetadataProvider;
use std::collections::{BTreeMap, BTreeSet, HashMap};
use std::io::{BufRead, BufReader, Write};
use std::process::{Child, ChildStdin, Command, Stdio};
use std::sync::mpsc::{channel, Receiver, RecvTimeoutError};
use std::sync::Arc;
use std::time::Duration;
use write_fonts::tables::colr as wc;
use write_fonts::FontBuilder;

// ------------------------------------------------------------------------------------------------
// the real code under a recording painter (runs in the child process)
// ------------------------------------------------------------------------------------------------

const EV_CAP: usize = 300_000;
const CLIENT_ERR_GID: u32 = 0x00AB_CDEF;

struct Inner {
    out: String,
    n: usize,
    cm: u8,
    /// print transform matrices (bit patterns) on `T` / `g` tokens (fill-optimisation oracle jobs only)
    mx: bool,
}

fn mx_hex(t: &Transform) -> String {
    [t.xx, t.yx, t.xy, t.yy, t.dx, t.dy].iter().map(|v| format!("{:08x}", v.to_bits())).collect()
}

fn mx_parse(h: &str) -> Option<Transform> {
    if h.len() != 48 {
        return None;
    }
    let f = |i: usize| u32::from_str_radix(&h[i * 8..i * 8 + 8], 16).ok().map(f32::from_bits);
    Some(Transform { xx: f(0)?, yx: f(1)?, xy: f(2)?, yy: f(3)?, dx: f(4)?, dy: f(5)? })
}

impl Inner {
    fn ev(&mut self, t: &str) {
        self.n += 1;
        if self.n <= EV_CAP {
            if !self.out.is_empty() {
                self.out.push(' ');
            }
            self.out.push_str(t);
        }
    }
    fn cached(&mut self, g: GlyphId) -> Result<PaintCachedColorGlyph, PaintError> {
        let g = g.to_u32();
        self.ev(&format!("C{g}"));
        match self.cm {
            0 => Ok(PaintCachedColorGlyph::Unimplemented),
            1 => Ok(PaintCachedColorGlyph::Ok),
            2 => {
                if g % 2 == 0 {
                    Ok(PaintCachedColorGlyph::Ok)
                } else {
                    Ok(PaintCachedColorGlyph::Unimplemented)
                }
            }
            _ => match g % 3 {
                0 => Err(PaintError::GlyphNotFound(GlyphId::new(CLIENT_ERR_GID))),
                1 => Ok(PaintCachedColorGlyph::Ok),
                _ => Ok(PaintCachedColorGlyph::Unimplemented),
            },
        }
    }
}

/// exact integer rendering of an `f32` that holds an integer (font units, raw F2Dot14 bits); anything
/// else is printed as its bit pattern (never equal to a model value: a visible disagreement)
fn fx(v: f32) -> String {
    if v.fract() == 0.0 && v.abs() < 1.0e9 {
        format!("{}", v as i64)
    } else {
        format!("x{:08x}", v.to_bits())
    }
}

/// `[0, palette, alpha·2^14]` / `[kind, extend, #stops]` — the model's `Brush`
fn brush_tok(b: &Brush<'_>) -> String {
    match b {
        Brush::Solid { palette_index, alpha } => format!("0:{}:{}", palette_index, fx(*alpha * 16384.0)),
        Brush::LinearGradient { color_stops, extend, .. } => format!("1:{}:{}", *extend as u8, color_stops.len()),
        Brush::RadialGradient { color_stops, extend, .. } => format!("2:{}:{}", *extend as u8, color_stops.len()),
        Brush::SweepGradient { color_stops, extend, .. } => format!("3:{}:{}", *extend as u8, color_stops.len()),
    }
}

fn box_tok(b: &BoundingBox<f32>) -> String {
    format!("B:{}:{}:{}:{}", fx(b.x_min), fx(b.y_min), fx(b.x_max), fx(b.y_max))
}

/// the stream without clip-box / brush payloads (what the decompiled-instance path models)
fn strip_payloads(resp: &str) -> String {
    resp.split(' ')
        .map(|t| match t.chars().next() {
            Some('B') => "B".to_string(),
            Some('F') => "F".to_string(),
            Some('g') => t.split(':').take(2).collect::<Vec<_>>().join(":"),
            _ => t.to_string(),
        })
        .collect::<Vec<_>>()
        .join(" ")
}

macro_rules! common_methods {
    () => {
        fn push_transform(&mut self, t: Transform) {
            if self.0.mx {
                self.0.ev(&format!("T:{}", mx_hex(&t)))
            } else {
                self.0.ev("T")
            }
        }
        fn pop_transform(&mut self) {
            self.0.ev("t")
        }
        fn push_clip_glyph(&mut self, g: GlyphId) {
            self.0.ev(&format!("G{}", g.to_u32()))
        }
        fn push_clip_box(&mut self, b: BoundingBox<f32>) {
            self.0.ev(&box_tok(&b))
        }
        fn pop_clip(&mut self) {
            self.0.ev("c")
        }
        fn fill(&mut self, b: Brush<'_>) {
            self.0.ev(&format!("F:{}", brush_tok(&b)))
        }
        fn push_layer(&mut self, m: CompositeMode) {
            self.0.ev(&format!("L{}", m as u8))
        }
        fn pop_layer(&mut self) {
            self.0.ev("l?")
        }
        fn pop_layer_with_mode(&mut self, m: CompositeMode) {
            self.0.ev(&format!("l{}", m as u8))
        }
        fn paint_cached_color_glyph(&mut self, g: GlyphId) -> Result<PaintCachedColorGlyph, PaintError> {
            self.0.cached(g)
        }
    };
}

/// client that overrides `fill_glyph`
struct RecFg(Inner);
impl ColorPainter for RecFg {
    common_methods!();
    fn fill_glyph(&mut self, g: GlyphId, bt: Option<Transform>, b: Brush<'_>) {
        if self.0.mx {
            let m = bt.as_ref().map(mx_hex).unwrap_or_else(|| "0".to_string());
            self.0.ev(&format!("g{}:{}:{}", g.to_u32(), m, brush_tok(&b)))
        } else {
            self.0.ev(&format!("g{}:{}:{}", g.to_u32(), bt.is_some() as u8, brush_tok(&b)))
        }
    }
}

/// client that relies on the trait's default `fill_glyph`
struct RecDefault(Inner);
impl ColorPainter for RecDefault {
    common_methods!();
}

fn paint_case(font: &[u8], gid: u32, fg: u8, cm: u8, v0: bool, mx: bool) -> String {
    let Ok(font) = FontRef::new(font) else { return "nofont".into() };
    let fmt = if v0 { ColorGlyphFormat::ColrV0 } else { ColorGlyphFormat::ColrV1 };
    let glyph = match catch(|| font.color_glyphs().get_with_format(GlyphId::new(gid), fmt)) {
        Ok(Some(g)) => g,
        Ok(None) => return "noglyph".into(),
        Err(m) => return format!("panic:{}", m.replace([' ', '\n'], "_")),
    };
    let inner = Inner { out: String::new(), n: 0, cm, mx };
    let (res, inner) = if fg != 0 {
        let mut p = RecFg(inner);
        let r = catch(|| glyph.paint(LocationRef::default(), &mut p));
        (r, p.0)
    } else {
        let mut p = RecDefault(inner);
        let r = catch(|| glyph.paint(LocationRef::default(), &mut p));
        (r, p.0)
    };
    let head = match res {
        Err(m) => format!("panic:{}", m.replace([' ', '\n'], "_")),
        Ok(Ok(())) => "ok".to_string(),
        Ok(Err(PaintError::ParseError(_))) => "err:Parse".to_string(),
        Ok(Err(PaintError::GlyphNotFound(g))) => {
            if g.to_u32() == CLIENT_ERR_GID { "err:Client".to_string() } else { "err:GlyphNotFound".to_string() }
        }
        Ok(Err(PaintError::PaintCycleDetected)) => "err:Cycle".to_string(),
        Ok(Err(PaintError::DepthLimitExceeded)) => "err:Depth".to_string(),
    };
    if inner.n > EV_CAP {
        return format!("{head} overflow:{}", inner.n);
    }
    format!("{head} {}", if inner.out.is_empty() { "-" } else { &inner.out })
}

fn child_main() {
    std::panic::set_hook(Box::new(|_| {}));
    let stdin = std::io::stdin();
    let stdout = std::io::stdout();
    let mut line = String::new();
    loop {
        line.clear();
        match stdin.lock().read_line(&mut line) {
            Ok(0) | Err(_) => return,
            Ok(_) => {}
        }
        let t: Vec<&str> = line.split_whitespace().collect();
        if t.len() != 5 {
            let mut o = stdout.lock();
            let _ = writeln!(o, "bad-request");
            let _ = o.flush();
            continue;
        }
        let font = unhex(t[0]);
        let gid: u32 = t[1].parse().unwrap_or(0);
        let fg: u8 = t[2].parse().unwrap_or(0);
        let cm: u8 = t[3].parse().unwrap_or(0);
        let v0 = t[4] == "1";
        let mx = t[4] == "2";
        let a = paint_case(&font, gid, fg, cm, v0, mx);
        // determinism: painting again gives the identical outcome
        let b = paint_case(&font, gid, fg, cm, v0, mx);
        let mut o = stdout.lock();
        if a == b {
            let _ = writeln!(o, "{a}");
        } else {
            let _ = writeln!(o, "nondeterministic {a} /// {b}");
        }
        let _ = o.flush();
    }
}

// ------------------------------------------------------------------------------------------------
// child-process pool
// ------------------------------------------------------------------------------------------------

#[derive(Clone)]
struct Job {
    font_hex: Arc<String>,
    gid: u32,
    fg: u8,
    cm: u8,
    v0: bool,
    /// v1 with transform matrices printed
    mx: bool,
}

struct Worker {
    child: Child,
    stdin: ChildStdin,
    rx: Receiver<Option<String>>,
}

fn spawn_worker() -> Worker {
    let exe = std::env::current_exe().expect("current_exe");
    let mut child = Command::new(exe)
        .arg("--child")
        .stdin(Stdio::piped())
        .stdout(Stdio::piped())
        .stderr(Stdio::null())
        .spawn()
        .expect("spawn child");
    let stdin = child.stdin.take().unwrap();
    let stdout = child.stdout.take().unwrap();
    let (tx, rx) = channel();
    std::thread::spawn(move || {
        let mut r = BufReader::new(stdout);
        loop {
            let mut l = String::new();
            match r.read_line(&mut l) {
                Ok(0) | Err(_) => {
                    let _ = tx.send(None);
                    return;
                }
                Ok(_) => {
                    if tx.send(Some(l.trim_end().to_string())).is_err() {
                        return;
                    }
                }
            }
        }
    });
    Worker { child, stdin, rx }
}

fn exit_text(child: &mut Child) -> String {
    match child.wait() {
        Ok(st) => {
            #[cfg(unix)]
            {
                use std::os::unix::process::ExitStatusExt;
                if let Some(sig) = st.signal() {
                    return format!("abort:signal{sig}");
                }
            }
            format!("abort:exit{}", st.code().unwrap_or(-1))
        }
        Err(_) => "abort:unknown".into(),
    }
}

fn run_jobs(jobs: &[Job], cap: Duration, nworkers: usize) -> Vec<String> {
    let jobs = Arc::new(jobs.to_vec());
    let mut handles = vec![];
    for w in 0..nworkers {
        let jobs = jobs.clone();
        handles.push(std::thread::spawn(move || {
            let mut out: Vec<(usize, String)> = vec![];
            let mut worker: Option<Worker> = None;
            let mut i = w;
            while i < jobs.len() {
                let j = &jobs[i];
                if worker.is_none() {
                    worker = Some(spawn_worker());
                }
                let wk = worker.as_mut().unwrap();
                let line = format!("{} {} {} {} {}\n", j.font_hex, j.gid, j.fg, j.cm, if j.mx { 2 } else { j.v0 as u8 });
                let wrote = wk.stdin.write_all(line.as_bytes()).and_then(|_| wk.stdin.flush());
                let resp = if wrote.is_err() {
                    let t = exit_text(&mut wk.child);
                    worker = None;
                    t
                } else {
                    match wk.rx.recv_timeout(cap) {
                        Ok(Some(l)) => l,
                        Ok(None) => {
                            let t = exit_text(&mut wk.child);
                            worker = None;
                            t
                        }
                        Err(RecvTimeoutError::Timeout) => {
                            let _ = wk.child.kill();
                            let _ = wk.child.wait();
                            worker = None;
                            "timeout".to_string()
                        }
                        Err(RecvTimeoutError::Disconnected) => {
                            let t = exit_text(&mut wk.child);
                            worker = None;
                            t
                        }
                    }
                };
                out.push((i, resp));
                i += nworkers;
            }
            if let Some(mut wk) = worker {
                drop(wk.stdin);
                let _ = wk.child.wait();
            }
            out
        }));
    }
    let mut res = vec![String::new(); jobs.len()];
    for h in handles {
        for (i, r) in h.join().expect("worker thread") {
            res[i] = r;
        }
    }
    res
}

// ------------------------------------------------------------------------------------------------
// decompiling a COLR table into the model's instance (read-fonts accessors only)
// ------------------------------------------------------------------------------------------------

#[derive(Default, Clone)]
struct Inst {
    /// id -> (kind, a, b, c)
    nodes: BTreeMap<usize, [u64; 4]>,
    layers: BTreeMap<usize, Option<usize>>,
    /// gid -> found(id) / error; not-found gids are absent
    bases: BTreeMap<u32, Option<usize>>,
    clips: BTreeSet<u32>,
}

fn sort_stops(v: &mut [f32]) {
    v.sort_by(|a, b| a.partial_cmp(b).unwrap_or(std::cmp::Ordering::Equal));
}

/// Does the gradient arm of `traverse_with_callbacks` reach its `painter.fill(..)`?  (f32 port of
/// the branch conditions only; default location, so every variation delta is exactly zero.)
fn linear_fills(c: [f32; 6], stops: &mut Vec<f32>, pad: bool) -> bool {
    sort_stops(stops);
    let (p0, p1, p2) = ((c[0], c[1]), (c[2], c[3]), (c[4], c[5]));
    let a = (p1.0 - p0.0, p1.1 - p0.1);
    let b = (p2.0 - p0.0, p2.1 - p0.1);
    let cross = a.0 * b.1 - a.1 * b.0;
    if p1 == p0 || p2 == p0 || cross == 0.0 {
        return !stops.is_empty();
    }
    radial_fills(stops, pad)
}

fn radial_fills(stops: &mut Vec<f32>, pad: bool) -> bool {
    sort_stops(stops);
    let (Some(first), Some(last)) = (stops.first().copied(), stops.last().copied()) else { return false };
    let range = last - first;
    !(range == 0.0 && !pad)
}

fn sweep_fills(sa: f32, ea: f32, stops: &mut Vec<f32>, pad: bool) -> bool {
    sort_stops(stops);
    let start_angle = sa * 180.0 + 180.0;
    let end_angle = ea * 180.0 + 180.0;
    let sector = end_angle - start_angle;
    let (Some(first), Some(last)) = (stops.first().copied(), stops.last().copied()) else { return false };
    let range = last - first;
    let mut s = start_angle + sector * first;
    let mut e = start_angle + sector * last;
    if range == 0.0 && !pad {
        return false;
    }
    s = 360.0 - s;
    e = 360.0 - e;
    if s >= e {
        std::mem::swap(&mut s, &mut e);
    }
    !(s == e && !pad)
}

fn fw(v: FWord) -> f32 {
    v.to_i16() as f32
}
fn ufw(v: UfWord) -> f32 {
    v.to_u16() as f32
}

enum Desc<'a> {
    Layers(usize, usize),
    Leaf(bool),
    Glyph(u32, rc::Paint<'a>),
    ColrGlyph(u32),
    Transform(rc::Paint<'a>),
    Composite(rc::Paint<'a>, u8, rc::Paint<'a>),
}

/// Port of the *shape* of `resolve_paint`: which accessors can fail, which children exist.
fn describe<'a>(p: &rc::Paint<'a>) -> Option<Desc<'a>> {
    use rc::Paint as P;
    macro_rules! stops {
        ($cl:expr) => {{
            let cl = $cl.ok()?;
            let st: Vec<f32> = cl.color_stops().iter().map(|s| s.stop_offset().to_f32()).collect();
            (st, cl.extend() == rc::Extend::Pad)
        }};
    }
    Some(match p {
        P::ColrLayers(l) => Desc::Layers(l.first_layer_index() as usize, l.num_layers() as usize),
        P::Solid(_) | P::VarSolid(_) => Desc::Leaf(true),
        P::LinearGradient(g) => {
            let (mut st, pad) = stops!(g.color_line());
            Desc::Leaf(linear_fills([fw(g.x0()), fw(g.y0()), fw(g.x1()), fw(g.y1()), fw(g.x2()), fw(g.y2())], &mut st, pad))
        }
        P::VarLinearGradient(g) => {
            let (mut st, pad) = stops!(g.color_line());
            Desc::Leaf(linear_fills([fw(g.x0()), fw(g.y0()), fw(g.x1()), fw(g.y1()), fw(g.x2()), fw(g.y2())], &mut st, pad))
        }
        P::RadialGradient(g) => {
            let (mut st, pad) = stops!(g.color_line());
            let _ = (ufw(g.radius0()), ufw(g.radius1()));
            Desc::Leaf(radial_fills(&mut st, pad))
        }
        P::VarRadialGradient(g) => {
            let (mut st, pad) = stops!(g.color_line());
            Desc::Leaf(radial_fills(&mut st, pad))
        }
        P::SweepGradient(g) => {
            let (mut st, pad) = stops!(g.color_line());
            Desc::Leaf(sweep_fills(g.start_angle().to_f32(), g.end_angle().to_f32(), &mut st, pad))
        }
        P::VarSweepGradient(g) => {
            let (mut st, pad) = stops!(g.color_line());
            Desc::Leaf(sweep_fills(g.start_angle().to_f32(), g.end_angle().to_f32(), &mut st, pad))
        }
        P::Glyph(g) => Desc::Glyph(g.glyph_id().to_u32(), g.paint().ok()?),
        P::ColrGlyph(g) => Desc::ColrGlyph(g.glyph_id().to_u32()),
        P::Transform(t) => {
            t.transform().ok()?;
            Desc::Transform(t.paint().ok()?)
        }
        P::VarTransform(t) => {
            t.transform().ok()?;
            Desc::Transform(t.paint().ok()?)
        }
        P::Translate(t) => Desc::Transform(t.paint().ok()?),
        P::VarTranslate(t) => Desc::Transform(t.paint().ok()?),
        P::Scale(t) => Desc::Transform(t.paint().ok()?),
        P::VarScale(t) => Desc::Transform(t.paint().ok()?),
        P::ScaleAroundCenter(t) => Desc::Transform(t.paint().ok()?),
        P::VarScaleAroundCenter(t) => Desc::Transform(t.paint().ok()?),
        P::ScaleUniform(t) => Desc::Transform(t.paint().ok()?),
        P::VarScaleUniform(t) => Desc::Transform(t.paint().ok()?),
        P::ScaleUniformAroundCenter(t) => Desc::Transform(t.paint().ok()?),
        P::VarScaleUniformAroundCenter(t) => Desc::Transform(t.paint().ok()?),
        P::Rotate(t) => Desc::Transform(t.paint().ok()?),
        P::VarRotate(t) => Desc::Transform(t.paint().ok()?),
        P::RotateAroundCenter(t) => Desc::Transform(t.paint().ok()?),
        P::VarRotateAroundCenter(t) => Desc::Transform(t.paint().ok()?),
        P::Skew(t) => Desc::Transform(t.paint().ok()?),
        P::VarSkew(t) => Desc::Transform(t.paint().ok()?),
        P::SkewAroundCenter(t) => Desc::Transform(t.paint().ok()?),
        P::VarSkewAroundCenter(t) => Desc::Transform(t.paint().ok()?),
        P::Composite(c) => {
            let s = c.source_paint().ok()?;
            let b = c.backdrop_paint().ok()?;
            Desc::Composite(s, c.composite_mode() as u8, b)
        }
    })
}

fn extract(colr: &rc::Colr, roots: &[u32]) -> Inst {
    let base_ptr = colr.offset_data().as_bytes().as_ptr() as usize;
    let pid = |p: &rc::Paint| p.offset_data().as_bytes().as_ptr() as usize - base_ptr;
    let mut inst = Inst::default();
    let mut work: Vec<(rc::Paint, usize)> = vec![];
    let mut gids: Vec<u32> = roots.to_vec();
    let mut seen_gid: BTreeSet<u32> = BTreeSet::new();
    let mut failed: BTreeSet<usize> = BTreeSet::new();
    loop {
        if let Some(g) = gids.pop() {
            if !seen_gid.insert(g) {
                continue;
            }
            match colr.v1_base_glyph(GlyphId::new(g)) {
                Ok(Some((p, id))) => {
                    inst.bases.insert(g, Some(id - base_ptr));
                    work.push((p, id - base_ptr));
                    if let Ok(Some(_)) = colr.v1_clip_box(GlyphId::new(g)) {
                        inst.clips.insert(g);
                    }
                }
                Ok(None) => {}
                Err(_) => {
                    inst.bases.insert(g, None);
                }
            }
            continue;
        }
        let Some((p, id)) = work.pop() else { break };
        if inst.nodes.contains_key(&id) || failed.contains(&id) {
            continue;
        }
        match describe(&p) {
            None => {
                failed.insert(id);
            }
            Some(Desc::Layers(first, num)) => {
                inst.nodes.insert(id, [0, first as u64, num as u64, 0]);
                for i in first..first + num {
                    if inst.layers.contains_key(&i) {
                        continue;
                    }
                    match colr.v1_layer(i) {
                        Ok((lp, lid)) => {
                            inst.layers.insert(i, Some(lid - base_ptr));
                            work.push((lp, lid - base_ptr));
                        }
                        Err(_) => {
                            inst.layers.insert(i, None);
                        }
                    }
                }
            }
            Some(Desc::Leaf(f)) => {
                inst.nodes.insert(id, [1, f as u64, 0, 0]);
            }
            Some(Desc::Glyph(g, c)) => {
                inst.nodes.insert(id, [2, g as u64, pid(&c) as u64, 0]);
                let cid = pid(&c);
                work.push((c, cid));
            }
            Some(Desc::ColrGlyph(g)) => {
                inst.nodes.insert(id, [3, g as u64, 0, 0]);
                gids.push(g);
            }
            Some(Desc::Transform(c)) => {
                inst.nodes.insert(id, [4, pid(&c) as u64, 0, 0]);
                let cid = pid(&c);
                work.push((c, cid));
            }
            Some(Desc::Composite(sp, m, bp)) => {
                inst.nodes.insert(id, [5, pid(&sp) as u64, m as u64, pid(&bp) as u64]);
                let (sid, bid) = (pid(&sp), pid(&bp));
                work.push((sp, sid));
                work.push((bp, bid));
            }
        }
    }
    inst
}

impl Inst {
    fn request_tail(&self) -> String {
        let mut v: Vec<String> = vec![];
        v.push(self.nodes.len().to_string());
        for (id, d) in &self.nodes {
            v.push(format!("{} {} {} {} {}", id, d[0], d[1], d[2], d[3]));
        }
        v.push(self.layers.len().to_string());
        for (i, p) in &self.layers {
            v.push(format!("{} {}", i, p.map(|x| x as i64).unwrap_or(-1)));
        }
        v.push(self.bases.len().to_string());
        for (g, p) in &self.bases {
            v.push(format!("{} {}", g, p.map(|x| x as i64).unwrap_or(-1)));
        }
        v.push(self.clips.len().to_string());
        for g in &self.clips {
            v.push(g.to_string());
        }
        v.join(" ")
    }

    fn has_colr_glyph(&self) -> bool {
        self.nodes.values().any(|d| d[0] == 3)
    }

    /// successor node ids of a node (edges the traversal can follow when every lookup succeeds)
    fn succ(&self, id: usize) -> Vec<usize> {
        let Some(d) = self.nodes.get(&id) else { return vec![] };
        let mut out = vec![];
        match d[0] {
            0 => {
                for i in d[1]..d[1] + d[2] {
                    if let Some(Some(p)) = self.layers.get(&(i as usize)) {
                        out.push(*p);
                    }
                }
            }
            2 => out.push(d[2] as usize),
            3 => {
                if let Some(Some(p)) = self.bases.get(&(d[1] as u32)) {
                    out.push(*p);
                }
            }
            4 => out.push(d[1] as usize),
            5 => {
                out.push(d[3] as usize);
                out.push(d[1] as usize);
            }
            _ => {}
        }
        out.retain(|p| self.nodes.contains_key(p));
        out
    }

    /// (a cycle is reachable from `root`, longest path in edges if acyclic)
    fn analyse(&self, root: usize) -> (bool, usize) {
        // iterative DFS with colours; longest path by memo on finished nodes
        let mut colour: HashMap<usize, u8> = HashMap::new();
        let mut longest: HashMap<usize, usize> = HashMap::new();
        let mut cyclic = false;
        if !self.nodes.contains_key(&root) {
            return (false, 0);
        }
        let mut stack: Vec<(usize, Vec<usize>, usize)> = vec![(root, self.succ(root), 0)];
        colour.insert(root, 1);
        while let Some((id, succs, idx)) = stack.last_mut() {
            if *idx < succs.len() {
                let nx = succs[*idx];
                *idx += 1;
                match colour.get(&nx).copied().unwrap_or(0) {
                    0 => {
                        colour.insert(nx, 1);
                        let s = self.succ(nx);
                        stack.push((nx, s, 0));
                    }
                    1 => cyclic = true,
                    _ => {}
                }
            } else {
                let id = *id;
                let best = succs.iter().map(|s| longest.get(s).map(|l| l + 1).unwrap_or(0)).max().unwrap_or(0);
                longest.insert(id, best);
                colour.insert(id, 2);
                stack.pop();
            }
        }
        (cyclic, longest.get(&root).copied().unwrap_or(0))
    }
}

// ------------------------------------------------------------------------------------------------
// oracle: LIFO nesting of a recorded stream
// ------------------------------------------------------------------------------------------------

fn well_nested(events: &str) -> Result<(), String> {
    let mut stack: Vec<String> = vec![];
    if events == "-" {
        return Ok(());
    }
    for (i, t) in events.split(' ').enumerate() {
        let c = t.chars().next().unwrap_or('?');
        match c {
            'T' => stack.push("T".into()),
            'G' | 'B' => stack.push("clip".into()),
            'L' => stack.push(format!("L{}", &t[1..])),
            't' => {
                if stack.pop().as_deref() != Some("T") {
                    return Err(format!("event {i} `{t}`: pop_transform does not match the innermost open scope"));
                }
            }
            'c' => {
                if stack.pop().as_deref() != Some("clip") {
                    return Err(format!("event {i} `{t}`: pop_clip does not match the innermost open scope"));
                }
            }
            'l' => {
                let want = format!("L{}", &t[1..]);
                if stack.pop() != Some(want) {
                    return Err(format!("event {i} `{t}`: pop_layer does not match the innermost open layer/mode"));
                }
            }
            'F' | 'g' | 'C' => {}
            _ => return Err(format!("event {i} `{t}`: unknown")),
        }
    }
    if stack.is_empty() {
        Ok(())
    } else {
        Err(format!("{} scopes left open: {:?}", stack.len(), stack))
    }
}

// ------------------------------------------------------------------------------------------------
// generators
// ------------------------------------------------------------------------------------------------

fn f2(v: f32) -> F2Dot14 {
    F2Dot14::from_f32(v)
}

struct Gen<'a> {
    rng: &'a mut Rng,
    layers: Vec<Option<wc::Paint>>,
    n_gids: u16,
    glyph_cap: u32,
    max_depth: u32,
    budget: i32,
}

const OFFS: [f32; 6] = [0.0, 0.25, 0.5, 1.0, -0.5, 1.5];
const COORDS: [i16; 5] = [0, 0, 100, -50, 7];

impl Gen<'_> {
    fn extend(&mut self) -> wc::Extend {
        *self.rng.pick(&[wc::Extend::Pad, wc::Extend::Repeat, wc::Extend::Reflect])
    }
    fn stops(&mut self) -> Vec<f32> {
        let n = *self.rng.pick(&[0usize, 1, 1, 2, 2, 3]);
        let same = self.rng.chance(1, 3);
        let base = *self.rng.pick(&OFFS);
        (0..n).map(|_| if same { base } else { *self.rng.pick(&OFFS) }).collect()
    }
    fn color_line(&mut self) -> wc::ColorLine {
        let st = self.stops();
        let e = self.extend();
        wc::ColorLine::new(e, st.len() as u16, st.iter().map(|o| wc::ColorStop::new(f2(*o), 1, f2(1.0))).collect())
    }
    fn var_color_line(&mut self) -> wc::VarColorLine {
        let st = self.stops();
        let e = self.extend();
        wc::VarColorLine::new(
            e,
            st.len() as u16,
            st.iter().map(|o| wc::VarColorStop::new(f2(*o), 1, f2(1.0), 0xFFFF_FFFF)).collect(),
        )
    }
    fn c(&mut self) -> FWord {
        FWord::new(*self.rng.pick(&COORDS))
    }
    fn u(&mut self) -> UfWord {
        UfWord::new(*self.rng.pick(&[0u16, 10, 100]))
    }
    fn ang(&mut self) -> F2Dot14 {
        f2(*self.rng.pick(&[0.0f32, 0.0, 0.5, 1.0, -1.0, 0.25]))
    }
    fn leaf(&mut self) -> wc::Paint {
        match self.rng.below(11) {
            0 | 1 | 2 => wc::Paint::solid(self.rng.below(4) as u16, f2(1.0)),
            3 => wc::Paint::var_solid(2, f2(0.5), self.rng.below(3) as u32),
            4 => {
                let cl = self.color_line();
                wc::Paint::linear_gradient(cl, self.c(), self.c(), self.c(), self.c(), self.c(), self.c())
            }
            5 => {
                let cl = self.var_color_line();
                wc::Paint::var_linear_gradient(cl, self.c(), self.c(), self.c(), self.c(), self.c(), self.c(), 0)
            }
            6 => {
                let cl = self.color_line();
                wc::Paint::radial_gradient(cl, self.c(), self.c(), self.u(), self.c(), self.c(), self.u())
            }
            7 => {
                let cl = self.var_color_line();
                wc::Paint::var_radial_gradient(cl, self.c(), self.c(), self.u(), self.c(), self.c(), self.u(), 1)
            }
            8 | 9 => {
                let cl = self.color_line();
                wc::Paint::sweep_gradient(cl, self.c(), self.c(), self.ang(), self.ang())
            }
            _ => {
                let cl = self.var_color_line();
                wc::Paint::var_sweep_gradient(cl, self.c(), self.c(), self.ang(), self.ang(), 2)
            }
        }
    }
    fn transform_of(&mut self, p: wc::Paint) -> wc::Paint {
        let fx = |v: f64| Fixed::from_f64(v);
        let a = f2(0.5);
        let (cx, cy) = (FWord::new(3), FWord::new(-4));
        match self.rng.below(20) {
            0 => wc::Paint::transform(p, wc::Affine2x3::new(fx(1.0), fx(0.0), fx(0.0), fx(1.0), fx(5.0), fx(6.0))),
            1 => wc::Paint::var_transform(p, wc::VarAffine2x3::new(fx(1.0), fx(0.5), fx(0.0), fx(2.0), fx(0.0), fx(0.0), 3)),
            2 => wc::Paint::translate(p, cx, cy),
            3 => wc::Paint::var_translate(p, cx, cy, 1),
            4 => wc::Paint::scale(p, a, a),
            5 => wc::Paint::var_scale(p, a, a, 0),
            6 => wc::Paint::scale_around_center(p, a, a, cx, cy),
            7 => wc::Paint::var_scale_around_center(p, a, a, cx, cy, 0),
            8 => wc::Paint::scale_uniform(p, a),
            9 => wc::Paint::var_scale_uniform(p, a, 0),
            10 => wc::Paint::scale_uniform_around_center(p, a, cx, cy),
            11 => wc::Paint::var_scale_uniform_around_center(p, a, cx, cy, 0),
            12 => wc::Paint::rotate(p, a),
            13 => wc::Paint::var_rotate(p, a, 0),
            14 => wc::Paint::rotate_around_center(p, a, cx, cy),
            15 => wc::Paint::var_rotate_around_center(p, a, cx, cy, 0),
            16 => wc::Paint::skew(p, a, a),
            17 => wc::Paint::var_skew(p, a, a, 0),
            18 => wc::Paint::skew_around_center(p, a, a, cx, cy),
            _ => wc::Paint::var_skew_around_center(p, a, a, cx, cy, 0),
        }
    }
    fn mode(&mut self) -> CompositeMode {
        CompositeMode::new(self.rng.below(28) as u8)
    }
    fn any_gid(&mut self) -> GlyphId16 {
        // existing colour glyphs are 1..=n_gids; 0 and n_gids+1 are not in the base glyph list
        GlyphId16::new(self.rng.below(self.n_gids as u64 + 2) as u16)
    }
    fn paint(&mut self, depth: u32, gnest: u32) -> wc::Paint {
        self.budget -= 1;
        if depth >= self.max_depth || self.budget <= 0 {
            return if self.rng.chance(1, 5) { wc::Paint::colr_glyph(self.any_gid()) } else { self.leaf() };
        }
        match self.rng.below(16) {
            0 | 1 | 2 => self.leaf(),
            3 | 4 => {
                if gnest < self.glyph_cap {
                    let c = self.paint(depth + 1, gnest + 1);
                    wc::Paint::glyph(c, GlyphId16::new(self.rng.below(6) as u16 + 10))
                } else {
                    self.leaf()
                }
            }
            5 | 6 => wc::Paint::colr_glyph(self.any_gid()),
            7 | 8 | 9 => {
                let c = self.paint(depth + 1, gnest);
                self.transform_of(c)
            }
            10 | 11 => {
                let s = self.paint(depth + 1, gnest);
                let b = self.paint(depth + 1, gnest);
                let m = self.mode();
                wc::Paint::composite(s, m, b)
            }
            _ => {
                // colr layers: fresh range / arbitrary (self-, back-, forward-referential) / out of bounds
                match self.rng.below(8) {
                    0 => wc::Paint::colr_layers(self.rng.below(3) as u8, self.rng.below(self.layers.len() as u64 + 2) as u32),
                    1 => wc::Paint::colr_layers(self.rng.below(3) as u8 + 1, self.layers.len() as u32 + 50),
                    _ => {
                        let num = *self.rng.pick(&[0usize, 1, 1, 2, 2, 3]);
                        let first = self.layers.len();
                        for _ in 0..num {
                            self.layers.push(None);
                        }
                        for j in 0..num {
                            let p = self.paint(depth + 1, gnest);
                            self.layers[first + j] = Some(p);
                        }
                        wc::Paint::colr_layers(num as u8, first as u32)
                    }
                }
            }
        }
    }
}

/// clip boxes: ordinary, empty (zero area), inverted, extreme values; static and variable (at the default
/// location the deltas of a ClipBoxFormat2 are zero)
fn clip_box(rng: &mut Rng) -> wc::ClipBox {
    let vals: [i16; 9] = [0, 100, -100, 1, -1, 32767, -32768, 500, 250];
    let (x0, y0, x1, y1) = match rng.below(4) {
        0 => (0, 0, 100, 100),
        1 => {
            let v = *rng.pick(&vals);
            (v, v, v, v)
        }
        _ => (*rng.pick(&vals), *rng.pick(&vals), *rng.pick(&vals), *rng.pick(&vals)),
    };
    if rng.chance(1, 2) {
        wc::ClipBox::format_1(FWord::new(x0), FWord::new(y0), FWord::new(x1), FWord::new(y1))
    } else {
        wc::ClipBox::format_2(FWord::new(x0), FWord::new(y0), FWord::new(x1), FWord::new(y1), *rng.pick(&[0u32, 1, 0xFFFF_FFFF, 0xFFFF_FFFE]))
    }
}

/// a one-glyph COLR table written byte by byte: glyph 1 = one gradient paint of format 4..=9 with an
/// arbitrary extend byte (write-fonts cannot emit `Extend::Unknown`) and arbitrary stops
fn raw_gradient_table(fmt: u8, coords: &[i16], ext: u8, stops: &[(i16, u16, i16)]) -> Vec<u8> {
    let var = fmt % 2 == 1;
    let mut t: Vec<u8> = vec![0, 1, 0, 0, 0, 0, 0, 0, 0, 0, 0, 0, 0, 0];
    t.extend([0, 0, 0, 34]);
    t.extend([0u8; 16]);
    t.extend([0, 0, 0, 1, 0, 1, 0, 0, 0, 10]); // base glyph list @34: gid 1 -> paint @44
    let psize: u32 = match fmt {
        4 => 16,
        5 => 20,
        6 => 16,
        7 => 20,
        8 => 12,
        _ => 16,
    };
    t.push(fmt);
    t.extend(&psize.to_be_bytes()[1..]);
    for c in coords {
        t.extend(c.to_be_bytes());
    }
    if var {
        t.extend(0xFFFF_FFFFu32.to_be_bytes());
    }
    assert_eq!(t.len() as u32, 44 + psize);
    t.push(ext);
    t.extend((stops.len() as u16).to_be_bytes());
    for (o, p, a) in stops {
        t.extend(o.to_be_bytes());
        t.extend(p.to_be_bytes());
        t.extend(a.to_be_bytes());
        if var {
            t.extend(0xFFFF_FFFFu32.to_be_bytes());
        }
    }
    t
}

/// COLR table written byte by byte: glyph 1 = a DAG of `d` PaintComposite tables whose source and backdrop
/// offsets both point at the next paint (8 bytes further), ending in a PaintSolid
fn raw_compdag_table(d: usize) -> Vec<u8> {
    let mut t: Vec<u8> = vec![0, 1, 0, 0, 0, 0, 0, 0, 0, 0, 0, 0, 0, 0];
    t.extend([0, 0, 0, 34]);
    t.extend([0u8; 16]);
    t.extend([0, 0, 0, 1, 0, 1, 0, 0, 0, 10]);
    for _ in 0..d {
        t.extend([32, 0, 0, 8, 3, 0, 0, 8]);
    }
    t.extend([2, 0, 0, 0x40, 0]);
    t
}

/// directed gradient family: every format x extend (incl. unknown bytes) x stop pattern x geometry
fn gen_gradients(rng: &mut Rng, thorough: bool, cases: &mut Vec<Case>) {
    let stop_patterns: Vec<Vec<(i16, u16, i16)>> = vec![
        vec![],
        vec![(0, 1, 16384)],
        vec![(8192, 2, 8192), (8192, 3, 16384)],
        vec![(8192, 2, 8192), (8192, 3, 16384), (8192, 4, 100)],
        vec![(0, 1, 16384), (16384, 2, 16384)],
        vec![(16384, 5, 16384), (0, 6, 4096), (0, 7, 8192)],
        vec![(-8192, 1, 16384), (24576, 2, 0)],
        vec![(1, 8, 16384), (0, 9, 16384)],
        vec![(-32768, 1, 1), (32767, 2, 2), (0, 3, 3)],
    ];
    let linear_geoms: Vec<[i16; 6]> = vec![
        [0, 0, 100, 0, 0, 100],
        [5, 5, 5, 5, 0, 100],       // p1 == p0
        [5, 5, 100, 0, 5, 5],       // p2 == p0
        [0, 0, 10, 10, 20, 20],     // parallel
        [0, 0, 10, 10, -20, -20],   // anti-parallel
        [-15000, -15000, 15001, 15000, 15000, 14999], // cross != 0 exactly, == 0 after f32 rounding of the products
        [-15000, -15000, 15001, 15000, 15000, 15064], // products differ by more than an ulp
        [-32768, -32768, 32767, 32767, 32767, 32766],
        [0, 0, 1, 0, 0, 1],
    ];
    let radial_geoms: Vec<[i16; 6]> = vec![[0, 0, 10, 50, 50, 100], [7, 7, 0, 7, 7, 0]];
    let sweep_geoms: Vec<[i16; 4]> = vec![
        [0, 0, 0, 16384],
        [0, 0, 0, 0],
        [0, 0, 8192, 8192],
        [0, 0, 16384, 0],
        [0, 0, 0, 1],
        [0, 0, -16384, 16384],
        [0, 0, 32767, -32768],
        [0, 0, 5461, 5462],
    ];
    let exts: [u8; 6] = [0, 1, 2, 3, 7, 255];
    let mut n = 0;
    for fmt in 4u8..=9 {
        for ext in exts {
            for st in &stop_patterns {
                let geoms: Vec<Vec<i16>> = match fmt {
                    4 | 5 => linear_geoms.iter().map(|g| g.to_vec()).collect(),
                    6 | 7 => radial_geoms.iter().map(|g| g.to_vec()).collect(),
                    _ => sweep_geoms.iter().map(|g| g.to_vec()).collect(),
                };
                for g in geoms {
                    let colr = raw_gradient_table(fmt, &g, ext, st);
                    cases.push(Case { family: "gradient", label: format!("fmt={fmt} ext={ext} stops={st:?} geom={g:?}"), colr, gids: vec![1] });
                    n += 1;
                }
            }
        }
    }
    // random ones
    for i in 0..(if thorough { 20000 } else { 1500 }) {
        let fmt = 4 + rng.below(6) as u8;
        let ext = *rng.pick(&[0u8, 0, 1, 2, 3, 9]);
        let ns = rng.below(5) as usize;
        let same = rng.chance(1, 3);
        let base = rng.range(-32768, 32767) as i16;
        let st: Vec<(i16, u16, i16)> = (0..ns)
            .map(|_| (if same { base } else { rng.range(-32768, 32767) as i16 }, rng.below(5) as u16, rng.range(0, 16384) as i16))
            .collect();
        let k = if fmt >= 8 { 4 } else { 6 };
        let small = rng.chance(1, 2);
        let g: Vec<i16> = (0..k)
            .map(|_| if small { rng.range(-3, 3) as i16 } else { rng.range(-32768, 32767) as i16 })
            .collect();
        let colr = raw_gradient_table(fmt, &g, ext, &st);
        cases.push(Case { family: "gradient", label: format!("random i={i} fmt={fmt} ext={ext} stops={st:?} geom={g:?}"), colr, gids: vec![1] });
    }
    let _ = n;
}

/// roots: (gid, paint) sorted by gid; clips: gids that get a clip box
fn build_colr(roots: Vec<(u16, wc::Paint)>, layers: Vec<wc::Paint>, clips: &[u16], rng: &mut Rng) -> Option<Vec<u8>> {
    let mut colr = wc::Colr::new(0, None, None, 0);
    let recs: Vec<wc::BaseGlyphPaint> =
        roots.into_iter().map(|(g, p)| wc::BaseGlyphPaint::new(GlyphId16::new(g), p)).collect();
    colr.base_glyph_list = Some(wc::BaseGlyphList::new(recs.len() as u32, recs)).into();
    colr.layer_list = Some(wc::LayerList::new(layers.len() as u32, layers)).into();
    if !clips.is_empty() {
        let mut cs: Vec<u16> = clips.to_vec();
        cs.sort();
        cs.dedup();
        let cl: Vec<wc::Clip> = cs.iter().map(|g| wc::Clip::new(GlyphId16::new(*g), GlyphId16::new(*g), clip_box(rng))).collect();
        colr.clip_list = Some(wc::ClipList::new(1, cl.len() as u32, cl)).into();
    }
    catch(|| write_fonts::dump_table(&colr).ok()).ok().flatten()
}

fn font_of(colr: &[u8]) -> Vec<u8> {
    let mut b = FontBuilder::new();
    b.add_raw(Tag::new(b"COLR"), colr.to_vec());
    b.build()
}

struct Case {
    family: &'static str,
    label: String,
    colr: Vec<u8>,
    gids: Vec<u32>,
}

fn gen_random(rng: &mut Rng, n: usize, cases: &mut Vec<Case>) {
    for i in 0..n {
        let n_gids = rng.range(1, 5) as u16;
        let mut g = Gen { rng, layers: vec![], n_gids, glyph_cap: 3, max_depth: 7, budget: 45 };
        let mut roots = vec![];
        for gid in 1..=n_gids {
            g.budget = 45 / n_gids as i32 + 4;
            roots.push((gid, g.paint(0, 0)));
        }
        let layers: Vec<wc::Paint> =
            g.layers.drain(..).map(|p| p.unwrap_or_else(|| wc::Paint::solid(0, F2Dot14::from_f32(1.0)))).collect();
        let mut clips = vec![];
        for gid in 1..=n_gids {
            if rng.chance(1, 3) {
                clips.push(gid);
            }
        }
        if let Some(colr) = build_colr(roots, layers, &clips, rng) {
            cases.push(Case { family: "random", label: format!("i={i}"), colr, gids: (0..=n_gids as u32 + 1).collect() });
        }
    }
}

/// chain step kinds: T transform, G glyph, L single-layer ColrLayers, C ColrGlyph hop, X composite
/// with the chain in the source, Y composite with the chain in the backdrop
fn build_chain(kinds: &[u8], leaf: wc::Paint, rng: &mut Rng) -> Option<Vec<u8>> {
    // build from the innermost outwards
    let mut layers: Vec<wc::Paint> = vec![];
    let mut roots: Vec<(u16, wc::Paint)> = vec![];
    let mut next_gid: u16 = 60000;
    let mut cur = leaf;
    let solid = || wc::Paint::solid(0, F2Dot14::from_f32(1.0));
    for k in kinds.iter().rev() {
        cur = match k {
            b'T' => wc::Paint::translate(cur, FWord::new(1), FWord::new(2)),
            b'G' => wc::Paint::glyph(cur, GlyphId16::new(10)),
            b'L' => {
                layers.push(cur);
                wc::Paint::colr_layers(1, layers.len() as u32 - 1)
            }
            b'C' => {
                roots.push((next_gid, cur));
                next_gid -= 1;
                wc::Paint::colr_glyph(GlyphId16::new(next_gid + 1))
            }
            b'X' => wc::Paint::composite(cur, CompositeMode::Multiply, solid()),
            _ => wc::Paint::composite(solid(), CompositeMode::Xor, cur),
        };
    }
    roots.push((1, cur));
    roots.sort_by_key(|r| r.0);
    build_colr(roots, layers, &[], rng)
}

fn gen_chains(rng: &mut Rng, thorough: bool, cases: &mut Vec<Case>) {
    let lens: Vec<usize> = vec![1, 2, 31, 32, 33, 58, 60, 61, 62, 63, 64, 65, 66, 67, 68, 72, 80];
    let pure: [&[u8]; 5] = [b"T", b"L", b"C", b"X", b"Y"];
    for len in &lens {
        for p in pure {
            let kinds: Vec<u8> = (0..*len).map(|_| p[0]).collect();
            for leaf_kind in 0..2 {
                let leaf = if leaf_kind == 0 { wc::Paint::solid(0, F2Dot14::from_f32(1.0)) } else { wc::Paint::colr_glyph(GlyphId16::new(7)) };
                if let Some(colr) = build_chain(&kinds, leaf, rng) {
                    cases.push(Case { family: "chain", label: format!("kind={} len={len} leaf={leaf_kind}", p[0] as char), colr, gids: vec![1] });
                }
            }
        }
        // mixed chains with at most 10 PaintGlyph steps (each nested PaintGlyph doubles the work)
        let reps = if thorough { 12 } else { 3 };
        for r in 0..reps {
            let mut glyphs = 0;
            let kinds: Vec<u8> = (0..*len)
                .map(|_| {
                    let k = *rng.pick(b"TTLLCCXYG");
                    if k == b'G' {
                        glyphs += 1;
                        if glyphs > 10 {
                            return b'T';
                        }
                    }
                    k
                })
                .collect();
            if let Some(colr) = build_chain(&kinds, wc::Paint::solid(0, F2Dot14::from_f32(1.0)), rng) {
                cases.push(Case { family: "chain-mixed", label: format!("len={len} r={r} kinds={}", String::from_utf8_lossy(&kinds)), colr, gids: vec![1] });
            }
        }
    }
}

fn gen_cycles(rng: &mut Rng, cases: &mut Vec<Case>) {
    let solid = || wc::Paint::solid(0, F2Dot14::from_f32(1.0));
    // ColrGlyph cycles: tail t, cycle length c; optional transform between hops; optional sibling leaf
    for c in 1..=40u16 {
        for t in [0u16, 1, 2, 5] {
            for variant in 0..3 {
                let total = t + c;
                let mut roots = vec![];
                let mut layers = vec![];
                for i in 0..total {
                    let gid = 1 + i;
                    let next = if i + 1 < total { gid + 1 } else { 1 + t };
                    let hop = wc::Paint::colr_glyph(GlyphId16::new(next));
                    let p = match variant {
                        0 => hop,
                        1 => wc::Paint::translate(hop, FWord::new(1), FWord::new(1)),
                        _ => {
                            layers.push(solid());
                            layers.push(hop);
                            wc::Paint::colr_layers(2, layers.len() as u32 - 2)
                        }
                    };
                    roots.push((gid, p));
                }
                let clips: Vec<u16> = if rng.chance(1, 4) { vec![1, 1 + t] } else { vec![] };
                if let Some(colr) = build_colr(roots, layers, &clips, rng) {
                    cases.push(Case { family: "cycle-colrglyph", label: format!("c={c} t={t} v={variant}"), colr, gids: vec![1] });
                }
            }
        }
    }
    // layer cycles: layer i is ColrLayers(1, next(i)); tail + cycle
    for c in 1..=36usize {
        for t in [0usize, 1, 3] {
            let total = t + c;
            let mut layers = vec![];
            for i in 0..total {
                let next = if i + 1 < total { i + 1 } else { t };
                layers.push(wc::Paint::colr_layers(1, next as u32));
            }
            let roots = vec![(1u16, wc::Paint::colr_layers(1, 0))];
            if let Some(colr) = build_colr(roots, layers, &[], rng) {
                cases.push(Case { family: "cycle-layers", label: format!("c={c} t={t}"), colr, gids: vec![1] });
            }
        }
    }
    // a layer list whose range contains the ColrLayers paint itself, after some ordinary layers
    for pre in 0..3usize {
        let mut layers = vec![];
        for _ in 0..pre {
            layers.push(solid());
        }
        layers.push(wc::Paint::colr_layers((pre + 1) as u8, 0));
        let roots = vec![(1u16, wc::Paint::glyph(wc::Paint::colr_layers((pre + 1) as u8, 0), GlyphId16::new(9)))];
        if let Some(colr) = build_colr(roots, layers, &[1], rng) {
            cases.push(Case { family: "cycle-layers", label: format!("self-range pre={pre}"), colr, gids: vec![1] });
        }
    }
}

/// every paint tree up to `max_size` constructors over a small alphabet (optimiser paths)
fn gen_small_trees(max_size: usize, rng: &mut Rng, cases: &mut Vec<Case>) {
    #[derive(Clone)]
    enum T {
        Solid,
        NoFill,
        Ref(u16),
        Tr(Box<T>),
        Gl(Box<T>),
        L1(Box<T>),
        L2(Box<T>, Box<T>),
        X(Box<T>, Box<T>),
    }
    let mut by_size: Vec<Vec<T>> = vec![vec![], vec![T::Solid, T::NoFill, T::Ref(2), T::Ref(3)]];
    for n in 2..=max_size {
        let mut v = vec![];
        for t in &by_size[n - 1] {
            v.push(T::Tr(Box::new(t.clone())));
            v.push(T::Gl(Box::new(t.clone())));
            v.push(T::L1(Box::new(t.clone())));
        }
        for a in 1..n - 1 {
            let b = n - 1 - a;
            if b < 1 {
                continue;
            }
            for x in &by_size[a] {
                for y in &by_size[b] {
                    v.push(T::L2(Box::new(x.clone()), Box::new(y.clone())));
                    v.push(T::X(Box::new(x.clone()), Box::new(y.clone())));
                }
            }
        }
        by_size.push(v);
    }
    fn show(t: &T) -> String {
        match t {
            T::Solid => "S".into(),
            T::NoFill => "N".into(),
            T::Ref(g) => format!("C{g}"),
            T::Tr(a) => format!("T({})", show(a)),
            T::Gl(a) => format!("G({})", show(a)),
            T::L1(a) => format!("L[{}]", show(a)),
            T::L2(a, b) => format!("L[{},{}]", show(a), show(b)),
            T::X(a, b) => format!("X({},{})", show(a), show(b)),
        }
    }
    fn build(t: &T, layers: &mut Vec<wc::Paint>) -> wc::Paint {
        match t {
            T::Solid => wc::Paint::solid(1, F2Dot14::from_f32(1.0)),
            T::NoFill => wc::Paint::sweep_gradient(wc::ColorLine::new(wc::Extend::Pad, 0, vec![]), FWord::new(0), FWord::new(0), F2Dot14::from_f32(0.0), F2Dot14::from_f32(1.0)),
            T::Ref(g) => wc::Paint::colr_glyph(GlyphId16::new(*g)),
            T::Tr(a) => {
                let c = build(a, layers);
                // distinct matrices per transform paint (products are order sensitive)
                match show(a).len() % 3 {
                    0 => wc::Paint::rotate(c, F2Dot14::from_f32(0.25)),
                    1 => wc::Paint::translate(c, FWord::new(10), FWord::new(-3)),
                    _ => wc::Paint::scale(c, F2Dot14::from_f32(0.5), F2Dot14::from_f32(1.5)),
                }
            }
            T::Gl(a) => wc::Paint::glyph(build(a, layers), GlyphId16::new(20)),
            T::L1(a) => {
                let p = build(a, layers);
                layers.push(p);
                wc::Paint::colr_layers(1, layers.len() as u32 - 1)
            }
            T::L2(a, b) => {
                let p = build(a, layers);
                let q = build(b, layers);
                layers.push(p);
                layers.push(q);
                wc::Paint::colr_layers(2, layers.len() as u32 - 2)
            }
            T::X(a, b) => wc::Paint::composite(build(a, layers), CompositeMode::Plus, build(b, layers)),
        }
    }
    for (n, trees) in by_size.iter().enumerate() {
        for t in trees {
            let mut layers = vec![];
            let root = build(t, &mut layers);
            // gid 2: plain solid colour glyph without clip box; gid 3: transform(solid) with clip box
            let mut roots = vec![
                (1u16, root),
                (2u16, wc::Paint::solid(2, F2Dot14::from_f32(1.0))),
                (3u16, wc::Paint::translate(wc::Paint::solid(3, F2Dot14::from_f32(1.0)), FWord::new(1), FWord::new(1))),
            ];
            // glyph 4: the child subtree of a top-level PaintGlyph on its own (reference for the
            // fill_glyph-optimisation oracle)
            if let T::Gl(a) = t {
                let sub = build(a, &mut layers);
                roots.push((4u16, sub));
            }
            if let Some(colr) = build_colr(roots, layers, &[3], rng) {
                cases.push(Case { family: "small-trees", label: format!("size={n} tree={}", show(t)), colr, gids: vec![1] });
            }
        }
    }
}

fn gen_mutations(rng: &mut Rng, base: &[Case], n: usize, out: &mut Vec<Case>) {
    if base.is_empty() {
        return;
    }
    for i in 0..n {
        let b = &base[rng.below(base.len() as u64) as usize];
        let mut colr = b.colr.clone();
        if colr.len() < 40 {
            continue;
        }
        let k = rng.range(1, 3);
        for _ in 0..k {
            let pos = rng.below(colr.len() as u64) as usize;
            match rng.below(5) {
                0 => colr[pos] = rng.next() as u8,
                1 => colr[pos] = 0,
                2 => colr[pos] = colr[pos].wrapping_add(1),
                3 => colr[pos] = colr[pos].wrapping_sub(1),
                _ => colr[pos] = *rng.pick(&[1u8, 2, 10, 11, 12, 32, 33, 0xFF]),
            }
        }
        if rng.chance(1, 8) {
            let cut = rng.range(20, colr.len() as i64) as usize;
            colr.truncate(cut);
        }
        out.push(Case { family: "mutated", label: format!("i={i} of {}:{}", b.family, b.label), colr, gids: b.gids.clone() });
    }
}

// ------------------------------------------------------------------------------------------------
// COLR v0
// ------------------------------------------------------------------------------------------------

fn run_v0(rng: &mut Rng, n: usize, s: &mut Session, cap: Duration) {
    let mut jobs = vec![];
    let mut metas = vec![];
    for i in 0..n {
        let n_layers = rng.below(8) as usize;
        let layers: Vec<wc::Layer> = (0..n_layers).map(|_| wc::Layer::new(GlyphId16::new(rng.below(50) as u16), rng.below(4) as u16)).collect();
        let n_base = rng.range(1, 4) as u16;
        let bases: Vec<wc::BaseGlyph> = (1..=n_base)
            .map(|g| {
                let first = rng.below(n_layers as u64 + 3) as u16;
                let num = rng.below(5) as u16;
                wc::BaseGlyph::new(GlyphId16::new(g), first, num)
            })
            .collect();
        let ranges: Vec<(u16, u16, u16)> = bases.iter().map(|b| (b.glyph_id.to_u16(), b.first_layer_index, b.num_layers)).collect();
        let layer_gids: Vec<u16> = layers.iter().map(|l| l.glyph_id.to_u16()).collect();
        let colr = wc::Colr::new(n_base, Some(bases), Some(layers), n_layers as u16);
        let Some(bytes) = catch(|| write_fonts::dump_table(&colr).ok()).ok().flatten() else { continue };
        let font = Arc::new(hex(&font_of(&bytes)));
        for (g, first, num) in ranges {
            for fg in 0..2u8 {
                jobs.push(Job { font_hex: font.clone(), gid: g as u32, fg, cm: 0, v0: true, mx: false });
                // the model's layer table: what Colr::v0_layer answers, re-read from the compiled bytes
                let f = font_of(&bytes);
                let fr = FontRef::new(&f).unwrap();
                let c = fr.colr().unwrap();
                let mut tbl = vec![];
                for idx in first as usize..first as usize + num as usize {
                    match c.v0_layer(idx) {
                        Ok((lg, _)) => tbl.push(format!("{idx} {}", lg.to_u16())),
                        Err(_) => tbl.push(format!("{idx} -1")),
                    }
                }
                let range_ok = c.v0_base_glyph(GlyphId::new(g as u32)).ok().flatten() == Some(first as usize..first as usize + num as usize);
                metas.push((i, g, fg, first, num, tbl, range_ok, layer_gids.len(), hex(&bytes)));
            }
        }
    }
    let resps = run_jobs(&jobs, cap, 8);
    for (m, r) in metas.iter().zip(resps.iter()) {
        let (i, g, fg, first, num, tbl, range_ok, nl, colr_hex) = m;
        let input = || format!("family=v0 i={i} gid={g} fg={fg} first={first} num={num} layers={nl} colr={colr_hex}");
        s.oracle("v0-base-glyph-range-as-written", *range_ok, input, || "v0_base_glyph range differs from the record".into());
        s.case("v0", format!("v0 {fg} {first} {num} {} {}", tbl.len(), tbl.join(" ")), strip_payloads(r));
        s.case("bytes:v0", format!("v0.bytes {colr_hex} {fg} {g}"), r.clone());
        if *fg == 0 {
            let f = font_of(&unhex(colr_hex));
            let bb = catch(|| {
                FontRef::new(&f).ok().and_then(|fr| {
                    fr.color_glyphs()
                        .get_with_format(GlyphId::new(*g as u32), ColorGlyphFormat::ColrV0)
                        .map(|gl| gl.bounding_box(LocationRef::default(), Size::unscaled()))
                })
            });
            let bb_resp = match &bb {
                Ok(None) => "noglyph".to_string(),
                Ok(Some(None)) => "none".to_string(),
                Ok(Some(Some(b))) => box_tok(b),
                Err(m) => format!("panic:{}", m.replace([' ', '\n'], "_")),
            };
            s.oracle("v0-bounding_box-is-none-and-does-not-panic", bb_resp == "none" || bb_resp == "noglyph", input, || bb_resp.clone());
            s.case("bytes:bbox", format!("bbox.bytes {colr_hex} {g} 1"), bb_resp);
        }
        judge_common(s, r, &input);
        s.count(&format!("v0:result:{}", r.split(' ').next().unwrap_or("")));
        let oob = *num > 0 && *first as usize + *num as usize > *nl;
        if oob {
            s.count("v0:range-out-of-bounds");
            s.oracle("v0-out-of-bounds-layer-is-error", r.starts_with("err:Parse"), input, || r.clone());
        }
    }
}

/// INFORMATIONAL (beyond the property: C13 speaks about termination and nesting, not about what is
/// drawn) — never an oracle, never a VIOLATION / KNOWN-FINDING line.  Counts, on the real code, how often the
/// `fill_glyph` optimisation forwards a different brush transform than the un-optimised traversal would
/// apply (theorem `C13Fill.fill_glyph_optimisation_sound` and its counterexamples): for every small tree
/// `G(X)`, glyph 1 = PaintGlyph(20, X) painted by a client that overrides `fill_glyph` is compared with
/// glyph 4 = X on its own: per fill the same brush and bt = product of the transforms open at that fill.
fn run_fillopt(cases: &[Case], s: &mut Session, cap: Duration) {
    let mut jobs = vec![];
    let mut idx = vec![];
    for (ci, c) in cases.iter().enumerate() {
        if c.family != "small-trees" || !c.label.contains("tree=G(") {
            continue;
        }
        let font = Arc::new(hex(&font_of(&c.colr)));
        jobs.push(Job { font_hex: font.clone(), gid: 1, fg: 1, cm: 0, v0: false, mx: true });
        jobs.push(Job { font_hex: font, gid: 4, fg: 1, cm: 0, v0: false, mx: true });
        idx.push(ci);
    }
    let resps = run_jobs(&jobs, cap, 8);
    let mut noted = false;
    for (k, ci) in idx.iter().enumerate() {
        let (opt, rf) = (&resps[2 * k], &resps[2 * k + 1]);
        let c = &cases[*ci];
        if !opt.starts_with("ok ") || !rf.starts_with("ok ") {
            s.count("fillopt:skipped-not-ok");
            continue;
        }
        let ot: Vec<&str> = opt.split(' ').skip(1).filter(|t| *t != "-").collect();
        let rt: Vec<&str> = rf.split(' ').skip(1).filter(|t| *t != "-").collect();
        let accepted = ot.iter().all(|t| t.starts_with('g'));
        let plain = rt.iter().all(|t| t.starts_with('T') || *t == "t" || t.starts_with('F'));
        if !accepted || !plain {
            s.count("fillopt:skipped-not-accepted");
            continue;
        }
        // reference draws
        let mut stack: Vec<Transform> = vec![];
        let mut popped = false;
        let mut after_pop = false;
        let mut ref_draws: Vec<(Option<String>, String)> = vec![];
        for t in &rt {
            if let Some(h) = t.strip_prefix("T:") {
                if popped {
                    after_pop = true;
                }
                if let Some(m) = mx_parse(h) {
                    stack.push(m);
                }
            } else if *t == "t" {
                stack.pop();
                popped = true;
            } else if let Some(b) = t.strip_prefix("F:") {
                if popped {
                    after_pop = true;
                }
                let prod = stack.iter().copied().reduce(|a, b| a * b).map(|m| mx_hex(&m));
                ref_draws.push((prod, b.to_string()));
            }
        }
        let opt_draws: Vec<(Option<String>, String)> = ot
            .iter()
            .map(|t| {
                let mut it = t.splitn(3, ':');
                let _g = it.next();
                let m = it.next().unwrap_or("0");
                let b = it.next().unwrap_or("");
                (if m == "0" { None } else { Some(m.to_string()) }, b.to_string())
            })
            .collect();
        let sig = if after_pop { "brush-transform-survives-pop_transform" } else { "pops-last" };
        s.count(&format!("fillopt:checked:{sig}"));
        if ref_draws != opt_draws {
            s.count("info:fill_glyph brush transform differs from unoptimised traversal");
            s.count(&format!("info:fill_glyph brush transform differs: {sig}"));
            if !noted {
                noted = true;
                s.notes.push(format!(
                    "info (outside the property): fill_glyph optimisation forwards a stale brush transform: {} colr={} /// PaintGlyph(20, X) optimised: {opt} /// X on its own (glyph 4): {rf}",
                    c.label,
                    hex(&c.colr)
                ));
            }
        }
    }
}

/// oracles that apply to every outcome
fn judge_common(s: &mut Session, resp: &str, input: &dyn Fn() -> String) {
    let head = resp.split(' ').next().unwrap_or("");
    let terminated = !(head == "timeout" || head.starts_with("abort:") || head.starts_with("panic:") || head == "bad-request");
    s.oracle("paint-terminates-without-panic-abort-or-timeout", terminated, input, || resp.chars().take(300).collect());
    s.oracle("paint-is-deterministic", head != "nondeterministic", input, || resp.chars().take(300).collect());
    if head == "ok" {
        let evs = resp.splitn(2, ' ').nth(1).unwrap_or("-");
        if !evs.starts_with("overflow:") {
            let wn = well_nested(evs);
            s.oracle("ok-implies-callbacks-well-nested-LIFO-matching-kinds", wn.is_ok(), input, || {
                format!("{}; stream: {}", wn.clone().err().unwrap_or_default(), evs.chars().take(400).collect::<String>())
            });
        }
    }
}

// ------------------------------------------------------------------------------------------------

/// slack over MAX_TRAVERSAL_DEPTH (64) beyond which a graph is "too deep" whatever the exact limit
const TOO_DEEP_EDGES: usize = 72;

fn run(cfg: &Config, s: &mut Session) {
    let mut rng = Rng::new(cfg.seed);
    let thorough = cfg.thorough();
    let cap = Duration::from_secs(if thorough { 30 } else { 20 });
    let mut cases: Vec<Case> = vec![];

    gen_small_trees(if thorough { 6 } else { 5 }, &mut rng, &mut cases);
    gen_chains(&mut rng, thorough, &mut cases);
    gen_cycles(&mut rng, &mut cases);
    gen_gradients(&mut rng, thorough, &mut cases);
    gen_random(&mut rng, if thorough { 60000 } else { 5000 }, &mut cases);
    let mut mutated = vec![];
    gen_mutations(&mut rng, &cases, if thorough { 60000 } else { 5000 }, &mut mutated);
    cases.extend(mutated);

    // font-test-data fonts: every glyph id with a v1 base glyph
    let mut test_fonts: Vec<(&'static str, Vec<u8>, Vec<u32>)> = vec![];
    for (name, data) in [
        ("COLRV0V1", font_test_data::COLRV0V1),
        ("COLRV0V1_VARIABLE", font_test_data::COLRV0V1_VARIABLE),
        ("COLRV1_NO_CLIPLIST", font_test_data::COLRV1_NO_CLIPLIST),
    ] {
        if let Ok(f) = FontRef::new(data) {
            if let Ok(colr) = f.colr() {
                let mut gids = vec![];
                if let Some(Ok(l)) = colr.base_glyph_list() {
                    for r in l.base_glyph_paint_records() {
                        gids.push(r.glyph_id().to_u32());
                    }
                }
                test_fonts.push((name, data.to_vec(), gids));
            }
        }
    }

    // ---- jobs ---------------------------------------------------------------------------------
    struct Meta {
        case: usize,
        gid: u32,
        fg: u8,
        cm: u8,
        req_tail: Arc<String>,
        cyclic: bool,
        longest: usize,
        has_cg: bool,
    }
    let mut jobs: Vec<Job> = vec![];
    let mut metas: Vec<Meta> = vec![];
    let mut fonts: Vec<Vec<u8>> = vec![];
    let mut labels: Vec<(&'static str, String, String)> = vec![];
    for c in &cases {
        fonts.push(font_of(&c.colr));
        labels.push((c.family, c.label.clone(), hex(&c.colr)));
    }
    let n_generated = cases.len();
    // COLR table bytes per font (the byte-level model is evaluated from these alone)
    let mut colr_bytes: Vec<Arc<String>> = cases.iter().map(|c| Arc::new(hex(&c.colr))).collect();
    for (name, data, _) in &test_fonts {
        fonts.push(data.clone());
        labels.push(("test-font", name.to_string(), format!("font_test_data::{name}")));
        let tb = FontRef::new(data).ok().and_then(|f| f.table_data(Tag::new(b"COLR")).map(|d| d.as_bytes().to_vec())).unwrap_or_default();
        colr_bytes.push(Arc::new(hex(&tb)));
    }
    for (ci, font) in fonts.iter().enumerate() {
        let gids: Vec<u32> = if ci < n_generated { cases[ci].gids.clone() } else { test_fonts[ci - n_generated].2.clone() };
        let family = labels[ci].0;
        let Ok(fr) = FontRef::new(font) else {
            s.count("font:unparsable");
            continue;
        };
        let colr = match catch(|| fr.colr()) {
            Ok(Ok(c)) => c,
            Ok(Err(_)) => {
                s.count(&format!("{family}:colr-header-unreadable"));
                continue;
            }
            Err(m) => {
                let l = &labels[ci];
                s.oracle("read-fonts-colr-does-not-panic", false, || format!("family={} {} colr={}", l.0, l.1, l.2), || m.clone());
                continue;
            }
        };
        let font_hex = Arc::new(hex(font));
        for gid in gids {
            let inst = match catch(|| extract(&colr, &[gid])) {
                Ok(i) => i,
                Err(m) => {
                    let l = &labels[ci];
                    s.oracle("read-fonts-colr-accessors-do-not-panic", false, || format!("family={} {} gid={gid} colr={}", l.0, l.1, l.2), || m.clone());
                    continue;
                }
            };
            // `ColorGlyph::bounding_box` (no traversal: evaluated in this process) against the byte-level model
            let bb = catch(|| {
                fr.color_glyphs()
                    .get_with_format(GlyphId::new(gid), ColorGlyphFormat::ColrV1)
                    .map(|g| g.bounding_box(LocationRef::default(), Size::unscaled()))
            });
            let bb_resp = match &bb {
                Ok(None) => "noglyph".to_string(),
                Ok(Some(None)) => "none".to_string(),
                Ok(Some(Some(b))) => box_tok(b),
                Err(m) => format!("panic:{}", m.replace([' ', '\n'], "_")),
            };
            if family != "test-font" || gid % 9 == 0 {
                s.case("bytes:bbox", format!("bbox.bytes {} {} 0", colr_bytes[ci], gid), bb_resp.clone());
            }
            {
                let l = &labels[ci];
                s.oracle("bounding_box-does-not-panic", bb.is_ok(), || format!("family={} {} gid={gid} colr={}", l.0, l.1, l.2), || bb_resp.clone());
            }
            let root = inst.bases.get(&gid).copied().flatten();
            let (cyclic, longest) = match root {
                Some(r) => inst.analyse(r),
                None => (false, 0),
            };
            let has_cg = inst.has_colr_glyph();
            let tail = Arc::new(inst.request_tail());
            let mut combos: Vec<(u8, u8)> = vec![(1, 0), (0, 0)];
            if has_cg {
                combos.extend([(1, 1), (0, 2), (1, 3), (0, 3)]);
            }
            if family == "chain" || family == "cycle-colrglyph" || family == "cycle-layers" {
                combos.truncate(if has_cg { 3 } else { 1 });
            }
            for (fg, cm) in combos {
                jobs.push(Job { font_hex: font_hex.clone(), gid, fg, cm, v0: false, mx: false });
                metas.push(Meta { case: ci, gid, fg, cm, req_tail: tail.clone(), cyclic, longest, has_cg });
            }
        }
    }
    s.notes.push(format!("{} fonts, {} paint jobs in child processes (cap {}s each)", fonts.len(), jobs.len(), cap.as_secs()));
    let resps = run_jobs(&jobs, cap, 12);

    for (m, r) in metas.iter().zip(resps.iter()) {
        let (family, label, colr_hex) = &labels[m.case];
        let input = || format!("family={family} {label} gid={} fg={} cm={} colr={colr_hex}", m.gid, m.fg, m.cm);
        let head = r.split(' ').next().unwrap_or("").to_string();
        s.case(
            match *family {
                "small-trees" => "paint:small-trees",
                "chain" => "paint:chain",
                "chain-mixed" => "paint:chain-mixed",
                "cycle-colrglyph" => "paint:cycle-colrglyph",
                "cycle-layers" => "paint:cycle-layers",
                "random" => "paint:random",
                "gradient" => "paint:gradient",
                "mutated" => "paint:mutated",
                _ => "paint:test-font",
            },
            format!("paint {} {} {} {}", m.fg, m.cm, m.gid, m.req_tail),
            strip_payloads(r),
        );
        // byte-level model: the whole paint evaluated by Lean from the COLR table bytes alone (no
        // harness-side decompilation).  The big test-font tables are sampled (list-backed byte reads).
        let bytes_path = *family != "test-font" || m.gid % 9 == 0;
        if bytes_path {
            s.case(
                match *family {
                    "small-trees" => "bytes:small-trees",
                    "chain" => "bytes:chain",
                    "chain-mixed" => "bytes:chain-mixed",
                    "cycle-colrglyph" => "bytes:cycle-colrglyph",
                    "cycle-layers" => "bytes:cycle-layers",
                    "random" => "bytes:random",
                    "gradient" => "bytes:gradient",
                    "mutated" => "bytes:mutated",
                    _ => "bytes:test-font",
                },
                format!("paint.bytes {} {} {} {}", colr_bytes[m.case], m.fg, m.cm, m.gid),
                r.clone(),
            );
        }
        judge_common(s, r, &input);
        s.count(&format!("{family}:result:{head}"));
        s.count(&format!("client:fg={} cm={}", m.fg, m.cm));
        if m.has_cg {
            s.count("graph:has-colrglyph");
        }
        let painted = head == "ok" || head.starts_with("err:");
        if m.cyclic {
            s.count(&format!("{family}:graph-cyclic"));
            if m.cm == 0 && painted {
                s.oracle("reachable-cycle-is-reported-as-error", head.starts_with("err:"), input, || r.chars().take(200).collect());
            }
        } else {
            let bucket = match m.longest {
                0..=9 => "0-9",
                10..=59 => "10-59",
                60..=62 => "60-62",
                63 => "63",
                64 => "64",
                65..=71 => "65-71",
                _ => "72+",
            };
            s.count(&format!("{family}:acyclic-longest-path:{bucket}"));
            if m.longest >= TOO_DEEP_EDGES && m.cm == 0 && painted {
                s.oracle("too-deep-graph-is-reported-as-error", head.starts_with("err:"), input, || r.chars().take(200).collect());
            }
        }
        if *family == "gradient" && m.fg == 1 {
            // which way the gradient arm went, as seen on the real stream
            let ev = r.split(' ').nth(1).unwrap_or("-");
            let fmt = label.split("fmt=").nth(1).and_then(|x| x.split(' ').next()).unwrap_or("?");
            let ext = label.split("ext=").nth(1).and_then(|x| x.split(' ').next()).unwrap_or("?");
            let kind = if ev == "-" { "no-fill".to_string() } else { format!("fill-kind-{}", ev.split(':').nth(1).unwrap_or("?")) };
            s.count(&format!("gradient:fmt={fmt}:ext={}:{kind}", if ext.parse::<u32>().unwrap_or(9) > 2 { "unknown" } else { ext }));
            // seed C20-7's condition: Unknown extend and zero stop range must not reach fill
        }
        if head == "ok" {
            let n_ev = r.split(' ').count() - 1;
            let b = match n_ev {
                0..=1 => "0-1",
                2..=9 => "2-9",
                10..=99 => "10-99",
                _ => "100+",
            };
            s.count(&format!("ok-stream-length:{b}"));
            if r.contains(" g") {
                s.count("ok-stream:has-fill_glyph");
            }
            if r.contains(" B") {
                s.count("ok-stream:has-clip-box");
            }
            if r.contains(" C") {
                s.count("ok-stream:has-cached-query");
            }
        }
    }

    run_fillopt(&cases, s, cap);
    run_v0(&mut rng, if thorough { 3000 } else { 400 }, s, cap);
    run_blowup(&mut rng, s, thorough);
}

/// DESIGN §6-7 / theorem `glyph_chain_visits`: a tree-shaped chain of d nested PaintGlyph tables
/// costs 3·2^(d-1)−1 node visits.  Small depths are timed (the doubling is reported in the notes);
/// one depth far beyond any practical budget is run against the wall-clock cap.
fn run_blowup(rng: &mut Rng, s: &mut Session, thorough: bool) {
    let solid = wc::Paint::solid(0, F2Dot14::from_f32(1.0));
    let mut timings = vec![];
    for d in [14usize, 16, 18, 20] {
        let kinds: Vec<u8> = vec![b'G'; d];
        let Some(colr) = build_chain(&kinds, solid.clone(), rng) else { continue };
        let font = Arc::new(hex(&font_of(&colr)));
        let t = std::time::Instant::now();
        let r = run_jobs(&[Job { font_hex: font, gid: 1, fg: 1, cm: 0, v0: false, mx: false }], Duration::from_secs(60), 1);
        // the child paints twice (determinism check)
        timings.push(format!("d={d}: {:.0} ms", t.elapsed().as_secs_f64() * 1000.0 / 2.0));
        let input = || format!("family=glyphchain depth={d} bytes={} colr={}", colr.len(), hex(&colr));
        judge_common(s, &r[0], &input);
        // the model agrees on the (tiny) callback stream
        if let Ok(fr) = FontRef::new(&font_of(&colr)) {
            if let Ok(c) = fr.colr() {
                let inst = extract(&c, &[1]);
                s.case("paint:glyphchain", format!("paint 1 0 1 {}", inst.request_tail()), strip_payloads(&r[0]));
                if d <= 16 {
                    s.case("bytes:glyphchain", format!("paint.bytes {} 1 0 1", hex(&colr)), r[0].clone());
                    s.case("bytes:glyphchain", format!("visits.bytes {} 1 0 1", hex(&colr)), (3u64 * (1u64 << (d - 1)) - 1).to_string());
                }
                s.case("visits:glyphchain", format!("visits 1 0 1 {}", inst.request_tail()), (3u64 * (1u64 << (d - 1)) - 1).to_string());
            }
        }
    }
    s.notes.push(format!("nested PaintGlyph chain, wall time per paint (doubles per level): {}", timings.join(", ")));
    // theorem `C13Visits.composite_dag_visits`: d PaintComposite tables with source == backdrop cost 2^(d+1)-1 visits
    let mut timings = vec![];
    for d in [6usize, 9, 12, 16, 19] {
        let colr = raw_compdag_table(d);
        let font = Arc::new(hex(&font_of(&colr)));
        let t = std::time::Instant::now();
        let r = run_jobs(&[Job { font_hex: font, gid: 1, fg: 1, cm: 0, v0: false, mx: false }], Duration::from_secs(60), 1);
        timings.push(format!("d={d}: {:.0} ms", t.elapsed().as_secs_f64() * 1000.0 / 2.0));
        let input = || format!("family=compdag depth={d} bytes={} colr={}", colr.len(), hex(&colr));
        judge_common(s, &r[0], &input);
        if d <= 12 {
            if let Ok(fr) = FontRef::new(&font_of(&colr)) {
                if let Ok(c) = fr.colr() {
                    let inst = extract(&c, &[1]);
                    s.case("paint:compdag", format!("paint 1 0 1 {}", inst.request_tail()), strip_payloads(&r[0]));
                    s.case("visits:compdag", format!("visits 1 0 1 {}", inst.request_tail()), ((1u64 << (d + 1)) - 1).to_string());
                    s.case("bytes:compdag", format!("paint.bytes {} 1 0 1", hex(&colr)), r[0].clone());
                    s.case("bytes:compdag", format!("visits.bytes {} 1 0 1", hex(&colr)), ((1u64 << (d + 1)) - 1).to_string());
                }
            }
        }
    }
    s.notes.push(format!("shared-child PaintComposite DAG, wall time per paint (doubles per level): {}", timings.join(", ")));
    {
        let d = 40usize;
        let cap = Duration::from_secs(if thorough { 20 } else { 6 });
        {
            let colr = raw_compdag_table(d);
            let font = Arc::new(hex(&font_of(&colr)));
            let r = run_jobs(&[Job { font_hex: font, gid: 1, fg: 1, cm: 0, v0: false, mx: false }], cap, 1);
            let head = r[0].split(' ').next().unwrap_or("").to_string();
            s.count(&format!("compdag-depth-40:result:{head}"));
            s.oracle(
                "paint-of-a-small-acyclic-table-terminates-within-the-time-cap",
                head != "timeout",
                || format!("family=compdag depth={d} nodes={} bytes={} cap={}s colr={}", d + 1, colr.len(), cap.as_secs(), hex(&colr)),
                || format!("{} (2^41-1 = 2199023255551 paint-node visits for a {}-byte table)", r[0], colr.len()),
            );
        }
    }
    let d = 40usize;
    let cap = Duration::from_secs(if thorough { 20 } else { 6 });
    let kinds: Vec<u8> = vec![b'G'; d];
    if let Some(colr) = build_chain(&kinds, solid, rng) {
        let font = Arc::new(hex(&font_of(&colr)));
        let r = run_jobs(&[Job { font_hex: font, gid: 1, fg: 1, cm: 0, v0: false, mx: false }], cap, 1);
        let head = r[0].split(' ').next().unwrap_or("").to_string();
        s.count(&format!("glyphchain-depth-40:result:{head}"));
        s.oracle(
            "paint-of-a-tree-shaped-table-terminates-within-the-time-cap",
            head != "timeout",
            || format!("family=glyphchain depth={d} nodes={} bytes={} cap={}s colr={}", d + 1, colr.len(), cap.as_secs(), hex(&colr)),
            || format!("{} (3*2^39-1 = 1649267441663 paint-node visits for a {}-byte table)", r[0], colr.len()),
        );
    }
}

fn main() {
    if std::env::args().nth(1).as_deref() == Some("--child") {
        child_main();
        return;
    }
    fv_harness::main_with("C13", run);
}
