//! C19 — IFT patch selection follows the specified intersection and grouping rules.
//!
//! Correspondence: random format-2 / format-1 mapping tables built byte-level (entry trees with
//! conjunctive/disjunctive children, biased sparse bit sets, features, design-space segments, id
//! deltas / id strings, ignored flags, per-entry formats; glyph map + feature map) x subset
//! definitions (incl. inverted codepoint sets, all features, all design space) x applied states,
//! run through `intersecting_patches`, `PatchGroup::select_next_patches`, and whole
//! select/fetch/apply extension runs (real table-keyed / glyph-keyed patch application with the
//! pass-through brotli decoder), compared with Model/PatchMap*.lean, UriTemplate.lean, PatchGroup.lean.
//! Oracles (model independent): offer monotone in the definition, offer ⊆ offer(all), no duplicate
//! uri in a group, ≤ 1 invalidating patch per table, full invalidation alone, chosen invalidating
//! patch is a maximum (largest intersection, earliest entry), every successful round applies a new
//! uri, runs terminate, deep child chains do not overflow the stack (child process).
use fv_harness::common::*;
use incremental_font_transfer::patch_group::{verif_hooks as pgh, PatchGroup, UriStatus};
use incremental_font_transfer::patchmap::{
    intersecting_patches, verif_hooks as pmh, DesignSpace, FeatureSet, PatchFormat, PatchId,
    SubsetDefinition,
};
use incremental_font_transfer::font_patch::PatchingError;
use read_fonts::collections::int_set::sparse_bit_set::to_sparse_bit_set_with_bf;
use read_fonts::collections::{IntSet, RangeSet};
use read_fonts::types::{Fixed, Tag};
use read_fonts::{FontRef, ReadError};
use shared_brotli_patch_decoder::NoopBrotliDecoder;
use skrifa::charmap::Charmap;
use std::collections::{BTreeSet, HashMap};
use write_fonts::tables::cmap::Cmap;
use write_fonts::tables::maxp::Maxp;
use write_fonts::FontBuilder;

// ------------------------------------------------------------------------------------------
// small helpers
// ------------------------------------------------------------------------------------------

const FEATURE_POOL: [&[u8; 4]; 6] = [b"aaaa", b"dlig", b"liga", b"rlig", b"smcp", b"zzzz"];
const AXIS_POOL: [&[u8; 4]; 3] = [b"slnt", b"wdth", b"wght"];

fn tagnum(t: Tag) -> u32 {
    u32::from_be_bytes(t.to_be_bytes())
}

fn read_err(e: &ReadError) -> String {
    match e {
        ReadError::MalformedData(m) => format!("err:Malformed:{}", m.replace(' ', "_")),
        other => format!("err:{:?}", other).split('(').next().unwrap().to_string(),
    }
}

fn patching_err(e: &PatchingError) -> String {
    let s = format!("{:?}", e);
    format!("err:{}", s.split('(').next().unwrap())
}

fn u24(v: u32) -> [u8; 3] {
    let b = v.to_be_bytes();
    [b[1], b[2], b[3]]
}

fn ranges_tokens(set: &IntSet<u32>) -> String {
    let rs: Vec<_> = set.iter_ranges().collect();
    let mut s = format!("{}", rs.len());
    for r in rs {
        s.push_str(&format!(" {} {}", r.start(), r.end()));
    }
    s
}

fn def_tokens(d: &SubsetDefinition) -> String {
    let mut s = format!("D {}", ranges_tokens(&d.codepoints));
    match &d.feature_tags {
        FeatureSet::All => s.push_str(" 1 0"),
        FeatureSet::Set(t) => {
            s.push_str(&format!(" 0 {}", t.len()));
            for x in t {
                s.push_str(&format!(" {}", tagnum(*x)));
            }
        }
    }
    match &d.design_space {
        DesignSpace::All => s.push_str(" 1 0"),
        DesignSpace::Ranges(m) => {
            let mut axes: Vec<_> = m.iter().collect();
            axes.sort_by_key(|(t, _)| tagnum(**t));
            s.push_str(&format!(" 0 {}", axes.len()));
            for (t, rs) in axes {
                let segs: Vec<_> = rs.iter().collect();
                s.push_str(&format!(" {} {}", tagnum(*t), segs.len()));
                for r in segs {
                    s.push_str(&format!(" {} {}", r.start().to_bits(), r.end().to_bits()));
                }
            }
        }
    }
    s
}

fn show_ranges_u32(set: &IntSet<u32>) -> String {
    let rs: Vec<String> = set.iter_ranges().map(|r| format!("{}..{}", r.start(), r.end())).collect();
    if rs.is_empty() { "-".into() } else { rs.join(",") }
}

fn show_def(d: &SubsetDefinition) -> String {
    let f = match &d.feature_tags {
        FeatureSet::All => "*".to_string(),
        FeatureSet::Set(t) => {
            if t.is_empty() { "-".into() } else { t.iter().map(|x| tagnum(*x).to_string()).collect::<Vec<_>>().join(",") }
        }
    };
    let ds = match &d.design_space {
        DesignSpace::All => "*".to_string(),
        DesignSpace::Ranges(m) => {
            let mut axes: Vec<_> = m.iter().collect();
            axes.sort_by_key(|(t, _)| tagnum(**t));
            if axes.is_empty() { "-".into() } else {
                axes.iter().map(|(t, rs)| {
                    let segs: Vec<String> = rs.iter().map(|r| format!("{}..{}", r.start().to_bits(), r.end().to_bits())).collect();
                    format!("{}={}", tagnum(**t), if segs.is_empty() { "-".into() } else { segs.join(",") })
                }).collect::<Vec<_>>().join(";")
            }
        }
    };
    format!("cp[{}]ft[{}]ds[{}]", show_ranges_u32(&d.codepoints), f, ds)
}

fn show_id(id: &PatchId) -> String {
    match id {
        PatchId::Numeric(n) => format!("n{n}"),
        PatchId::String(b) => format!("s{}", hex(b)),
    }
}

fn fmt_number(f: &PatchFormat) -> u8 {
    match f {
        PatchFormat::TableKeyed { fully_invalidating: true } => 1,
        PatchFormat::TableKeyed { fully_invalidating: false } => 2,
        PatchFormat::GlyphKeyed => 3,
    }
}

fn show_uri_view(v: &pmh::PatchUriView, uri: &Result<String, ()>) -> String {
    let ds = if v.intersecting_design_space.is_empty() {
        "-".to_string()
    } else {
        v.intersecting_design_space.iter().map(|(t, f)| format!("{}:{}", tagnum(*t), f.to_bits())).collect::<Vec<_>>().join(",")
    };
    format!(
        "{}:{}:f{}:b{}:i{}/{}/{}/{}:u{}",
        if v.is_iftx { "IFTX" } else { "IFT" },
        show_id(&v.id),
        fmt_number(&v.encoding),
        v.application_flag_bit_index,
        v.intersecting_codepoints,
        v.intersecting_layout_tags,
        ds,
        v.entry_order,
        match uri { Ok(s) => hex(s.as_bytes()), Err(_) => "!".into() }
    )
}

fn show_list(xs: &[String]) -> String {
    if xs.is_empty() { "-".into() } else { xs.join(" ") }
}

// ------------------------------------------------------------------------------------------
// format 2 table specs
// ------------------------------------------------------------------------------------------

#[derive(Clone, Debug)]
struct RawSpec {
    flags: u8,
    feats: Vec<Tag>,
    segs: Vec<(Tag, i32, i32)>,
    child_byte: u8,
    children: Vec<u32>,
    delta: i32,
    fmt: u8,
    bias: u32,
    cps: IntSet<u32>,
    bf: u8,
    bad_cps: bool,
}

#[derive(Clone, Debug)]
struct F2Spec {
    compat: [u8; 16],
    default_format: u8,
    id_strings: Option<Vec<u8>>,
    template: Vec<u8>,
    raws: Vec<RawSpec>,
    field_flags: u8,
}

fn compat_num(c: &[u8; 16]) -> String {
    let mut v: u128 = 0;
    for b in c {
        v = v * 256 + *b as u128;
    }
    v.to_string()
}

fn sparse(set: &IntSet<u32>, bf: u8) -> Vec<u8> {
    match bf {
        2 => to_sparse_bit_set_with_bf::<2>(set),
        4 => to_sparse_bit_set_with_bf::<4>(set),
        8 => to_sparse_bit_set_with_bf::<8>(set),
        32 => to_sparse_bit_set_with_bf::<32>(set),
        _ => set.to_sparse_bit_set(),
    }
}

impl RawSpec {
    fn encode(&self, id_strings: bool) -> Vec<u8> {
        let mut b = vec![self.flags];
        if self.flags & 1 != 0 {
            b.push(self.feats.len() as u8);
            for t in &self.feats {
                b.extend(t.to_be_bytes());
            }
            b.extend((self.segs.len() as u16).to_be_bytes());
            for (t, s, e) in &self.segs {
                b.extend(t.to_be_bytes());
                b.extend(s.to_be_bytes());
                b.extend(e.to_be_bytes());
            }
        }
        if self.flags & 2 != 0 {
            b.push(self.child_byte);
            for c in &self.children {
                b.extend(u24(*c));
            }
        }
        if self.flags & 4 != 0 {
            if id_strings {
                b.extend((self.delta as u16).to_be_bytes());
            } else {
                b.extend(u24(self.delta as u32));
            }
        }
        if self.flags & 8 != 0 {
            b.push(self.fmt);
        }
        let mode = (self.flags >> 4) & 3;
        if mode == 2 {
            b.extend((self.bias as u16).to_be_bytes());
        } else if mode == 3 {
            b.extend(u24(self.bias));
        }
        if mode != 0 && !self.bad_cps {
            b.extend(sparse(&self.cps, self.bf));
        }
        b
    }

    fn tokens(&self, size: usize) -> String {
        let mut s = format!("{} {}", self.flags, self.feats.len());
        for t in &self.feats {
            s.push_str(&format!(" {}", tagnum(*t)));
        }
        s.push_str(&format!(" {}", self.segs.len()));
        for (t, a, b) in &self.segs {
            s.push_str(&format!(" {} {} {}", tagnum(*t), a, b));
        }
        s.push_str(&format!(" {} {}", self.child_byte, self.children.len()));
        for c in &self.children {
            s.push_str(&format!(" {c}"));
        }
        s.push_str(&format!(" {} {} {} {} {} {}", self.delta, self.fmt, self.bias,
            if self.bad_cps { 0 } else { 1 }, ranges_tokens(&self.cps), size));
        s
    }
}

struct BuiltTable {
    bytes: Vec<u8>,
    tokens: String,
}

impl F2Spec {
    fn build(&self) -> BuiltTable {
        let mut b: Vec<u8> = vec![2, 0, 0, 0, self.field_flags];
        b.extend(self.compat);
        b.push(self.default_format);
        b.extend(u24(self.raws.len() as u32));
        let entries_off_pos = b.len();
        b.extend([0u8; 4]);
        let ids_off_pos = b.len();
        b.extend([0u8; 4]);
        b.extend((self.template.len() as u16).to_be_bytes());
        b.extend(&self.template);
        if self.field_flags & 1 != 0 {
            b.extend(100u32.to_be_bytes());
        }
        if self.field_flags & 2 != 0 {
            b.extend(200u32.to_be_bytes());
        }
        let entries_offset = b.len();
        b[entries_off_pos..entries_off_pos + 4].copy_from_slice(&(entries_offset as u32).to_be_bytes());
        let mut raw_tokens = vec![];
        for r in &self.raws {
            let enc = r.encode(self.id_strings.is_some());
            raw_tokens.push(r.tokens(enc.len()));
            b.extend(enc);
        }
        let mut id_data: Vec<u8> = vec![];
        if let Some(ids) = &self.id_strings {
            let off = b.len();
            b[ids_off_pos..ids_off_pos + 4].copy_from_slice(&(off as u32).to_be_bytes());
            b.extend(ids);
            id_data = ids.clone();
        }
        let utf8 = std::str::from_utf8(&self.template).is_ok();
        let tokens = format!(
            "F2 {} {} {} {} {} {} {} {}{}{}",
            compat_num(&self.compat),
            self.default_format,
            entries_offset,
            if self.id_strings.is_some() { 1 } else { 0 },
            hex(&id_data),
            hex(&self.template),
            if utf8 { 1 } else { 0 },
            self.raws.len(),
            if raw_tokens.is_empty() { "" } else { " " },
            raw_tokens.join(" ")
        );
        BuiltTable { bytes: b, tokens }
    }
}

// ------------------------------------------------------------------------------------------
// format 1 table specs
// ------------------------------------------------------------------------------------------

#[derive(Clone, Debug)]
struct F1Spec {
    compat: [u8; 16],
    max_entry: u16,
    max_gm: u16,
    glyph_count: u32,
    bitmap: Vec<u8>,
    template: Vec<u8>,
    patch_format: u8,
    first_gid: u16,
    entry_index: Vec<u16>,
    feature_map: Option<(Vec<(Tag, u16, u16)>, Vec<(u16, u16)>, Vec<u8>)>,
}

impl F1Spec {
    /// (feature records as stored, complete entry-map records of `entry_map_data`, its byte length)
    fn feature_map_view(&self) -> Option<(Vec<(u32, u32, u32)>, Vec<(u32, u32)>, usize)> {
        let (recs, emaps, trailing) = self.feature_map.as_ref()?;
        let wide = self.max_entry >= 256;
        let m = |v: u16| -> u32 { if wide { v as u32 } else { (v & 0xFF) as u32 } };
        let mut data: Vec<u8> = vec![];
        for (f, l) in emaps { if wide { data.extend(f.to_be_bytes()); data.extend(l.to_be_bytes()); } else { data.push(*f as u8); data.push(*l as u8); } }
        data.extend(trailing);
        let rs = if wide { 4 } else { 2 };
        let ems = (0..data.len() / rs).map(|i| if wide {
            (u16::from_be_bytes([data[i * 4], data[i * 4 + 1]]) as u32, u16::from_be_bytes([data[i * 4 + 2], data[i * 4 + 3]]) as u32)
        } else { (data[i * 2] as u32, data[i * 2 + 1] as u32) }).collect();
        Some((recs.iter().map(|(t, f, c)| (tagnum(*t), m(*f), m(*c))).collect(), ems, data.len()))
    }

    fn build(&self, maxp_glyphs: u16, cmap: &[(u32, u32)]) -> BuiltTable {
        let wide = self.max_entry >= 256;
        let mut b: Vec<u8> = vec![1, 0, 0, 0, 0];
        b.extend(self.compat);
        b.extend(self.max_entry.to_be_bytes());
        b.extend(self.max_gm.to_be_bytes());
        b.extend(u24(self.glyph_count));
        let gm_pos = b.len();
        b.extend([0u8; 4]);
        let fm_pos = b.len();
        b.extend([0u8; 4]);
        let bitmap_start = b.len();
        b.extend(&self.bitmap);
        b.extend((self.template.len() as u16).to_be_bytes());
        b.extend(&self.template);
        b.push(self.patch_format);
        let gm = b.len() as u32;
        b[gm_pos..gm_pos + 4].copy_from_slice(&gm.to_be_bytes());
        b.extend(self.first_gid.to_be_bytes());
        for e in &self.entry_index {
            if wide { b.extend(e.to_be_bytes()); } else { b.push(*e as u8); }
        }
        let mut n_recs = 0;
        let mut rec_tokens = String::new();
        let mut em_tokens = String::new();
        let mut n_em = 0;
        let mut em_bytes = 0usize;
        if let Some((recs, emaps, trailing)) = &self.feature_map {
            let fm = b.len() as u32;
            b[fm_pos..fm_pos + 4].copy_from_slice(&fm.to_be_bytes());
            b.extend((recs.len() as u16).to_be_bytes());
            for (t, f, c) in recs {
                b.extend(t.to_be_bytes());
                if wide { b.extend(f.to_be_bytes()); b.extend(c.to_be_bytes()); } else { b.push(*f as u8); b.push(*c as u8); }
                let (f, c) = if wide { (*f, *c) } else { (*f & 0xFF, *c & 0xFF) };
                rec_tokens.push_str(&format!(" {} {} {}", tagnum(*t), f, c));
                n_recs += 1;
            }
            let start = b.len();
            for (f, l) in emaps {
                if wide { b.extend(f.to_be_bytes()); b.extend(l.to_be_bytes()); } else { b.push(*f as u8); b.push(*l as u8); }
            }
            b.extend(trailing);
            em_bytes = b.len() - start;
            // complete records in entry_map_data, re-read from the bytes
            let rs = if wide { 4 } else { 2 };
            let data = &b[start..];
            n_em = data.len() / rs;
            for i in 0..n_em {
                let (f, l) = if wide {
                    (u16::from_be_bytes([data[i * 4], data[i * 4 + 1]]), u16::from_be_bytes([data[i * 4 + 2], data[i * 4 + 3]]))
                } else {
                    (data[i * 2] as u16, data[i * 2 + 1] as u16)
                };
                em_tokens.push_str(&format!(" {f} {l}"));
            }
        }
        let utf8 = std::str::from_utf8(&self.template).is_ok();
        let ei: Vec<String> = self.entry_index.iter().map(|e| (if wide { *e } else { *e & 0xFF }).to_string()).collect();
        let mut tokens = format!(
            "F1 {} {} {} {} {} {} {} {} {} {} {} {}{}{}",
            compat_num(&self.compat), self.max_entry, self.max_gm, self.glyph_count, maxp_glyphs,
            bitmap_start, hex(&self.bitmap), hex(&self.template), if utf8 { 1 } else { 0 },
            self.patch_format, self.first_gid, ei.len(), if ei.is_empty() { "" } else { " " }, ei.join(" ")
        );
        tokens.push_str(&format!(" {} {}{} {}{} {} {}", if self.feature_map.is_some() { 1 } else { 0 },
            n_recs, rec_tokens, n_em, em_tokens, em_bytes, cmap.len()));
        for (cp, gid) in cmap {
            tokens.push_str(&format!(" {cp} {gid}"));
        }
        BuiltTable { bytes: b, tokens }
    }
}

// ------------------------------------------------------------------------------------------
// generators
// ------------------------------------------------------------------------------------------

fn gen_compat(rng: &mut Rng, which: u8) -> [u8; 16] {
    let mut c = [0u8; 16];
    for x in c.iter_mut().take(15) {
        *x = rng.next() as u8;
    }
    c[0] = 1 + which + 2 * (rng.below(100) as u8); // non-zero, differs between the two tables
    c[15] = 0;
    c
}

fn gen_template(rng: &mut Rng) -> Vec<u8> {
    let pool: [&[u8]; 12] = [
        b"{id}", b"//foo.bar/{id}", b"p/{d1}/{d2}/{id}", b"{id64}", b"x{d3}{d4}_{id64}.p",
        "ABCDEF\u{0264}{id}".as_bytes(), b"a%20b/{id}", b"q?{id}&z={id64}", b"fixed", b"{id", b"bad{x}", b"sp ace{id}",
    ];
    let weights = [30, 10, 10, 8, 5, 8, 4, 4, 3, 1, 1, 1];
    let total: u64 = weights.iter().sum();
    let mut r = rng.below(total);
    for (i, w) in weights.iter().enumerate() {
        if r < *w { return pool[i].to_vec(); }
        r -= *w;
    }
    pool[0].to_vec()
}

fn gen_cp_set(rng: &mut Rng, universe: u32) -> IntSet<u32> {
    let mut s = IntSet::<u32>::empty();
    match rng.below(10) {
        0 => {}
        1..=5 => {
            let n = rng.below(6) + 1;
            for _ in 0..n { s.insert(rng.below(universe as u64) as u32); }
        }
        6..=7 => {
            let a = rng.below(universe as u64) as u32;
            let len = rng.below(20) as u32;
            s.insert_range(a..=a + len);
            if rng.chance(1, 2) { s.insert(rng.below(universe as u64) as u32); }
        }
        8 => {
            // a power-of-branch-factor aligned block (exercises filled nodes)
            let k = *rng.pick(&[4u32, 8, 16, 32, 64]);
            let a = (rng.below((universe / k).max(1) as u64) as u32) * k;
            s.insert_range(a..=a + k - 1);
        }
        _ => {
            let n = rng.below(12) + 1;
            for _ in 0..n { s.insert(rng.below(3 * universe as u64) as u32); }
        }
    }
    s
}

fn gen_feats(rng: &mut Rng, max: u64) -> Vec<Tag> {
    let n = rng.below(max + 1);
    (0..n).map(|_| Tag::new(*rng.pick(&FEATURE_POOL))).collect()
}

fn gen_fixed(rng: &mut Rng) -> i32 {
    match rng.below(12) {
        0 => i32::MIN,
        1 => i32::MAX,
        2 => -1,
        3 => 0,
        _ => (rng.range(-4, 12) as i32) * 0x8000 + if rng.chance(1, 6) { rng.range(-1, 1) as i32 } else { 0 },
    }
}

fn gen_segs(rng: &mut Rng, max: u64, allow_bad: bool) -> Vec<(Tag, i32, i32)> {
    let n = rng.below(max + 1);
    (0..n).map(|_| {
        let t = Tag::new(*rng.pick(&AXIS_POOL));
        let a = gen_fixed(rng);
        let b = gen_fixed(rng);
        let (lo, hi) = if a <= b { (a, b) } else { (b, a) };
        if allow_bad && rng.chance(1, 60) && lo != hi { (t, hi, lo) } else { (t, lo, hi) }
    }).collect()
}

struct F2Opts {
    max_entries: u64,
    allow_errors: bool,
    glyph_keyed_bias: u64, // out of 10: how often the default format is 3
}

fn gen_f2(rng: &mut Rng, which: u8, o: &F2Opts) -> F2Spec {
    let n = rng.below(o.max_entries + 1) as usize;
    let id_strings = rng.chance(1, 5);
    let universe = *rng.pick(&[24u32, 40, 80]);
    let default_format = if o.allow_errors && rng.chance(1, 60) { *rng.pick(&[0u8, 4, 255]) }
        else if rng.below(10) < o.glyph_keyed_bias { 3 } else { *rng.pick(&[1u8, 2, 2, 3]) };
    let mut raws = vec![];
    let mut id_data: Vec<u8> = vec![];
    for i in 0..n {
        let mut flags: u8 = 0;
        if rng.chance(2, 5) { flags |= 1; }
        if i > 0 && rng.chance(2, 5) || (o.allow_errors && rng.chance(1, 80)) { flags |= 2; }
        if rng.chance(1, 3) { flags |= 4; }
        if rng.chance(1, 4) { flags |= 8; }
        let mode = *rng.pick(&[0u8, 1, 1, 1, 2, 2, 3]);
        flags |= mode << 4;
        if rng.chance(1, 5) { flags |= 0x40; }
        if rng.chance(1, 30) { flags |= 0x80; }
        let feats = if flags & 1 != 0 { gen_feats(rng, 3) } else { vec![] };
        let segs = if flags & 1 != 0 { gen_segs(rng, 3, o.allow_errors) } else { vec![] };
        let mut children = vec![];
        let mut child_byte = 0u8;
        if flags & 2 != 0 {
            let cnt = rng.below(4) as usize;
            for _ in 0..cnt {
                let c = if o.allow_errors && rng.chance(1, 40) { i as u32 + rng.below(2) as u32 }
                    else if i == 0 { 0 } else { rng.below(i as u64) as u32 };
                children.push(c);
            }
            child_byte = cnt as u8 | if rng.chance(1, 2) { 0x80 } else { 0 };
        }
        let delta: i32 = if flags & 4 == 0 { 0 } else if id_strings {
            let len = rng.below(4) as i32;
            if o.allow_errors && rng.chance(1, 60) { 200 } else {
                for _ in 0..len { id_data.push(*rng.pick(&[b'a', b'b', b'/', 0xC3, b' ', 0x00, b'~'])); }
                len
            }
        } else {
            match rng.below(12) {
                0 => -1,
                1 => -2,
                2 => if o.allow_errors { -(rng.below(6) as i32) - 1 } else { 0 },
                3 => 0x7FFFFF,
                4 => if o.allow_errors { -0x800000 } else { 1 },
                _ => rng.below(5) as i32,
            }
        };
        let fmt = if o.allow_errors && rng.chance(1, 40) { *rng.pick(&[0u8, 4, 9]) } else { *rng.pick(&[1u8, 2, 2, 3, 3]) };
        let bias = match mode {
            2 => *rng.pick(&[0u32, 5, 20, 65535, 30]),
            3 => *rng.pick(&[0u32, 10, 80_000, 0x10FFF0, 0x10FFFF, 0x110000, 0xFFFFFF]),
            _ => 0,
        };
        let mut cps = if mode == 0 { IntSet::empty() } else { gen_cp_set(rng, universe) };
        if mode == 1 && rng.chance(1, 25) {
            cps.insert(0x10FFFF);
            cps.insert(0x110000 + rng.below(5) as u32);
        }
        let bf = *rng.pick(&[0u8, 0, 2, 4, 8, 32]);
        raws.push(RawSpec { flags, feats, segs, child_byte, children, delta, fmt, bias, cps, bf, bad_cps: false });
    }
    // (a missing sparse bit set is only a decode failure when nothing follows the entries: id string
    // data placed after them would be read as the bit set)
    if o.allow_errors && n > 0 && !id_strings && rng.chance(1, 50) {
        let last = raws.last_mut().unwrap();
        if (last.flags >> 4) & 3 == 1 { last.bad_cps = true; last.cps = IntSet::empty(); }
    }
    F2Spec {
        compat: gen_compat(rng, which),
        default_format,
        id_strings: if id_strings { Some(id_data) } else { None },
        template: gen_template(rng),
        raws,
        field_flags: *rng.pick(&[0u8, 0, 0, 1, 2, 3]),
    }
}

fn gen_def(rng: &mut Rng, universe: u32) -> SubsetDefinition {
    let mut cps = gen_cp_set(rng, universe);
    match rng.below(12) {
        0 => cps = IntSet::all(),
        1 => { cps.invert(); }
        2 => cps = IntSet::empty(),
        3 => { cps.insert(80_000 + rng.below(40) as u32); cps.insert(0x10FFF0 + rng.below(16) as u32); }
        4 => { cps.insert(rng.below(universe as u64) as u32 + 5); cps.insert(65535 + rng.below(30) as u32); }
        _ => {}
    }
    let feats = match rng.below(8) {
        0 => FeatureSet::All,
        1 => FeatureSet::Set(BTreeSet::new()),
        _ => FeatureSet::Set(gen_feats(rng, 3).into_iter().collect()),
    };
    let ds = match rng.below(8) {
        0 => DesignSpace::All,
        1 | 2 => DesignSpace::Ranges(HashMap::new()),
        _ => {
            let mut m: HashMap<Tag, RangeSet<Fixed>> = HashMap::new();
            for (t, a, b) in gen_segs(rng, 3, false) {
                m.entry(t).or_default().insert(Fixed::from_bits(a)..=Fixed::from_bits(b));
            }
            DesignSpace::Ranges(m)
        }
    };
    SubsetDefinition::new(cps, feats, ds)
}

fn gen_f1(rng: &mut Rng, which: u8, allow_errors: bool, rich: bool) -> (F1Spec, u16, Vec<(u32, u32)>) {
    // the entry-index width switches at maxEntryIndex 255 -> 256: one case in six sits on that boundary
    let boundary = rng.chance(1, 6);
    let wide = if boundary { false } else { rng.chance(1, 3) };
    let max_entry: u16 = if boundary { *rng.pick(&[253u16, 254, 255, 256, 257]) }
        else if wide { 256 + rng.below(60) as u16 } else { (if rich { 8 } else { 1 }) + rng.below(30) as u16 };
    let wide = max_entry >= 256;
    let max_gm: u16 = if allow_errors && rng.chance(1, 40) { max_entry + 1 }
        else if rich { 1 + rng.below(5) as u16 }
        else if rng.chance(1, 4) { max_entry } else { rng.below(max_entry as u64 + 1) as u16 };
    let glyph_count = 2 + rng.below(20) as u32;
    let maxp = if allow_errors && rng.chance(1, 40) { glyph_count as u16 + 1 } else { glyph_count as u16 };
    let first_gid = rng.below(glyph_count as u64 / 2 + 1) as u16;
    let n_ei = glyph_count as usize - first_gid as usize;
    // entry indices drawn from a small pool so several glyphs share entries
    let pool: Vec<u16> = (0..5).map(|_| match rng.below(6) {
        0 => 0,
        1 => max_gm,
        2 => max_gm.saturating_add(1).min(if wide { u16::MAX } else { 255 }),
        3 => max_entry,
        _ => rng.below(max_gm as u64 + 1) as u16,
    }).collect();
    let entry_index: Vec<u16> = (0..n_ei).map(|_| *rng.pick(&pool)).collect();
    let bm_len = (max_entry as usize + 8) / 8;
    let mut bitmap = vec![0u8; bm_len];
    for b in bitmap.iter_mut() {
        if rng.chance(1, if rich { 6 } else { 3 }) { *b = rng.next() as u8 & rng.next() as u8; }
    }
    let patch_format = if allow_errors && rng.chance(1, 40) { *rng.pick(&[0u8, 4]) } else { *rng.pick(&[1u8, 2, 3, 3]) };
    let feature_map = if rich || rng.chance(3, 5) {
        let nrec = if rich { 1 + rng.below(5) as usize } else { rng.below(5) as usize };
        let mut recs = vec![];
        let mut total = 0usize;
        for _ in 0..nrec {
            let t = Tag::new(*rng.pick(&FEATURE_POOL));
            let first_new = match if rich { 3 + rng.below(3) } else { rng.below(6) } {
                0 => max_gm,
                1 => max_entry,
                2 => if wide { 65535 } else { 255 },
                _ => max_gm.saturating_add(1 + rng.below(4) as u16),
            };
            let count = rng.below(4) as u16;
            total += count as usize;
            recs.push((t, first_new, count));
        }
        if rng.chance(2, 3) { recs.sort_by_key(|r| tagnum(r.0)); }
        let n_em = if allow_errors && total > 0 && rng.chance(1, 25) { total - 1 } else { total + rng.below(2) as usize };
        let emaps: Vec<(u16, u16)> = (0..n_em).map(|_| {
            let a = *rng.pick(&pool);
            let b = if rng.chance(1, 2) { a } else { *rng.pick(&pool) };
            let (lo, hi) = if a <= b { (a, b) } else { (b, a) };
            if rng.chance(1, 12) { (hi, lo) } else if rng.chance(1, 6) { (0, hi) } else { (lo, hi) }
        }).collect();
        let trailing = if rng.chance(1, 5) { vec![7u8; rng.below(3) as usize + 1] } else { vec![] };
        Some((recs, emaps, trailing))
    } else { None };
    // cmap: codepoints -> gids (some beyond the glyph count when errors are allowed)
    let ncp = rng.below(14) as usize;
    let mut cmap: Vec<(u32, u32)> = vec![];
    let mut used = BTreeSet::new();
    for _ in 0..ncp {
        let cp = match rng.below(8) { 0 => 0x1F600 + rng.below(8) as u32, 1 => 0x10FFFF, _ => 0x20 + rng.below(60) as u32 };
        if !used.insert(cp) { continue; }
        let gid = if allow_errors && rng.chance(1, 60) { glyph_count + rng.below(2) as u32 } else { rng.below(glyph_count as u64) as u32 };
        cmap.push((cp, gid));
    }
    cmap.sort();
    (F1Spec {
        compat: gen_compat(rng, which), max_entry, max_gm, glyph_count, bitmap,
        template: gen_template(rng), patch_format, first_gid, entry_index, feature_map,
    }, maxp, cmap)
}

// ------------------------------------------------------------------------------------------
// fonts
// ------------------------------------------------------------------------------------------

fn build_font(ift: Option<&[u8]>, iftx: Option<&[u8]>, maxp_glyphs: u16, cmap: &[(u32, u32)]) -> Vec<u8> {
    let mut fb = FontBuilder::new();
    if let Some(t) = ift { fb.add_raw(Tag::new(b"IFT "), t.to_vec()); }
    if let Some(t) = iftx { fb.add_raw(Tag::new(b"IFTX"), t.to_vec()); }
    fb.add_table(&Maxp { num_glyphs: maxp_glyphs, ..Default::default() }).unwrap();
    if !cmap.is_empty() {
        let c = Cmap::from_mappings(cmap.iter().map(|(cp, g)| (char::from_u32(*cp).unwrap(), write_fonts::types::GlyphId::new(*g)))).unwrap();
        fb.add_table(&c).unwrap();
    }
    fb.build()
}

fn offered(font: &[u8], d: &SubsetDefinition) -> Result<Result<Vec<(pmh::PatchUriView, Result<String, ()>)>, String>, String> {
    catch(|| {
        let f = FontRef::new(font).map_err(|e| read_err(&e))?;
        match intersecting_patches(&f, d) {
            Ok(v) => Ok(v.iter().map(|u| (pmh::patch_uri_view(u), u.uri_string().map_err(|_| ()))).collect()),
            Err(e) => Err(read_err(&e)),
        }
    })
}

fn show_offered(r: &Result<Result<Vec<(pmh::PatchUriView, Result<String, ()>)>, String>, String>) -> String {
    match r {
        Err(p) => format!("panic:{p}"),
        Ok(Err(e)) => e.clone(),
        Ok(Ok(v)) => show_list(&v.iter().map(|(v, u)| show_uri_view(v, u)).collect::<Vec<_>>()),
    }
}

fn show_info(p: &pgh::PatchInfoView) -> String {
    format!("{}:b{}:u{}", if p.is_iftx { "IFTX" } else { "IFT" }, p.application_flag_bit_index, hex(p.uri.as_bytes()))
}

fn show_scope(s: &pgh::ScopeView) -> String {
    match s {
        pgh::ScopeView::PartialInvalidation(p) => format!("P({})", show_info(p)),
        pgh::ScopeView::NoInvalidation(m) => format!("N({})", m.iter().map(show_info).collect::<Vec<_>>().join(",")),
    }
}

fn show_group(g: &Option<pgh::GroupView>) -> String {
    match g {
        None => "none".into(),
        Some(pgh::GroupView::Full(p)) => format!("Full({})", show_info(p)),
        Some(pgh::GroupView::Mixed { ift, iftx }) => format!("Mixed[{}][{}]", show_scope(ift), show_scope(iftx)),
    }
}

/// identity of an offered patch for set comparisons: (table, application bit)
fn ident(v: &pmh::PatchUriView) -> (bool, usize) {
    (v.is_iftx, v.application_flag_bit_index)
}

fn info_key(v: &pmh::PatchUriView) -> (u64, usize, Vec<(u32, i32)>, std::cmp::Reverse<usize>) {
    (v.intersecting_codepoints, v.intersecting_layout_tags,
     v.intersecting_design_space.iter().map(|(t, f)| (tagnum(*t), f.to_bits())).collect(),
     std::cmp::Reverse(v.entry_order))
}


// ------------------------------------------------------------------------------------------
// declarative IFT "check entry intersection", evaluated naively on the REAL decoded entries
// (independent of the Lean model and of the cache / evaluation order of the implementation)
// ------------------------------------------------------------------------------------------

fn spec_local(e: &SubsetDefinition, d: &SubsetDefinition) -> bool {
    let cp = e.codepoints.is_empty() || e.codepoints.iter().any(|c| d.codepoints.contains(c));
    let ft = match (&e.feature_tags, &d.feature_tags) {
        (FeatureSet::Set(s), FeatureSet::Set(o)) => s.is_empty() || s.iter().any(|t| o.contains(t)),
        (FeatureSet::Set(_), FeatureSet::All) => true,
        (FeatureSet::All, FeatureSet::Set(o)) => !o.is_empty(),
        (FeatureSet::All, FeatureSet::All) => true,
    };
    let ds = match (&e.design_space, &d.design_space) {
        (DesignSpace::Ranges(er), DesignSpace::Ranges(o)) => er.is_empty() || er.iter().any(|(tag, segs)| {
            o.get(tag).map_or(false, |os| segs.iter().any(|a| os.iter().any(|b| a.start() <= b.end() && b.start() <= a.end())))
        }),
        (DesignSpace::Ranges(_), DesignSpace::All) => true,
        (DesignSpace::All, DesignSpace::Ranges(o)) => !o.is_empty(),
        (DesignSpace::All, DesignSpace::All) => true,
    };
    cp && ft && ds
}

fn spec_match(es: &[pmh::EntryView], d: &SubsetDefinition, i: usize) -> bool {
    let Some(e) = es.get(i) else { return false };
    if !spec_local(&e.subset_definition, d) { return false; }
    if e.child_indices.is_empty() { return true; }
    // children refer to prior entries (checked by the children-refer-to-prior-entries oracle): recursion ends
    if e.child_indices.iter().any(|c| *c >= i) { return false; }
    if e.conjunctive_child_match { e.child_indices.iter().all(|c| spec_match(es, d, *c)) }
    else { e.child_indices.iter().any(|c| spec_match(es, d, *c)) }
}

/// the (application bit) list the specification offers for one format-2 table, in entry order
fn spec_offer(es: &[pmh::EntryView], d: &SubsetDefinition) -> Vec<usize> {
    (0..es.len()).filter(|i| !es[*i].ignored && spec_match(es, d, *i)).map(|i| es[i].uri.application_flag_bit_index).collect()
}

// ------------------------------------------------------------------------------------------
// scenario = up to two tables + font
// ------------------------------------------------------------------------------------------

#[derive(Clone)]
enum TableSpec { None, F1(F1Spec), F2(F2Spec) }

struct Scenario {
    ift: TableSpec,
    iftx: TableSpec,
    maxp: u16,
    cmap: Vec<(u32, u32)>,
}

impl Scenario {
    fn build_table(&self, t: &TableSpec, real_cmap: &[(u32, u32)]) -> Option<BuiltTable> {
        match t {
            TableSpec::None => None,
            TableSpec::F2(s) => Some(s.build()),
            TableSpec::F1(s) => Some(s.build(self.maxp, real_cmap)),
        }
    }

    /// (font bytes, tokens for the two tables).  `inverted` selects which view of the character
    /// map the format-1 code path sees: `Charmap::mappings()` (limited to the maxp glyph count) for
    /// inverted codepoint sets, `Charmap::map(cp)` per member (unlimited) otherwise.
    fn build(&self, inverted: bool) -> (Vec<u8>, String, String) {
        // what the real Charmap reports (the model takes the charmap as given: C08)
        let probe = build_font(None, None, self.maxp, &self.cmap);
        let real_cmap: Vec<(u32, u32)> = {
            let f = FontRef::new(&probe).unwrap();
            let cm = Charmap::new(&f);
            let mut v: Vec<(u32, u32)> = cm.mappings().map(|(c, g)| (c, g.to_u32())).collect();
            if !inverted {
                let mut cps: BTreeSet<u32> = v.iter().map(|(c, _)| *c).collect();
                cps.extend(self.cmap.iter().map(|(c, _)| *c));
                cps.insert(0xFFFF);
                v = cps.into_iter().filter_map(|c| cm.map(c).map(|g| (c, g.to_u32()))).collect();
            }
            v.sort();
            v.dedup();
            v
        };
        let a = self.build_table(&self.ift, &real_cmap);
        let b = self.build_table(&self.iftx, &real_cmap);
        let font = build_font(a.as_ref().map(|t| t.bytes.as_slice()), b.as_ref().map(|t| t.bytes.as_slice()), self.maxp, &self.cmap);
        (font, a.map(|t| t.tokens).unwrap_or("N".into()), b.map(|t| t.tokens).unwrap_or("N".into()))
    }
}

fn gen_scenario(rng: &mut Rng, allow_errors: bool, f1_weight: u64, rich: bool) -> Scenario {
    let mut maxp = 3u16;
    let mut cmap = vec![];
    let mut mk = |rng: &mut Rng, which: u8, present: bool| -> TableSpec {
        if !present { return TableSpec::None; }
        if rng.below(10) < f1_weight {
            let (s, m, c) = gen_f1(rng, which, allow_errors, rich);
            if cmap.is_empty() { maxp = m; cmap = c; }
            let mut s = s;
            if s.glyph_count != maxp as u32 && !(allow_errors && rng.chance(1, 20)) {
                // second format-1 table: fit it to the font's glyph count
                s.glyph_count = maxp as u32;
                let n = (s.glyph_count as usize).saturating_sub(s.first_gid as usize);
                let fill = s.entry_index.first().copied().unwrap_or(0);
                s.entry_index.resize(n, fill);
            }
            TableSpec::F1(s)
        } else {
            TableSpec::F2(gen_f2(rng, which, &F2Opts { max_entries: 7, allow_errors, glyph_keyed_bias: 4 }))
        }
    };
    let shape = rng.below(10);
    let ift = mk(rng, 0, shape != 0);
    let iftx = mk(rng, 1, shape == 0 || shape >= 6);
    let mut sc = Scenario { ift, iftx, maxp, cmap };
    // sometimes give both tables the same template / compat id (duplicate uris across tables, ValidationError)
    if let (TableSpec::F2(a), TableSpec::F2(b)) = (&sc.ift.clone(), &mut sc.iftx) {
        if rng.chance(1, 2) { b.template = a.template.clone(); }
        if rng.chance(1, 25) { b.compat = a.compat; }
    }
    sc
}

// ------------------------------------------------------------------------------------------
// cases
// ------------------------------------------------------------------------------------------

fn isect_and_select(s: &mut Session, rng: &mut Rng, sc: &Scenario, ndefs: usize, feat_heavy: bool) {
    let (font, ta_inv, tb_inv) = sc.build(true);
    let (_, ta_map, tb_map) = sc.build(false);
    let all_offer = offered(&font, &SubsetDefinition::all());
    for _ in 0..ndefs {
        let mut d = gen_def(rng, 90);
        if feat_heavy && rng.chance(2, 3) {
            d.feature_tags = if rng.chance(1, 3) { FeatureSet::All } else {
                let mut t: BTreeSet<Tag> = FEATURE_POOL.iter().map(|t| Tag::new(t)).collect();
                for x in FEATURE_POOL.iter() { if rng.chance(1, 4) { t.remove(&Tag::new(x)); } }
                FeatureSet::Set(t)
            };
            if rng.chance(1, 2) { d.codepoints = if rng.chance(1, 2) { IntSet::all() } else { let mut c = IntSet::empty(); c.insert_range(0x20..=0x60); c }; }
        }
        let dt = def_tokens(&d);
        let (ta, tb) = if d.codepoints.is_inverted() { s.count("isect:def-inverted"); (&ta_inv, &tb_inv) } else { (&ta_map, &tb_map) };
        let off = offered(&font, &d);
        let shown = show_offered(&off);
        if let Ok(pat) = std::env::var("C19_FIND") {
            if format!("isect {dt} {ta} {tb}").starts_with(&pat) { eprintln!("FOUND font={} impl={shown}", hex(&font)); }
        }
        s.case("isect", format!("isect {dt} {ta} {tb}"), shown.clone());
        let input = || format!("isect {dt} {ta} {tb} | font={}", hex(&font));
        s.oracle("isect-no-panic", off.is_ok(), input, || shown.clone());
        match &off { Ok(Ok(v)) => { s.count(if v.is_empty() { "isect:empty" } else { "isect:nonempty" }); for (u, _) in v { s.count(&format!("isect:fmt{}", fmt_number(&u.encoding))); } }
                     Ok(Err(e)) => s.count(&format!("isect:{}", e.chars().take(40).collect::<String>())), Err(_) => s.count("isect:panic") }
        // oracle: the offer is exactly what the declarative rule says (format 2), and never contains
        // an applied entry or entry 0 (format 1)
        if let Ok(Ok(v)) = &off {
            for (iftx, spec) in [(false, &sc.ift), (true, &sc.iftx)] {
                let got: Vec<usize> = v.iter().filter(|(u, _)| u.is_iftx == iftx).map(|(u, _)| u.application_flag_bit_index).collect();
                match spec {
                    TableSpec::F2(_) => {
                        let es = catch(|| { let f = FontRef::new(&font).unwrap(); pmh::format2_entries(&f, iftx).ok() });
                        if let Ok(Some(es)) = es {
                            let want = spec_offer(&es, &d);
                            s.oracle("format2-offer-equals-declarative-spec", got == want, input, || format!("table={} offered bits={got:?} spec bits={want:?}", if iftx { "IFTX" } else { "IFT" }));
                            // recorded intersection sizes of invalidating entries = sizes of the set intersections
                            for (u, _) in v.iter().filter(|(u, _)| u.is_iftx == iftx && fmt_number(&u.encoding) != 3) {
                                let Some((ix, e)) = es.iter().enumerate().find(|(_, e)| e.uri.application_flag_bit_index == u.application_flag_bit_index) else { continue };
                                let sd = &e.subset_definition;
                                let n_cp = sd.codepoints.iter().filter(|c| d.codepoints.contains(*c)).count() as u64;
                                let n_ft = match (&sd.feature_tags, &d.feature_tags) {
                                    (FeatureSet::Set(a), FeatureSet::Set(b)) => a.iter().filter(|t| b.contains(*t)).count(),
                                    (FeatureSet::Set(a), FeatureSet::All) => a.len(),
                                    _ => usize::MAX,
                                };
                                let mut n_ds: Vec<(u32, i32)> = match (&sd.design_space, &d.design_space) {
                                    (DesignSpace::Ranges(a), DesignSpace::Ranges(b)) => a.iter().filter_map(|(t, ea)| {
                                        let db = b.get(t)?;
                                        let mut total: i64 = 0; let mut any = false;
                                        for x in ea.iter() { for y in db.iter() {
                                            let lo = (*x.start()).max(*y.start()); let hi = (*x.end()).min(*y.end());
                                            if lo <= hi { any = true; total += hi.to_bits() as i64 - lo.to_bits() as i64; }
                                        } }
                                        if any { Some((tagnum(*t), total as i32)) } else { None }
                                    }).collect(),
                                    (DesignSpace::Ranges(a), DesignSpace::All) => a.iter().map(|(t, ea)| (tagnum(*t), ea.iter().map(|x| x.end().to_bits() as i64 - x.start().to_bits() as i64).sum::<i64>() as i32)).collect(),
                                    _ => vec![],
                                };
                                n_ds.sort();
                                let got_ds: Vec<(u32, i32)> = u.intersecting_design_space.iter().map(|(t, f)| (tagnum(*t), f.to_bits())).collect();
                                let ok = u.intersecting_codepoints == n_cp && u.intersecting_layout_tags == n_ft && got_ds == n_ds && u.entry_order == ix;
                                s.oracle("intersection-info-equals-set-intersection-sizes", ok, input,
                                    || format!("entry {ix}: recorded {}/{}/{:?}/{} expected {n_cp}/{n_ft}/{n_ds:?}/{ix}", u.intersecting_codepoints, u.intersecting_layout_tags, got_ds, u.entry_order));
                            }
                            if !want.is_empty() { s.count("spec:nonempty"); }
                            if es.iter().any(|e| e.ignored && !e.child_indices.is_empty()) { s.count("spec:ignored-with-children"); }
                        } else {
                            s.oracle("format2-offer-equals-declarative-spec", false, input, || "offer succeeded but the entries do not decode".into());
                        }
                    }
                    TableSpec::F1(t) => {
                        // bit = bitmap start * 8 + entry index; recover the index from the smallest possible start
                        let ok = v.iter().filter(|(u, _)| u.is_iftx == iftx).all(|(u, _)| match u.id {
                            PatchId::Numeric(ix) => ix > 0 && (ix as usize) / 8 < t.bitmap.len() && t.bitmap[ix as usize / 8] & (1 << (ix % 8)) == 0 && ix <= t.max_entry as u32,
                            _ => false,
                        });
                        s.oracle("format1-offer-excludes-applied-and-entry0", ok, input, || format!("offered={shown} bitmap={}", hex(&t.bitmap)));
                        // application bit of entry k = bit k of the applied-entries bitmap, which starts at byte 36 of the table
                        let ok_bits = v.iter().filter(|(u, _)| u.is_iftx == iftx).all(|(u, _)| match u.id { PatchId::Numeric(ix) => u.application_flag_bit_index == 36 * 8 + ix as usize, _ => false });
                        s.oracle("format1-application-bit-is-the-bitmap-bit", ok_bits, input, || format!("offered={shown}"));
                        // glyph-map part of the offer, straight from the specification: entry index of every
                        // glyph a requested codepoint maps to, if it is <= max_glyph_map_entry_index; the
                        // feature map can only add entries above that index
                        let expect: BTreeSet<u32> = {
                            let f = FontRef::new(&font).unwrap();
                            let cm = Charmap::new(&f);
                            let pairs: Vec<(u32, u32)> = if d.codepoints.is_inverted() {
                                cm.mappings().filter(|(c, _)| d.codepoints.contains(*c)).map(|(c, g)| (c, g.to_u32())).collect()
                            } else {
                                d.codepoints.iter().filter_map(|c| cm.map(c).map(|g| (c, g.to_u32()))).collect()
                            };
                            pairs.iter().filter_map(|(_, g)| {
                                let ix = if *g < t.first_gid as u32 { 0 } else { *t.entry_index.get((*g - t.first_gid as u32) as usize)? as u32 & if t.max_entry < 256 { 0xFF } else { 0xFFFF } };
                                Some(ix)
                            }).filter(|ix| *ix > 0 && *ix <= t.max_gm as u32 && t.bitmap[*ix as usize / 8] & (1 << (ix % 8)) == 0).collect()
                        };
                        let got_ix: Vec<u32> = v.iter().filter(|(u, _)| u.is_iftx == iftx).filter_map(|(u, _)| match u.id { PatchId::Numeric(ix) => Some(ix), _ => None }).collect();
                        // feature-map part, from the specification's closed form: a feature record is used iff its
                        // tag is requested and larger than every earlier record's tag; its i-th entry-map record
                        // (first..=last valid, containing a glyph-map entry hit by the definition) adds first_new+i
                        if let Some((recs, ems, _)) = t.feature_map_view() {
                            let hit: BTreeSet<u32> = {
                                let f = FontRef::new(&font).unwrap();
                                let cm = Charmap::new(&f);
                                let gids: Vec<u32> = if d.codepoints.is_inverted() {
                                    cm.mappings().filter(|(c, _)| d.codepoints.contains(*c)).map(|(_, g)| g.to_u32()).collect()
                                } else { d.codepoints.iter().filter_map(|c| cm.map(c).map(|g| g.to_u32())).collect() };
                                gids.iter().filter_map(|g| if *g < t.first_gid as u32 { Some(0) } else {
                                    t.entry_index.get((*g - t.first_gid as u32) as usize).map(|e| *e as u32 & if t.max_entry < 256 { 0xFF } else { 0xFFFF }) })
                                    .filter(|ix| *ix <= t.max_gm as u32).collect()
                            };
                            let mut want_high: BTreeSet<u32> = BTreeSet::new();
                            let mut running: Option<u32> = None; let mut cum = 0usize;
                            for (tag, first_new, count) in &recs {
                                let requested = match &d.feature_tags { FeatureSet::All => true, FeatureSet::Set(x) => x.iter().any(|y| tagnum(*y) == *tag) };
                                if requested && running.map_or(true, |m| *tag > m) {
                                    for i in 0..*count {
                                        let Some((first, last)) = ems.get(cum + i as usize) else { continue };
                                        let mapped = first_new + i;
                                        if first > last || *first > t.max_gm as u32 || *last > t.max_gm as u32 || mapped <= t.max_gm as u32 || mapped > t.max_entry as u32 { continue; }
                                        if hit.range(*first..=*last).next().is_some() && t.bitmap[mapped as usize / 8] & (1 << (mapped % 8)) == 0 { want_high.insert(mapped); }
                                    }
                                }
                                running = Some(running.map_or(*tag, |m| m.max(*tag)));
                                cum += *count as usize;
                            }
                            let got_high: BTreeSet<u32> = got_ix.iter().copied().filter(|ix| *ix > t.max_gm as u32).collect();
                            s.oracle("format1-feature-map-offer-equals-spec", got_high == want_high, input, || format!("offered={shown} expected feature-map entries={want_high:?}"));
                        } else {
                            s.oracle("format1-feature-map-offer-equals-spec", got_ix.iter().all(|ix| *ix <= t.max_gm as u32), input, || format!("offered={shown} but there is no feature map"));
                        }
                        let low: BTreeSet<u32> = got_ix.iter().copied().filter(|ix| *ix <= t.max_gm as u32).collect();
                        s.oracle("format1-glyph-map-offer-equals-spec", low == expect, input, || format!("offered={shown} expected glyph-map entries={expect:?}"));
                        if !expect.is_empty() { s.count("spec:f1-glyph-nonempty"); }
                        if got_ix.iter().any(|ix| *ix > t.max_gm as u32) { s.count("spec:f1-feature-entries"); }
                        let sorted = got.windows(2).all(|w| w[0] < w[1]);
                        s.oracle("format1-offer-in-entry-order-once-each", sorted, input, || format!("offered={shown}"));
                    }
                    TableSpec::None => { s.oracle("no-table-no-offer", got.is_empty(), input, || shown.clone()); }
                }
            }
        }
        // oracle: ⊆ offer(all)
        if let (Ok(Ok(v)), Ok(Ok(all))) = (&off, &all_offer) {
            let all_ids: BTreeSet<_> = all.iter().map(|(u, _)| ident(u)).collect();
            let ok = v.iter().all(|(u, _)| all_ids.contains(&ident(u)));
            s.oracle("offer-subset-of-all", ok, input, || format!("offer={shown} all={}", show_offered(&all_offer)));
        }
        if let (Ok(Ok(_)), Ok(Err(e))) = (&off, &all_offer) {
            // format-1 glyph map lookups may fail only for the larger definition; anything else is suspicious
            s.count(&format!("all-errors-but-def-ok:{}", e.chars().take(30).collect::<String>()));
        }
        // oracle: monotone in the definition
        let extra = gen_def(rng, 90);
        let mut bigger = d.clone();
        bigger.union(&extra);
        let off2 = offered(&font, &bigger);
        if let (Ok(Ok(v)), Ok(Ok(v2))) = (&off, &off2) {
            let ids2: BTreeSet<_> = v2.iter().map(|(u, _)| ident(u)).collect();
            let ok = v.iter().all(|(u, _)| ids2.contains(&ident(u)));
            s.oracle("offer-monotone", ok,
                || format!("{} ; bigger={}", input(), def_tokens(&bigger)),
                || format!("offer={shown} offer(bigger)={}", show_offered(&off2)));
            // intersection sizes only grow
            let ok2 = v.iter().all(|(u, _)| v2.iter().any(|(u2, _)| ident(u2) == ident(u)
                && u2.intersecting_codepoints >= u.intersecting_codepoints && u2.intersecting_layout_tags >= u.intersecting_layout_tags));
            s.oracle("intersection-size-monotone", ok2,
                || format!("{} ; bigger={}", input(), def_tokens(&bigger)),
                || format!("offer={shown} offer(bigger)={}", show_offered(&off2)));
        }
        // selection
        let sel = catch(|| {
            let f = FontRef::new(&font).map_err(|e| read_err(&e))?;
            match PatchGroup::select_next_patches(f, &d) {
                Err(e) => Err(read_err(&e)),
                Ok(g) => {
                    let view = pgh::group_view(&g);
                    let uris: Vec<String> = g.uris().map(|u| u.to_string()).collect();
                    Ok((view, g.has_uris(), uris, pgh::invalidating_uris(&g)))
                }
            }
        });
        let sel_shown = match &sel {
            Err(p) => format!("panic:{p}"),
            Ok(Err(e)) => e.clone(),
            Ok(Ok((view, has, uris, _))) => format!("{} has={} uris={}", show_group(view), if *has { 1 } else { 0 },
                show_list(&uris.iter().map(|u| hex(u.as_bytes())).collect::<Vec<_>>())),
        };
        s.case("select", format!("select {dt} {ta} {tb}"), sel_shown.clone());
        let sinput = || format!("select {dt} {ta} {tb} | font={}", hex(&font));
        s.oracle("select-no-panic", sel.is_ok(), sinput, || sel_shown.clone());
        if let Ok(Ok((view, has, uris, inval))) = &sel {
            match view { None => s.count("select:none"), Some(pgh::GroupView::Full(_)) => s.count("select:full"),
                Some(pgh::GroupView::Mixed { ift, iftx }) => {
                    let k = |x: &pgh::ScopeView| match x { pgh::ScopeView::PartialInvalidation(_) => "P".to_string(), pgh::ScopeView::NoInvalidation(m) => format!("N{}", m.len().min(3)) };
                    s.count(&format!("select:mixed:{}:{}", k(ift), k(iftx)));
                } }
            let set: BTreeSet<&String> = uris.iter().collect();
            s.oracle("group-no-duplicate-uri", set.len() == uris.len(), sinput, || sel_shown.clone());
            s.oracle("has_uris-iff-uris-nonempty", *has == !uris.is_empty(), sinput, || sel_shown.clone());
            if let Some(g) = view {
                let (n_ift, n_iftx, full) = match g {
                    pgh::GroupView::Full(p) => (!p.is_iftx as usize, p.is_iftx as usize, true),
                    pgh::GroupView::Mixed { ift, iftx } => {
                        let mut a = 0; let mut b = 0;
                        for sc in [ift, iftx] { if let pgh::ScopeView::PartialInvalidation(p) = sc { if p.is_iftx { b += 1 } else { a += 1 } } }
                        (a, b, false)
                    }
                };
                s.oracle("at-most-one-invalidating-per-table", n_ift <= 1 && n_iftx <= 1, sinput, || sel_shown.clone());
                if full { s.oracle("full-invalidation-alone", uris.len() == 1, sinput, || sel_shown.clone()); }
                // chosen invalidating patches are maxima of their class (largest intersection, then
                // earliest entry), identified by (table, application bit) - the same uri may be
                // offered by both tables
                if let Ok(Ok(v)) = &off {
                    let any_full = v.iter().any(|(u, _)| fmt_number(&u.encoding) == 1);
                    s.oracle("full-candidate-forces-full-group", any_full == full, sinput, || format!("{sel_shown} offered={shown}"));
                    let mut chosen: Vec<(&pgh::PatchInfoView, u8)> = vec![];
                    let mut ift_uri: Option<&String> = None;
                    match g {
                        pgh::GroupView::Full(p) => chosen.push((p, 1)),
                        pgh::GroupView::Mixed { ift, iftx } => {
                            if let pgh::ScopeView::PartialInvalidation(p) = ift { chosen.push((p, 2)); ift_uri = Some(&p.uri); }
                            if let pgh::ScopeView::PartialInvalidation(p) = iftx { chosen.push((p, 2)); }
                        }
                    }
                    s.oracle("invalidating-uris-are-the-slots", inval.len() == chosen.len() && inval.iter().zip(chosen.iter()).all(|(a, (p, _))| *a == p.uri), sinput, || sel_shown.clone());
                    for (k, (p, class_fmt)) in chosen.iter().enumerate() {
                        let me = v.iter().find(|(u, _)| ident(u) == (p.is_iftx, p.application_flag_bit_index));
                        match me {
                            None => s.oracle("invalidating-choice-is-offered", false, sinput, || format!("{sel_shown} offered={shown}")),
                            Some((me, me_uri)) => {
                                s.oracle("invalidating-choice-is-offered", fmt_number(&me.encoding) == *class_fmt && me_uri.as_ref().ok() == Some(&p.uri), sinput, || format!("{sel_shown} offered={shown}"));
                                let key = info_key(me);
                                let second_slot = *class_fmt == 2 && k == 1;
                                let beaten = v.iter().any(|(u, us)| fmt_number(&u.encoding) == *class_fmt && us.is_ok()
                                    && (*class_fmt == 1 || u.is_iftx == p.is_iftx)
                                    // a partial candidate of the second table is excluded if it is the uri picked for the first
                                    && !(second_slot && us.as_ref().ok() == ift_uri)
                                    && info_key(u) > key);
                                s.oracle("invalidating-choice-is-max", !beaten, sinput, || format!("{sel_shown} offered={shown}"));
                            }
                        }
                    }
                    // every selected patch is an offered one
                    let all_infos: Vec<&pgh::PatchInfoView> = match g {
                        pgh::GroupView::Full(p) => vec![p],
                        pgh::GroupView::Mixed { ift, iftx } => [ift, iftx].into_iter().flat_map(|sc| match sc {
                            pgh::ScopeView::PartialInvalidation(p) => vec![p],
                            pgh::ScopeView::NoInvalidation(m) => m.iter().collect(),
                        }).collect(),
                    };
                    let ok = all_infos.iter().all(|p| v.iter().any(|(u, us)| ident(u) == (p.is_iftx, p.application_flag_bit_index) && us.as_ref().ok() == Some(&p.uri)));
                    s.oracle("group-is-subset-of-offer", ok, sinput, || format!("{sel_shown} offered={shown}"));
                    // progress: a non-empty offer with at least one usable candidate yields uris
                    if !v.is_empty() { s.oracle("nonempty-offer-gives-nonempty-group", *has, sinput, || format!("{sel_shown} offered={shown}")); }
                }
            }
        }
    }
}


// ------------------------------------------------------------------------------------------
// byte level: the model parses the RAW table bytes itself (Model/PatchMapBytes.lean)
// ------------------------------------------------------------------------------------------

/// byte mutation / truncation families on a built table
fn mutate_table(rng: &mut Rng, orig: &[u8]) -> (Vec<u8>, &'static str) {
    let mut b = orig.to_vec();
    match rng.below(10) {
        0 | 1 => (b, "orig"),
        2 | 3 => {
            if b.is_empty() { return (b, "orig"); }
            let i = rng.below(b.len() as u64) as usize;
            b[i] = match rng.below(6) { 0 => 0, 1 => 0xFF, 2 => b[i].wrapping_add(1), 3 => b[i] ^ (1 << rng.below(8)), _ => rng.next() as u8 };
            (b, "flip")
        }
        4 | 5 => { let n = rng.below(b.len() as u64 + 1) as usize; b.truncate(n); (b, "trunc") }
        6 => { let n = b.len().saturating_sub(1 + rng.below(4) as usize); b.truncate(n); (b, "trunc-tail") }
        7 => { for _ in 0..(1 + rng.below(6)) { b.push(rng.next() as u8); } (b, "extend") }
        _ => {
            // targeted header fields: format byte, field flags, counts, the two offsets, template length
            if b.len() < 36 { return (b, "orig"); }
            let len = b.len() as u32;
            let off = |rng: &mut Rng| -> u32 { match rng.below(6) { 0 => 0, 1 => len, 2 => len + 1, 3 => len.saturating_sub(1), 4 => 0xFFFF_FFFF, _ => rng.below(len as u64 + 2) as u32 } };
            match rng.below(8) {
                0 => b[0] = *rng.pick(&[0u8, 1, 2, 3]),
                1 => b[4] = rng.below(4) as u8,
                2 => { if b[0] == 2 { let o = off(rng); b[25..29].copy_from_slice(&o.to_be_bytes()); } else { let o = off(rng); b[28..32].copy_from_slice(&o.to_be_bytes()); } }
                3 => { if b[0] == 2 { let o = off(rng); b[29..33].copy_from_slice(&o.to_be_bytes()); } else { let o = off(rng); b[32..36].copy_from_slice(&o.to_be_bytes()); } }
                4 => { if b[0] == 2 { let c = u24(rng.below(12) as u32); b[22..25].copy_from_slice(&c); } else { let v = (rng.below(600) as u16).to_be_bytes(); b[21..23].copy_from_slice(&v); } }
                5 => { if b[0] == 2 { let v = (rng.below(len as u64 + 4) as u16).to_be_bytes(); b[33..35].copy_from_slice(&v); } else { let v = (rng.below(40) as u16).to_be_bytes(); b[23..25].copy_from_slice(&v); } }
                6 => { if b[0] == 2 { b[21] = rng.below(6) as u8; } else { let c = u24(rng.below(30) as u32); b[25..28].copy_from_slice(&c); } }
                _ => { let i = 5 + rng.below(16) as usize; b[i] = rng.next() as u8; }
            }
            (b, "field")
        }
    }
}

fn raw_tok(t: &Option<Vec<u8>>) -> String {
    match t { None => "N".into(), Some(b) => format!("B {}", hex(b)) }
}

fn bytes_cases(s: &mut Session, rng: &mut Rng, n: usize) {
    for i in 0..n {
        let rich = i % 4 == 3;
        let sc = gen_scenario(rng, i % 3 == 0, if rich { 8 } else if i % 2 == 0 { 0 } else { 6 }, rich);
        // the unmutated tables (format 1 needs the real charmap only for its tokens, not its bytes)
        let a0 = sc.build_table(&sc.ift, &[]).map(|t| t.bytes);
        let b0 = sc.build_table(&sc.iftx, &[]).map(|t| t.bytes);
        let (a, fa) = match &a0 { Some(t) => { let (m, f) = mutate_table(rng, t); (Some(m), f) } None => (None, "none") };
        let (b, fb) = match &b0 { Some(t) => { let (m, f) = if rng.chance(1, 2) { mutate_table(rng, t) } else { (t.clone(), "orig") }; (Some(m), f) } None => (None, "none") };
        s.count(&format!("bytes:mut:{fa}")); s.count(&format!("bytes:mut2:{fb}"));
        let font = build_font(a.as_deref(), b.as_deref(), sc.maxp, &sc.cmap);
        // the two views of the character map (see Scenario::build)
        let (cm_inv, cm_map): (Vec<(u32, u32)>, Vec<(u32, u32)>) = {
            let f = FontRef::new(&font).unwrap();
            let cm = Charmap::new(&f);
            let mut v: Vec<(u32, u32)> = cm.mappings().map(|(c, g)| (c, g.to_u32())).collect();
            v.sort(); v.dedup();
            let mut cps: BTreeSet<u32> = v.iter().map(|(c, _)| *c).collect();
            cps.extend(sc.cmap.iter().map(|(c, _)| *c));
            cps.insert(0xFFFF);
            let mut w: Vec<(u32, u32)> = cps.into_iter().filter_map(|c| cm.map(c).map(|g| (c, g.to_u32()))).collect();
            w.sort(); w.dedup();
            (v, w)
        };
        // decoded entries of format-2 tables, straight from the bytes
        for (iftx, t) in [(false, &a), (true, &b)] {
            let Some(t) = t else { continue };
            if t.first() == Some(&1) && rng.chance(2, 3) { continue; }
            let r = catch(|| { let f = FontRef::new(&font).unwrap(); pmh::format2_entries(&f, iftx).map_err(|e| read_err(&e)) });
            let shown = match &r {
                Err(p) => format!("panic:{p}"),
                Ok(Err(e)) => e.clone(),
                Ok(Ok(es)) => show_list(&es.iter().map(|e| format!("<{}|ch[{}]{}|{}|{}|f{}|b{}>",
                    show_def(&e.subset_definition),
                    if e.child_indices.is_empty() { "-".into() } else { e.child_indices.iter().map(|c| c.to_string()).collect::<Vec<_>>().join(",") },
                    if e.conjunctive_child_match { "&" } else { "|" },
                    if e.ignored { "ign" } else { "live" },
                    show_id(&e.uri.id), fmt_number(&e.uri.encoding), e.uri.application_flag_bit_index)).collect::<Vec<_>>()),
            };
            match &r { Ok(Ok(_)) => s.count("f2b:ok"), Ok(Err(e)) => s.count(&format!("f2b:{}", e.chars().take(44).collect::<String>())), Err(_) => s.count("f2b:panic") }
            s.oracle("table-bytes-decode-no-panic", r.is_ok(), || format!("f2b {} {}", iftx as u8, hex(t)), || shown.clone());
            if let Ok(Ok(es)) = &r {
                // every decoded entry lies inside the table: its application bit addresses a table byte
                let ok = es.iter().all(|e| e.uri.application_flag_bit_index / 8 < t.len());
                s.oracle("decoded-entries-within-table", ok, || format!("f2b {} {}", iftx as u8, hex(t)), || shown.clone());
            }
            s.case("f2b", format!("f2b {} {}", iftx as u8, hex(t)), shown);
        }
        for _ in 0..3 {
            let d = if rng.chance(1, 4) { SubsetDefinition::all() } else { gen_def(rng, 90) };
            let cm = if d.codepoints.is_inverted() { &cm_inv } else { &cm_map };
            let mut req = format!("isectb {} {} {}", def_tokens(&d), sc.maxp, cm.len());
            for (c, g) in cm { req.push_str(&format!(" {c} {g}")); }
            req.push_str(&format!(" {} {}", raw_tok(&a), raw_tok(&b)));
            let off = offered(&font, &d);
            let shown = show_offered(&off);
            match &off { Ok(Ok(v)) => s.count(if v.is_empty() { "isectb:empty" } else { "isectb:nonempty" }),
                         Ok(Err(e)) => s.count(&format!("isectb:{}", e.chars().take(44).collect::<String>())), Err(_) => s.count("isectb:panic") }
            s.oracle("table-bytes-intersect-no-panic", off.is_ok(), || req.clone(), || shown.clone());
            if let Ok(Ok(v)) = &off {
                // application bits address bytes of their own table
                let ok = v.iter().all(|(u, _)| { let t = if u.is_iftx { &b } else { &a }; t.as_ref().map_or(false, |t| u.application_flag_bit_index / 8 < t.len()) });
                s.oracle("offered-application-bits-within-table", ok, || req.clone(), || shown.clone());
            }
            s.case("isectb", req, shown);
        }
    }
}

fn entries_offset_of(table: &[u8]) -> usize {
    u32::from_be_bytes([table[25], table[26], table[27], table[28]]) as usize
}

fn decode_cases(s: &mut Session, rng: &mut Rng, n: usize) {
    for _ in 0..n {
        let which = rng.below(2) as u8;
        let spec = gen_f2(rng, which, &F2Opts { max_entries: 9, allow_errors: true, glyph_keyed_bias: 3 });
        let t = spec.build();
        let font = if which == 0 { build_font(Some(&t.bytes), None, 3, &[]) } else { build_font(None, Some(&t.bytes), 3, &[]) };
        let r = catch(|| {
            let f = FontRef::new(&font).unwrap();
            pmh::format2_entries(&f, which == 1).map_err(|e| read_err(&e))
        });
        let shown = match &r {
            Err(p) => format!("panic:{p}"),
            Ok(Err(e)) => e.clone(),
            Ok(Ok(es)) => show_list(&es.iter().map(|e| format!("<{}|ch[{}]{}|{}|{}|f{}|b{}>",
                show_def(&e.subset_definition),
                if e.child_indices.is_empty() { "-".into() } else { e.child_indices.iter().map(|c| c.to_string()).collect::<Vec<_>>().join(",") },
                if e.conjunctive_child_match { "&" } else { "|" },
                if e.ignored { "ign" } else { "live" },
                show_id(&e.uri.id), fmt_number(&e.uri.encoding), e.uri.application_flag_bit_index)).collect::<Vec<_>>()),
        };
        match &r { Ok(Ok(es)) => { s.count("f2dec:ok"); s.count(&format!("f2dec:entries{}", es.len().min(9))); }
                   Ok(Err(e)) => s.count(&format!("f2dec:{}", e.chars().take(48).collect::<String>())), Err(_) => s.count("f2dec:panic") }
        s.oracle("f2dec-no-panic", r.is_ok(), || format!("f2dec {which} {} | table={}", t.tokens, hex(&t.bytes)), || shown.clone());
        if let Ok(Ok(es)) = &r {
            // the decoded entries say what the table bytes were built from
            let mut bad: Vec<String> = vec![];
            if es.len() != spec.raws.len() { bad.push(format!("entry count {} vs {}", es.len(), spec.raws.len())); }
            for (i, (e, r)) in es.iter().zip(spec.raws.iter()).enumerate() {
                let mode = (r.flags >> 4) & 3;
                let bias = match mode { 2 | 3 => r.bias as u64, _ => 0 };
                let mut want = IntSet::<u32>::empty();
                if mode != 0 { for c in r.cps.iter() { let v = c as u64 + bias; if v <= 0x10FFFF { want.insert(v as u32); } } }
                if e.subset_definition.codepoints != want { bad.push(format!("entry {i}: codepoints {} vs {}", show_ranges_u32(&e.subset_definition.codepoints), show_ranges_u32(&want))); }
                let wf: BTreeSet<Tag> = if r.flags & 1 != 0 { r.feats.iter().copied().collect() } else { BTreeSet::new() };
                if e.subset_definition.feature_tags != FeatureSet::Set(wf) { bad.push(format!("entry {i}: features")); }
                if e.ignored != (r.flags & 0x40 != 0) { bad.push(format!("entry {i}: ignored flag")); }
                // application bit = bit 6 of the entry's own format-flags byte (entries offset + sizes of the entries before it)
                let start: usize = entries_offset_of(&t.bytes) + spec.raws[..i].iter().map(|x| x.encode(spec.id_strings.is_some()).len()).sum::<usize>();
                if e.uri.application_flag_bit_index != start * 8 + 6 || t.bytes.get(start) != Some(&r.flags) {
                    bad.push(format!("entry {i}: application bit {} but its flags byte is byte {start} of the table", e.uri.application_flag_bit_index));
                }
                let wc: Vec<usize> = if r.flags & 2 != 0 { r.children.iter().map(|c| *c as usize).collect() } else { vec![] };
                if e.child_indices != wc { bad.push(format!("entry {i}: children")); }
                if e.conjunctive_child_match != (r.flags & 2 != 0 && r.child_byte & 0x80 != 0) { bad.push(format!("entry {i}: conjunctive flag")); }
                let wfmt = if r.flags & 8 != 0 { r.fmt } else { spec.default_format };
                if fmt_number(&e.uri.encoding) != wfmt { bad.push(format!("entry {i}: format")); }
                if let DesignSpace::Ranges(m) = &e.subset_definition.design_space {
                    let mut wm: HashMap<Tag, RangeSet<Fixed>> = HashMap::new();
                    if r.flags & 1 != 0 { for (t, a, b) in &r.segs { wm.entry(*t).or_default().insert(Fixed::from_bits(*a)..=Fixed::from_bits(*b)); } }
                    if *m != wm { bad.push(format!("entry {i}: design space")); }
                } else { bad.push(format!("entry {i}: design space All")); }
            }
            s.oracle("decoded-entries-match-the-table-spec", bad.is_empty(), || format!("f2dec {which} {} | table={}", t.tokens, hex(&t.bytes)), || bad.join("; "));
            let ok = es.iter().enumerate().all(|(i, e)| e.child_indices.iter().all(|c| *c < i));
            s.oracle("children-refer-to-prior-entries", ok, || format!("f2dec {which} {}", t.tokens), || shown.clone());
        }
        s.case("f2dec", format!("f2dec {which} {}", t.tokens), shown);
    }
}

/// `expand_template(template, id)` observed through a one-entry format-2 table (`Err(())` = UriTemplateError)
fn real_uri(rng: &mut Rng, template: &[u8], id: &PatchId) -> Result<Result<String, ()>, String> {
    let raw = |delta: i32| RawSpec { flags: 4, feats: vec![], segs: vec![], child_byte: 0, children: vec![], delta, fmt: 0, bias: 0, cps: IntSet::empty(), bf: 0, bad_cps: false };
    let spec = match id {
        PatchId::String(b) => F2Spec { compat: gen_compat(rng, 0), default_format: 3, id_strings: Some(b.clone()), template: template.to_vec(), raws: vec![raw(b.len() as i32)], field_flags: 0 },
        PatchId::Numeric(n) => F2Spec { compat: gen_compat(rng, 0), default_format: 3, id_strings: None, template: template.to_vec(), raws: vec![raw(*n as i32 - 1)], field_flags: 0 },
    };
    let t = spec.build();
    let font = build_font(Some(&t.bytes), None, 3, &[]);
    catch(|| {
        let f = FontRef::new(&font).unwrap();
        let v = intersecting_patches(&f, &SubsetDefinition::all()).unwrap();
        v[0].uri_string().map_err(|_| ())
    })
}

/// IFT uri template expansion written straight from the specification, for templates made of
/// `{id}` `{id64}` `{d1}`..`{d4}` and literals that are copied verbatim (independent of uri_templates.rs
/// and of the Lean model): id bytes = big-endian u32 without leading zero bytes / the id string;
/// {id} = base32hex without padding; {id64} = base64url with '=' padding, percent-encoded;
/// {dN} = N-th character of {id} counted from the end, '_' if there is none.
fn reference_expand(template: &[u8], id: &PatchId) -> Option<String> {
    let bytes: Vec<u8> = match id {
        PatchId::Numeric(n) => { let b = n.to_be_bytes(); let skip = b.iter().take_while(|x| **x == 0).count().min(3); b[skip..].to_vec() }
        PatchId::String(b) => b.clone(),
    };
    let enc = |alphabet: &[u8], bits_per: usize| -> Vec<u8> {
        let mut out = vec![]; let mut acc: u32 = 0; let mut n = 0usize;
        for b in &bytes { acc = (acc << 8) | *b as u32; n += 8; while n >= bits_per { out.push(alphabet[((acc >> (n - bits_per)) & ((1 << bits_per) - 1)) as usize]); n -= bits_per; } }
        if n > 0 { out.push(alphabet[((acc << (bits_per - n)) & ((1 << bits_per) - 1)) as usize]); }
        out
    };
    let id32 = enc(b"0123456789ABCDEFGHIJKLMNOPQRSTUV", 5);
    let mut id64: Vec<u8> = enc(b"ABCDEFGHIJKLMNOPQRSTUVWXYZabcdefghijklmnopqrstuvwxyz0123456789-_", 6);
    let pads = (4 - id64.len() % 4) % 4;
    for _ in 0..pads { id64.extend(b"%3D"); }
    let mut out: Vec<u8> = vec![]; let mut i = 0;
    while i < template.len() {
        if template[i] == b'{' {
            let end = template[i..].iter().position(|c| *c == b'}')? + i;
            match &template[i + 1..end] {
                b"id" => out.extend(&id32),
                b"id64" => out.extend(&id64),
                [b'd', n @ b'1'..=b'4'] => { let k = (*n - b'0') as usize; out.push(if id32.len() >= k { id32[id32.len() - k] } else { b'_' }); }
                _ => return None,
            }
            i = end + 1;
        } else { out.push(template[i]); i += 1; }
    }
    String::from_utf8(out).ok()
}

/// different entry ids => different uris whenever the template contains {id} or {id64}
/// (model independent; includes the different-byte-length pairs the Lean theorem leaves conditional)
fn uri_injectivity_cases(s: &mut Session, rng: &mut Rng, n: usize) {
    let pieces: [&[u8]; 14] = [b"{id}", b"{id64}", b"{d1}", b"{d2}", b"{d3}", b"{d4}", b"/", b"0", b"A", b"%3D", b"_", b"-", b"V", b"="];
    for _ in 0..n {
        let mut template: Vec<u8> = vec![];
        let k = 1 + rng.below(5);
        for _ in 0..k { template.extend(*rng.pick(&pieces)); }
        let has_sub = template.windows(4).any(|w| w == b"{id}") || template.windows(6).any(|w| w == b"{id64}");
        if !has_sub { template.extend(if rng.chance(1, 2) { &b"{id}"[..] } else { &b"{id64}"[..] }); }
        let (a, b) = if rng.chance(1, 2) {
            let pool = [1u32, 2, 31, 32, 255, 256, 257, 65535, 65536, 0x7FFFFF, 0x7FFFFE, 1000, 1024];
            let x = if rng.chance(1, 2) { *rng.pick(&pool) } else { 1 + rng.below(0x7FFFFE) as u32 };
            let mut y = if rng.chance(1, 2) { *rng.pick(&pool) } else { 1 + rng.below(0x7FFFFE) as u32 };
            if x == y { y = if y > 1 { y - 1 } else { y + 1 }; }
            (PatchId::Numeric(x), PatchId::Numeric(y))
        } else {
            let mk = |rng: &mut Rng| -> Vec<u8> { (0..rng.below(5)).map(|_| *rng.pick(&[0u8, 1, 7, 0x3F, 0x40, 0xFF, 0xFB, 0xF0])).collect() };
            let x = mk(rng);
            let mut y = mk(rng);
            if x == y { y.push(1); }
            (PatchId::String(x), PatchId::String(y))
        };
        let ua = real_uri(rng, &template, &a);
        let ub = real_uri(rng, &template, &b);
        for (id, got) in [(&a, &ua), (&b, &ub)] {
            if let Ok(got) = got {
                let want = reference_expand(&template, id);
                s.oracle("uri-equals-reference-expansion", got.as_ref().ok() == want.as_ref(),
                    || format!("template={} id {}", hex(&template), show_id(id)),
                    || format!("expanded to {:?}, the IFT rules give {:?}", got, want));
            }
        }
        if let (Ok(Ok(ua)), Ok(Ok(ub))) = (&ua, &ub) {
            let same_len = match (&a, &b) { (PatchId::String(x), PatchId::String(y)) => x.len() == y.len(),
                (PatchId::Numeric(x), PatchId::Numeric(y)) => (32 - x.leading_zeros() + 7) / 8 == (32 - y.leading_zeros() + 7) / 8, _ => false };
            s.count(if same_len { "uri-inj:same-byte-length" } else { "uri-inj:different-byte-length" });
            s.oracle("uri-injective-on-ids", ua != ub,
                || format!("template={} ids {} / {}", hex(&template), show_id(&a), show_id(&b)),
                || format!("both expand to {}", hex(ua.as_bytes())));
        } else { s.count("uri-inj:not-expanded"); }
    }
}

fn uri_cases(s: &mut Session, rng: &mut Rng, n: usize) {
    // expand_template is crate-private: observe it through a one-entry format-2 table
    for i in 0..n {
        let template: Vec<u8> = if i < 768 {
            // every byte value in literal position, and after '%' / inside an expression
            let b = (i / 3) as u8;
            match i % 3 { 0 => vec![b'a', b, b'{', b'i', b'd', b'}'], 1 => vec![b'%', b, b'4'], _ => vec![b'{', b'd', b, b'}'] }
        } else if rng.chance(1, 3) { gen_template(rng) } else {
            let pool = b"{}idd1234%6AaZz/_-.~ =?#\x7f\x80\xc9";
            (0..rng.below(10)).map(|_| *rng.pick(pool)).collect()
        };
        if std::str::from_utf8(&template).is_err() { s.count("uri:non-utf8-template-skipped"); continue; }
        let use_str = rng.chance(1, 3);
        let (spec, idtok) = if use_str {
            let id: Vec<u8> = (0..rng.below(7)).map(|_| rng.next() as u8).collect();
            let mut sp = F2Spec { compat: gen_compat(rng, 0), default_format: 3, id_strings: Some(id.clone()), template: template.clone(), raws: vec![], field_flags: 0 };
            sp.raws.push(RawSpec { flags: 4, feats: vec![], segs: vec![], child_byte: 0, children: vec![], delta: id.len() as i32, fmt: 0, bias: 0, cps: IntSet::empty(), bf: 0, bad_cps: false });
            (sp, format!("s {}", hex(&id)))
        } else {
            let idv: u32 = match rng.below(8) { 0 => 0, 1 => 255, 2 => 256, 3 => 0x7FFFFF, 4 => 65536, 5 => 31, _ => rng.below(0x7FFFFF) as u32 };
            let mut sp = F2Spec { compat: gen_compat(rng, 0), default_format: 3, id_strings: None, template: template.clone(), raws: vec![], field_flags: 0 };
            // id = 0 + 1 + delta
            sp.raws.push(RawSpec { flags: 4, feats: vec![], segs: vec![], child_byte: 0, children: vec![], delta: idv as i32 - 1, fmt: 0, bias: 0, cps: IntSet::empty(), bf: 0, bad_cps: false });
            (sp, format!("n {idv}"))
        };
        let t = spec.build();
        let font = build_font(Some(&t.bytes), None, 3, &[]);
        let r = catch(|| {
            let f = FontRef::new(&font).unwrap();
            let v = intersecting_patches(&f, &SubsetDefinition::all()).unwrap();
            v[0].uri_string().map_err(|_| ())
        });
        let shown = match &r { Err(p) => format!("panic:{p}"), Ok(Err(_)) => "err".into(), Ok(Ok(u)) => hex(u.as_bytes()) };
        match &r { Ok(Ok(_)) => s.count("uri:ok"), Ok(Err(_)) => s.count("uri:err"), Err(_) => s.count("uri:panic") }
        s.oracle("uri-no-panic", r.is_ok(), || format!("uri {} {idtok}", hex(&template)), || shown.clone());
        if let Ok(Ok(u)) = &r {
            s.oracle("uri-is-ascii", u.is_ascii(), || format!("uri {} {idtok}", hex(&template)), || shown.clone());
        }
        s.case("uri", format!("uri {} {idtok}", hex(&template)), shown);
    }
}

// ------------------------------------------------------------------------------------------
// whole extension runs
// ------------------------------------------------------------------------------------------

fn tk_patch(compat: &[u8; 16], repl: &[(Tag, Vec<u8>)]) -> Vec<u8> {
    let mut b: Vec<u8> = b"iftk".to_vec();
    b.extend([0u8; 4]);
    b.extend(compat);
    b.extend((repl.len() as u16).to_be_bytes());
    let off_pos = b.len();
    b.extend(vec![0u8; 4 * (repl.len() + 1)]);
    for (i, (tag, data)) in repl.iter().enumerate() {
        let off = b.len() as u32;
        b[off_pos + 4 * i..off_pos + 4 * i + 4].copy_from_slice(&off.to_be_bytes());
        b.extend(tag.to_be_bytes());
        b.push(1); // REPLACE_TABLE
        b.extend((data.len() as u32).to_be_bytes());
        b.extend(data);
    }
    let end = b.len() as u32;
    b[off_pos + 4 * repl.len()..off_pos + 4 * repl.len() + 4].copy_from_slice(&end.to_be_bytes());
    b
}

fn gk_patch(compat: &[u8; 16]) -> Vec<u8> {
    let mut stream: Vec<u8> = vec![];
    stream.extend(0u32.to_be_bytes()); // glyph count
    stream.push(1); // table count
    stream.extend(b"zzzz");
    stream.extend(0u32.to_be_bytes());
    let mut b: Vec<u8> = b"ifgk".to_vec();
    b.extend([0u8; 4]);
    b.push(0);
    b.extend(compat);
    b.extend((stream.len() as u32).to_be_bytes());
    b.extend(stream);
    b
}

fn table_compat(t: &TableSpec) -> Option<[u8; 16]> {
    match t { TableSpec::None => None, TableSpec::F1(s) => Some(s.compat), TableSpec::F2(s) => Some(s.compat) }
}

fn run_cases(s: &mut Session, rng: &mut Rng, n: usize) {
    for _ in 0..n {
        // pool of table states; state 0/1 are the initial IFT / IFTX tables
        let npool = 2 + rng.below(4) as usize;
        let mut pool: Vec<(TableSpec, u8)> = vec![];
        let base_template = gen_template(rng);
        for k in 0..npool {
            let which = if k == 0 { 0 } else if k == 1 { 1 } else { rng.below(2) as u8 };
            let mut t = gen_f2(rng, which, &F2Opts { max_entries: 5, allow_errors: false, glyph_keyed_bias: 5 });
            if rng.chance(2, 3) { t.template = base_template.clone(); }
            if rng.chance(1, 3) { for r in t.raws.iter_mut() { if rng.chance(1, 2) { r.flags |= 0x40; } } }
            pool.push((TableSpec::F2(t), which));
        }
        let has_iftx = rng.chance(2, 3);
        let sc = Scenario { ift: pool[0].0.clone(), iftx: if has_iftx { pool[1].0.clone() } else { TableSpec::None }, maxp: 3, cmap: vec![] };
        let (font0, ta, tb) = sc.build(true);
        let pool_built: Vec<BuiltTable> = pool.iter().map(|(t, _)| sc.build_table(t, &[]).unwrap()).collect();
        // the universe of uris: every entry of every pool table, offered under "all"
        let mut server: Vec<(String, u8, [u8; 16], Option<usize>, Option<usize>)> = vec![];
        let mut known: BTreeSet<String> = BTreeSet::new();
        for (k, (t, which)) in pool.iter().enumerate() {
            let f = if *which == 0 { build_font(Some(&pool_built[k].bytes), None, 3, &[]) } else { build_font(None, Some(&pool_built[k].bytes), 3, &[]) };
            let Ok(Ok(v)) = offered(&f, &SubsetDefinition::all()) else { continue };
            let mut spec_all = match t { TableSpec::F2(x) => x.clone(), _ => unreachable!() };
            for r in spec_all.raws.iter_mut() { r.flags &= !0x40; }
            let f_all = { let b = spec_all.build(); if *which == 0 { build_font(Some(&b.bytes), None, 3, &[]) } else { build_font(None, Some(&b.bytes), 3, &[]) } };
            let v_all = match offered(&f_all, &SubsetDefinition::all()) { Ok(Ok(x)) => x, _ => v };
            for (u, us) in v_all {
                let Ok(us) = us else { continue };
                if rng.chance(1, 25) || !known.insert(us.clone()) { continue; }
                let kind = if fmt_number(&u.encoding) == 3 { 1 } else { 0 };
                let compat = if rng.chance(1, 20) { gen_compat(rng, 0) } else { table_compat(t).unwrap() };
                let (ni, nx) = if kind == 0 {
                    // replace the table of the same kind as the source (keeps the font well formed), sometimes the other one too
                    let pick = |rng: &mut Rng, w: u8| -> Option<usize> { let c: Vec<usize> = (0..npool).filter(|j| pool[*j].1 == w).collect(); if c.is_empty() { None } else { Some(*rng.pick(&c)) } };
                    let same = pick(rng, *which);
                    let other = if rng.chance(1, 4) { pick(rng, 1 - *which) } else { None };
                    if *which == 0 { (same, other) } else { (other, same) }
                } else { (None, None) };
                server.push((us, kind, compat, ni, nx));
            }
        }
        let d = if rng.chance(1, 3) { SubsetDefinition::all() } else { gen_def(rng, 90) };
        // ---- real run ----
        let patches: HashMap<String, Vec<u8>> = server.iter().map(|(u, kind, compat, ni, nx)| {
            let bytes = if *kind == 1 { gk_patch(compat) } else {
                let mut repl = vec![];
                if let Some(i) = ni { repl.push((Tag::new(b"IFT "), pool_built[*i].bytes.clone())); }
                if let Some(i) = nx { repl.push((Tag::new(b"IFTX"), pool_built[*i].bytes.clone())); }
                tk_patch(compat, &repl)
            };
            (u.clone(), bytes)
        }).collect();
        let fuel = 40usize;
        let real = catch(|| {
            let mut out: Vec<String> = vec![];
            let mut font = font0.clone();
            let mut pd: HashMap<String, UriStatus> = HashMap::new();
            let mut progress_ok = true;
            let mut rounds = 0usize;
            for _ in 0..fuel {
                let f = FontRef::new(&font).unwrap();
                let g = match PatchGroup::select_next_patches(f, &d) { Ok(g) => g, Err(e) => { out.push(format!("select:{}", read_err(&e))); return (out, progress_ok, rounds, true); } };
                let applied_before = pd.values().filter(|v| **v == UriStatus::Applied).count();
                if !g.has_uris() { out.push(format!("done:{applied_before}")); return (out, progress_ok, rounds, true); }
                let uris: Vec<String> = g.uris().map(|u| u.to_string()).collect();
                let shown = format!("[{}]", uris.iter().map(|u| hex(u.as_bytes())).collect::<Vec<_>>().join(","));
                if uris.iter().any(|u| !patches.contains_key(u) && !pd.contains_key(u)) { out.push(shown); out.push("fetch-failed".into()); return (out, progress_ok, rounds, true); }
                for u in &uris { if !pd.contains_key(u) { pd.insert(u.clone(), UriStatus::Pending(patches[u].clone())); } }
                match g.apply_next_patches_with_decoder(&mut pd, &NoopBrotliDecoder) {
                    Err(e) => { out.push(shown); out.push(format!("apply:{}", patching_err(&e))); return (out, progress_ok, rounds, true); }
                    Ok(newfont) => {
                        let applied_after = pd.values().filter(|v| **v == UriStatus::Applied).count();
                        if applied_after <= applied_before { progress_ok = false; }
                        out.push(format!("{shown}+{applied_after}"));
                        font = newfont;
                        rounds += 1;
                    }
                }
            }
            out.push("fuel".into());
            (out, progress_ok, rounds, false)
        });
        let mut req = format!("run {} {ta} {tb} {}", def_tokens(&d), pool_built.len());
        for t in &pool_built { req.push(' '); req.push_str(&t.tokens); }
        req.push_str(&format!(" {}", server.len()));
        let compat_str = |c: &[u8; 16]| compat_num(c);
        for (u, kind, compat, ni, nx) in &server {
            req.push_str(&format!(" {} {} {} {} {}", hex(u.as_bytes()), kind, compat_str(compat),
                ni.map(|i| i as i64).unwrap_or(-1), nx.map(|i| i as i64).unwrap_or(-1)));
        }
        req.push_str(&format!(" {fuel}"));
        let shown = match &real { Err(p) => format!("panic:{p}"), Ok((out, _, _, _)) => show_list(out) };
        s.oracle("run-no-panic", real.is_ok(), || req.clone(), || shown.clone());
        if let Ok((out, progress_ok, rounds, terminated)) = &real {
            s.oracle("round-applies-a-new-uri", *progress_ok, || req.clone(), || shown.clone());
            s.oracle("extension-terminates", *terminated && *rounds <= server.len(), || req.clone(), || format!("rounds={rounds} server={} {shown}", server.len()));
            s.count(&format!("run:rounds{}", (*rounds).min(6)));
            s.count(&format!("run:end:{}", out.last().map(|x| x.split(':').take(2).collect::<Vec<_>>().join(":")).unwrap_or_default().chars().take(40).collect::<String>()));
        }
        s.case("run", req, shown);
    }
}

// ------------------------------------------------------------------------------------------
// deep child chains in a child process (a stack overflow aborts the process)
// ------------------------------------------------------------------------------------------

fn chain_table(n: usize, all_ignored_but_last: bool) -> Vec<u8> {
    let mut raws = vec![];
    for i in 0..n {
        let ig = if all_ignored_but_last && i + 1 < n { 0x40 } else { 0 };
        raws.push(RawSpec { flags: ig | if i > 0 { 2 } else { 0 }, feats: vec![], segs: vec![], child_byte: if i > 0 { 0x81 } else { 0 },
            children: if i > 0 { vec![(i - 1) as u32] } else { vec![] }, delta: 0, fmt: 0, bias: 0, cps: IntSet::empty(), bf: 0, bad_cps: false });
    }
    F2Spec { compat: [1; 16], default_format: 3, id_strings: None, template: b"{id}".to_vec(), raws, field_flags: 0 }.build().bytes
}

fn child_chain(n: usize, ignored: bool) {
    let t = chain_table(n, ignored);
    let font = build_font(Some(&t), None, 3, &[]);
    // the same 2 MiB stack a spawned thread gets by default
    let h = std::thread::Builder::new().stack_size(2 << 20).spawn(move || {
        let f = FontRef::new(&font).unwrap();
        let r = intersecting_patches(&f, &SubsetDefinition::all());
        println!("chain-ok {}", r.map(|v| v.len() as i64).unwrap_or(-1));
    }).unwrap();
    let _ = h.join();
}

fn chain_cases(s: &mut Session, cfg: &Config) {
    let exe = std::env::current_exe().unwrap();
    let sizes: &[usize] = if cfg.thorough() { &[1000, 20_000, 200_000, 1_000_000] } else { &[1000, 20_000, 100_000] };
    for &n in sizes {
        for ignored in [false, true] {
            let out = std::process::Command::new(&exe).arg("--child-chain").arg(n.to_string()).arg(if ignored { "1" } else { "0" }).output();
            let (ok, detail) = match out {
                Ok(o) => {
                    let so = String::from_utf8_lossy(&o.stdout).to_string();
                    let expect = format!("chain-ok {}", if ignored { 1 } else { n });
                    (o.status.success() && so.trim() == expect, format!("status={:?} stdout={} stderr={}", o.status.code(), so.trim(), String::from_utf8_lossy(&o.stderr).chars().take(200).collect::<String>()))
                }
                Err(e) => (false, format!("spawn failed: {e}")),
            };
            s.oracle("deep-child-chain-no-stack-overflow", ok,
                || format!("format-2 table: chain of {n} entries, entry i has child i-1 (conjunctive), all but the last ignored={ignored}; intersecting_patches(all) on a 2 MiB stack"),
                || detail.clone());
            s.count("chain:cases");
        }
    }
}

/// format-1 feature map arithmetic on font-controlled counts (C02/C20): must not panic
fn f1_overflow_cases(s: &mut Session) {
    let mk = |max_entry: u16, recs: Vec<(Tag, u16, u16)>, n_em: usize| -> Vec<u8> {
        let spec = F1Spec { compat: [3; 16], max_entry, max_gm: 10, glyph_count: 2, bitmap: vec![0; (max_entry as usize + 8) / 8],
            template: b"{id}".to_vec(), patch_format: 3, first_gid: 0, entry_index: vec![0, 0],
            feature_map: Some((recs, vec![(0, 0); n_em], vec![])) };
        spec.build(2, &[]).bytes
    };
    let t = |b: &[u8; 4]| Tag::new(b);
    let cases: Vec<(&str, Vec<u8>)> = vec![
        ("first_new_entry_index=65535,count=2", mk(300, vec![(t(b"aaaa"), 65535, 2)], 2)),
        ("one record, 16385 wide entries", mk(300, vec![(t(b"aaaa"), 11, 16385)], 16385)),
        ("two records 40000+40000 wide entries", mk(300, vec![(t(b"aaaa"), 11, 40000), (t(b"bbbb"), 11, 40000)], 80000)),
        ("258 records x 255 narrow entries", mk(200, (0..258u32).map(|i| (Tag::from_be_bytes((0x61616161 + i).to_be_bytes()), 11u16, 255u16)).collect(), 258 * 255)),
    ];
    for (name, table) in cases {
        let font = build_font(Some(&table), None, 2, &[]);
        for all in [true, false] {
            let d = SubsetDefinition::new(IntSet::all(), if all { FeatureSet::All } else { FeatureSet::Set([t(b"aaaa"), t(b"zzzz")].into_iter().collect()) }, Default::default());
            let r = offered(&font, &d);
            s.oracle("format1-feature-map-arithmetic-no-panic", matches!(r, Ok(Ok(_))),
                || format!("format-1 feature map: {name}; features={}", if all { "all" } else { "{aaaa,zzzz}" }),
                || show_offered(&r));
        }
    }
}



/// The extension loop itself lives in `src/bin/ift_extend.rs` (not a library function).  Two ties:
/// (1) source tie: inside `for uri in next_patches.uris()` the status map is only written for uris
/// that have no status yet; (2) the library run on the smallest "patch that never marks its entry"
/// case with that client ends in an error in round 2, while a client that re-inserts `Pending`
/// (what the binary did before fix 980e661) spins until the fuel is gone.
fn extend_loop_cases(s: &mut Session) {
    let manifest = std::fs::read_to_string(concat!(env!("CARGO_MANIFEST_DIR"), "/Cargo.toml")).unwrap_or_default();
    let repo_path = manifest.lines().find(|l| l.starts_with("incremental-font-transfer"))
        .and_then(|l| l.split('"').nth(1)).unwrap_or("/repo/incremental-font-transfer").to_string();
    let src = std::fs::read_to_string(format!("{repo_path}/src/bin/ift_extend.rs")).unwrap_or_default();
    let guarded = (|| {
        let a = src.find("for uri in next_patches.uris()")?;
        let b = a + src[a..].find("patch_data.insert(")?;
        let body = &src[a..b];
        Some(body.contains("patch_data.contains_key(uri)") && body.contains("continue;"))
    })().unwrap_or(false);
    s.oracle("ift_extend-loop-keeps-applied-status", guarded,
        || format!("{repo_path}/src/bin/ift_extend.rs: for uri in next_patches.uris() {{ .. patch_data.insert(..) }}"),
        || "the loop writes Pending for a uri that already has a status (an applied uri would be applied again, forever)".into());

    let mut cps = IntSet::<u32>::empty();
    cps.insert(65);
    let spec = F2Spec { compat: [1; 16], default_format: 2, id_strings: None, template: b"{id}".to_vec(),
        raws: vec![RawSpec { flags: 0x10, feats: vec![], segs: vec![], child_byte: 0, children: vec![], delta: 0, fmt: 0, bias: 0, cps, bf: 0, bad_cps: false }],
        field_flags: 0 };
    let table = spec.build().bytes;
    let font0 = build_font(Some(&table), None, 3, &[]);
    let patch = tk_patch(&[1; 16], &[(Tag::new(b"IFT "), table.clone())]);
    for overwrite in [false, true] {
        let r = catch(|| {
            let mut font = font0.clone();
            let mut pd: HashMap<String, UriStatus> = HashMap::new();
            for round in 0..50usize {
                let f = FontRef::new(&font).unwrap();
                let g = PatchGroup::select_next_patches(f, &SubsetDefinition::all()).unwrap();
                if !g.has_uris() { return format!("done after {round}"); }
                let uris: Vec<String> = g.uris().map(|u| u.to_string()).collect();
                for u in uris { if overwrite || !pd.contains_key(&u) { pd.insert(u, UriStatus::Pending(patch.clone())); } }
                match g.apply_next_patches_with_decoder(&mut pd, &NoopBrotliDecoder) {
                    Ok(nf) => font = nf,
                    Err(e) => return format!("error {} after {round}", patching_err(&e)),
                }
            }
            "fuel".to_string()
        });
        let shown = match &r { Ok(x) => x.clone(), Err(p) => format!("panic:{p}") };
        if overwrite {
            s.count(&format!("loop:overwrite-client:{shown}"));
        } else {
            s.oracle("identity-patch-run-ends-with-error-in-round-2", shown == "error err:EmptyPatchList after 1",
                || "font with one partially invalidating entry (uri 04); patch 04 replaces 'IFT ' by the identical table; fetch-missing client".into(),
                || shown.clone());
        }
    }
}

/// a valid brotli stream holding `data` as one uncompressed meta-block (window bits 16)
fn brotli_stored(data: &[u8]) -> Vec<u8> {
    assert!(!data.is_empty() && data.len() <= 65536);
    let v: u32 = (((data.len() - 1) as u32) << 4) | (1 << 20);
    let mut b = vec![v as u8, (v >> 8) as u8, (v >> 16) as u8];
    b.extend(data);
    b.push(0x03);
    b
}

/// Files for the real `ift_extend` binary: a font whose only mapping entry names uri "04" (a
/// partially invalidating patch), and a patch "04" that replaces 'IFT ' by the identical table, i.e.
/// never marks the entry as applied.
fn emit_loop_case(dir: &str) {
    let mut cps = IntSet::<u32>::empty();
    cps.insert(65);
    let spec = F2Spec { compat: [1; 16], default_format: 2, id_strings: None, template: b"{id}".to_vec(),
        raws: vec![RawSpec { flags: 0x10, feats: vec![], segs: vec![], child_byte: 0, children: vec![], delta: 0, fmt: 0, bias: 0, cps, bf: 0, bad_cps: false }],
        field_flags: 0 };
    let table = spec.build().bytes;
    let font = build_font(Some(&table), None, 3, &[]);
    let patch = tk_patch(&[1; 16], &[(Tag::new(b"IFT "), brotli_stored(&table))]);
    // tk_patch wrote the stream length as max uncompressed length; that is >= the table length
    std::fs::write(format!("{dir}/font.ttf"), &font).unwrap();
    std::fs::write(format!("{dir}/04"), &patch).unwrap();
    let f = FontRef::new(&font).unwrap();
    let g = PatchGroup::select_next_patches(f, &SubsetDefinition::all()).unwrap();
    println!("uris: {:?}", g.uris().collect::<Vec<_>>());
}

fn run(cfg: &Config, s: &mut Session) {
    if std::env::var("C19_DEBUG").is_ok() {
        std::panic::set_hook(Box::new(|i| eprintln!("{i}")));
    }
    let mut rng = Rng::new(cfg.seed);
    let scale = if cfg.thorough() { 60 } else { 5 };
    uri_cases(s, &mut rng, 1500 * scale);
    uri_injectivity_cases(s, &mut rng, 600 * scale);
    decode_cases(s, &mut rng, 2500 * scale);
    for i in 0..(1200 * scale) {
        let rich = i % 4 == 3;
        let sc = gen_scenario(&mut rng, i % 3 == 0, if rich { 8 } else if i % 2 == 0 { 0 } else { 6 }, rich);
        isect_and_select(s, &mut rng, &sc, 4, rich);
    }
    bytes_cases(s, &mut rng, 700 * scale);
    run_cases(s, &mut rng, 400 * scale);
    f1_overflow_cases(s);
    extend_loop_cases(s);
    chain_cases(s, cfg);
    s.notes.push("the font's character map is taken as given (skrifa Charmap::mappings, property C08); sparse-bit-set / IntSet / RangeSet internals are property C14".into());
}

fn main() {
    let args: Vec<String> = std::env::args().collect();
    if args.len() == 3 && args[1] == "--emit-loop-case" {
        emit_loop_case(&args[2]);
        return;
    }
    if args.len() == 4 && args[1] == "--child-chain" {
        child_chain(args[2].parse().unwrap(), args[3] == "1");
        return;
    }
    fv_harness::main_with("C19", run)
}
