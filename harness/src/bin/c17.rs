//! C17 — subsetting preserves everything about the glyphs and characters it keeps.
//!
//! Real code: klippa `Plan::new` + `subset_font` (and, through `klippa::verif_hooks`, the per-glyph
//! rewrite `subset_glyph` / `trim_simple_glyph_padding`).
//! Correspondence (vs Model/Subset.lean): the plan (glyph sets, new->old list, unicode->new list,
//! output glyph count), the hmtx bytes + numberOfHMetrics, the glyf/loca bytes + loca format, maxp
//! numGlyphs, and the per-glyph rewrite on random / mutated glyph records.
//! Oracles (model independent): the subset is re-opened with read-fonts/skrifa and compared with
//! the original: glyph set ⊇ requested ∪ {.notdef} ∪ components, character map = renumbered
//! restriction, unhinted outlines at several sizes (and variation locations), advance, lsb, glyph
//! ids under retain-gids, subset-to-everything and re-subsetting change nothing.
use fv_harness::common::*;
use klippa::{subset_font, verif_hooks as vh, Plan, SubsetFlags};
use read_fonts::collections::IntSet;
use read_fonts::tables::glyf::Glyph;
use read_fonts::types::{GlyphId, NameId, Tag};
use read_fonts::{FontRead, FontRef, TableProvider};
use skrifa::instance::{Location, LocationRef, Size};
use skrifa::outline::{DrawSettings, OutlinePen};
use skrifa::MetadataProvider;
use std::collections::{BTreeMap, BTreeSet};
use write_fonts::FontBuilder;

#[path = "c17/cmapx.rs"]
mod cmapx;
#[path = "c17/gvar.rs"]
mod gvar;
#[path = "c17/hvar.rs"]
mod hvar;
#[path = "c17/locax.rs"]
mod locax;
#[path = "c17/outline.rs"]
mod outline;
#[path = "c17/postx.rs"]
mod postx;
#[path = "c17/colrx.rs"]
mod colrx;
#[path = "c17/layoutx.rs"]
mod layoutx;
#[path = "c17/palx.rs"]
mod palx;

const F_NO_HINTING: u16 = 0x0001;
const F_RETAIN_GIDS: u16 = 0x0002;
const F_SET_OVERLAPS: u16 = 0x0010;
const F_NOTDEF_OUTLINE: u16 = 0x0040;

// ---------------------------------------------------------------------------------------------
// raw glyph encoders (independent of write-fonts so that every byte-level feature is reachable)
// ---------------------------------------------------------------------------------------------

#[derive(Clone, Copy, Debug)]
struct Pt {
    x: i32,
    y: i32,
    on: bool,
}

fn push16(out: &mut Vec<u8>, v: i32) {
    out.extend_from_slice(&(v as i16).to_be_bytes());
}
fn pushu16(out: &mut Vec<u8>, v: u32) {
    out.extend_from_slice(&(v as u16).to_be_bytes());
}

/// Encode a simple glyph. `use_repeat`: run-length compress equal flags (runs up to 256 points).
fn encode_simple(contours: &[Vec<Pt>], instr: &[u8], use_repeat: bool) -> Vec<u8> {
    let pts: Vec<Pt> = contours.iter().flatten().copied().collect();
    let mut out = vec![];
    push16(&mut out, contours.len() as i32);
    let (mut x0, mut y0, mut x1, mut y1) = (0, 0, 0, 0);
    if !pts.is_empty() {
        x0 = pts.iter().map(|p| p.x).min().unwrap();
        x1 = pts.iter().map(|p| p.x).max().unwrap();
        y0 = pts.iter().map(|p| p.y).min().unwrap();
        y1 = pts.iter().map(|p| p.y).max().unwrap();
    }
    push16(&mut out, x0);
    push16(&mut out, y0);
    push16(&mut out, x1);
    push16(&mut out, y1);
    let mut end = 0usize;
    for c in contours {
        end += c.len();
        pushu16(&mut out, (end as u32).wrapping_sub(1));
    }
    pushu16(&mut out, instr.len() as u32);
    out.extend_from_slice(instr);
    let mut flags: Vec<u8> = vec![];
    let mut xs: Vec<u8> = vec![];
    let mut ys: Vec<u8> = vec![];
    let (mut px, mut py) = (0i32, 0i32);
    for p in &pts {
        let mut f = if p.on { 1u8 } else { 0 };
        let dx = p.x - px;
        let dy = p.y - py;
        px = p.x;
        py = p.y;
        if dx == 0 {
            f |= 0x10;
        } else if dx.abs() <= 255 {
            f |= 0x02;
            if dx > 0 {
                f |= 0x10;
            }
            xs.push(dx.unsigned_abs() as u8);
        } else {
            xs.extend_from_slice(&(dx as i16).to_be_bytes());
        }
        if dy == 0 {
            f |= 0x20;
        } else if dy.abs() <= 255 {
            f |= 0x04;
            if dy > 0 {
                f |= 0x20;
            }
            ys.push(dy.unsigned_abs() as u8);
        } else {
            ys.extend_from_slice(&(dy as i16).to_be_bytes());
        }
        flags.push(f);
    }
    let mut i = 0;
    while i < flags.len() {
        let f = flags[i];
        let mut run = 1;
        if use_repeat {
            while i + run < flags.len() && flags[i + run] == f && run < 256 {
                run += 1;
            }
        }
        if run >= 2 {
            out.push(f | 0x08);
            out.push((run - 1) as u8);
        } else {
            out.push(f);
        }
        i += run;
    }
    out.extend_from_slice(&xs);
    out.extend_from_slice(&ys);
    out
}

#[derive(Clone, Copy, Debug)]
struct Comp {
    gid: u16,
    extra: u16, // ROUND 0x4, USE_MY_METRICS 0x200, OVERLAP 0x400, SCALED 0x800, UNSCALED 0x1000, reserved 0x10/0xE000
    words: bool,
    dx: i32,
    dy: i32,
    xf: u8, // 0 none, 1 scale, 2 x/y scale, 3 2x2
    instr_flag: bool,
}

fn encode_composite(comps: &[Comp], instr: Option<&[u8]>) -> Vec<u8> {
    let mut out = vec![];
    push16(&mut out, -1);
    push16(&mut out, -50);
    push16(&mut out, -50);
    push16(&mut out, 900);
    push16(&mut out, 900);
    for (k, c) in comps.iter().enumerate() {
        let mut f: u16 = 0x0002 | c.extra;
        if c.words {
            f |= 1;
        }
        match c.xf {
            1 => f |= 0x08,
            2 => f |= 0x40,
            3 => f |= 0x80,
            _ => {}
        }
        if k + 1 < comps.len() {
            f |= 0x20;
        }
        if c.instr_flag {
            f |= 0x100;
        }
        pushu16(&mut out, f as u32);
        pushu16(&mut out, c.gid as u32);
        if c.words {
            push16(&mut out, c.dx);
            push16(&mut out, c.dy);
        } else {
            out.push(c.dx as i8 as u8);
            out.push(c.dy as i8 as u8);
        }
        match c.xf {
            1 => pushu16(&mut out, 0x2000),
            2 => {
                pushu16(&mut out, 0x4000);
                pushu16(&mut out, 0x2000);
            }
            3 => {
                pushu16(&mut out, 0x4000);
                pushu16(&mut out, 0x0800);
                pushu16(&mut out, 0xF800);
                pushu16(&mut out, 0x4000);
            }
            _ => {}
        }
    }
    if let Some(ins) = instr {
        pushu16(&mut out, ins.len() as u32);
        out.extend_from_slice(ins);
    }
    out
}

fn rand_delta(r: &mut Rng, class: u64) -> i32 {
    let sign = if r.chance(1, 2) { 1 } else { -1 };
    match class {
        0 => 0,
        1 => sign * r.range(1, 255) as i32,
        _ => sign * r.range(256, 900) as i32,
    }
}

/// A random simple glyph; `npts` points in 1..=3 contours; delta classes drawn per "stretch" so
/// that long runs of equal flags (repeat counts) occur.
fn rand_simple(r: &mut Rng, npts: usize, instr_len: usize, use_repeat: bool) -> Vec<u8> {
    let ncont = (r.range(1, 3) as usize).min(npts.max(1));
    let mut pts = vec![];
    let (mut x, mut y) = (0i32, 0i32);
    let mut left = 0usize;
    let (mut cx, mut cy, mut on) = (1, 1, true);
    for _ in 0..npts {
        if left == 0 {
            left = *r.pick(&[1usize, 1, 2, 3, 7, 20, 63, 64, 65, 130, 255, 256, 257, 300]);
            cx = r.below(3);
            cy = r.below(3);
            on = r.chance(3, 4);
        }
        left -= 1;
        let mut dx = rand_delta(r, cx);
        let mut dy = rand_delta(r, cy);
        // keep coordinates inside i16 comfortably
        if (x + dx).abs() > 14000 {
            dx = -dx;
        }
        if (y + dy).abs() > 14000 {
            dy = -dy;
        }
        x += dx;
        y += dy;
        pts.push(Pt { x, y, on });
    }
    // split into contours
    let mut contours: Vec<Vec<Pt>> = vec![];
    let per = (npts / ncont).max(1);
    let mut it = pts.into_iter().peekable();
    for c in 0..ncont {
        let mut v = vec![];
        for _ in 0..per {
            if let Some(p) = it.next() {
                v.push(p);
            }
        }
        if c + 1 == ncont {
            v.extend(it.by_ref());
        }
        if !v.is_empty() {
            contours.push(v);
        }
    }
    let instr = r.bytes(instr_len);
    encode_simple(&contours, &instr, use_repeat)
}

/// a triangle-ish glyph of an exact encoded length `len` (len >= 24), size tuned by instructions
fn sized_simple(len: usize, seed: i32) -> Vec<u8> {
    let pts = vec![
        Pt { x: 10 + seed % 50, y: 0, on: true },
        Pt { x: 400, y: 700 + seed % 90, on: true },
        Pt { x: 800, y: 20, on: true },
    ];
    let base = encode_simple(&[pts.clone()], &[], false).len();
    assert!(len >= base, "sized_simple: {len} < {base}");
    let instr = vec![0x4Fu8; len - base];
    let g = encode_simple(&[pts], &instr, false);
    assert_eq!(g.len(), len);
    g
}

// ---------------------------------------------------------------------------------------------
// synthetic font assembly
// ---------------------------------------------------------------------------------------------

#[derive(Clone)]
struct Syn {
    name: String,
    glyphs: Vec<Vec<u8>>, // glyph records as stored before alignment padding
    adv: Vec<u16>,
    lsb: Vec<i16>,
    num_long: usize,
    cmap: Vec<(u32, u32)>,
    long_loca: bool,
    align: usize, // 1 (long only), 2 or 4
}

fn be32(v: u32) -> [u8; 4] {
    v.to_be_bytes()
}

fn build_font(sf: &Syn) -> Vec<u8> {
    let n = sf.glyphs.len();
    let mut glyf: Vec<u8> = vec![];
    let mut offs: Vec<u32> = vec![0];
    for g in &sf.glyphs {
        glyf.extend_from_slice(g);
        while glyf.len() % sf.align != 0 {
            glyf.push(0);
        }
        offs.push(glyf.len() as u32);
    }
    let long = sf.long_loca || glyf.len() > 0x1FFFE || sf.align == 1;
    let mut loca = vec![];
    for o in &offs {
        if long {
            loca.extend_from_slice(&be32(*o));
        } else {
            loca.extend_from_slice(&((*o / 2) as u16).to_be_bytes());
        }
    }
    if glyf.is_empty() {
        glyf.push(0);
    }
    let mut head = vec![];
    head.extend_from_slice(&be32(0x0001_0000));
    head.extend_from_slice(&be32(0x0001_0000));
    head.extend_from_slice(&be32(0));
    head.extend_from_slice(&be32(0x5F0F_3CF5));
    pushu16(&mut head, 0);
    pushu16(&mut head, 1000);
    head.extend_from_slice(&[0; 16]);
    push16(&mut head, -100);
    push16(&mut head, -100);
    push16(&mut head, 1000);
    push16(&mut head, 1000);
    pushu16(&mut head, 0);
    pushu16(&mut head, 8);
    push16(&mut head, 2);
    push16(&mut head, if long { 1 } else { 0 });
    push16(&mut head, 0);
    assert_eq!(head.len(), 54);
    let mut hhea = vec![];
    hhea.extend_from_slice(&be32(0x0001_0000));
    push16(&mut hhea, 800);
    push16(&mut hhea, -200);
    push16(&mut hhea, 0);
    pushu16(&mut hhea, 1000);
    push16(&mut hhea, 0);
    push16(&mut hhea, 0);
    push16(&mut hhea, 1000);
    push16(&mut hhea, 1);
    push16(&mut hhea, 0);
    push16(&mut hhea, 0);
    hhea.extend_from_slice(&[0; 8]);
    push16(&mut hhea, 0);
    pushu16(&mut hhea, sf.num_long as u32);
    assert_eq!(hhea.len(), 36);
    let mut maxp = vec![];
    maxp.extend_from_slice(&be32(0x0001_0000));
    pushu16(&mut maxp, n as u32);
    for v in [400u32, 8, 800, 16, 2, 4, 5, 6, 7, 64, 300, 8, 8] {
        pushu16(&mut maxp, v);
    }
    assert_eq!(maxp.len(), 32);
    let mut hmtx = vec![];
    for i in 0..n {
        if i < sf.num_long {
            pushu16(&mut hmtx, sf.adv[i] as u32);
        }
        push16(&mut hmtx, sf.lsb[i] as i32);
    }
    let cmap = {
        let maps: Vec<(char, GlyphId)> = sf
            .cmap
            .iter()
            .filter_map(|(c, g)| char::from_u32(*c).map(|ch| (ch, GlyphId::new(*g))))
            .collect();
        let t = write_fonts::tables::cmap::Cmap::from_mappings(maps).expect("cmap");
        write_fonts::dump_table(&t).expect("cmap dump")
    };
    let mut b = FontBuilder::new();
    b.add_raw(Tag::new(b"head"), head);
    b.add_raw(Tag::new(b"hhea"), hhea);
    b.add_raw(Tag::new(b"maxp"), maxp);
    b.add_raw(Tag::new(b"hmtx"), hmtx);
    b.add_raw(Tag::new(b"cmap"), cmap);
    b.add_raw(Tag::new(b"loca"), loca);
    b.add_raw(Tag::new(b"glyf"), glyf);
    b.build()
}

/// metrics with a random constant-advance tail (so that long-metric trimming has work to do)
fn rand_metrics(r: &mut Rng, n: usize) -> (Vec<u16>, Vec<i16>, usize) {
    let pool: Vec<u16> = vec![500, 500, 600, 0, 1000, r.range(1, 2000) as u16];
    let mut adv: Vec<u16> = (0..n).map(|_| *r.pick(&pool)).collect();
    // stretches of equal advances
    let mut i = 0;
    while i < n {
        let run = r.range(1, 6) as usize;
        let a = *r.pick(&pool);
        for k in i..(i + run).min(n) {
            if r.chance(3, 4) {
                adv[k] = a;
            }
        }
        i += run;
    }
    // the source's own trimmed tail
    let tail = if n > 1 && r.chance(2, 3) { r.range(0, (n - 1) as i64) as usize } else { 0 };
    let num_long = n - tail;
    for k in num_long..n {
        adv[k] = adv[num_long - 1];
    }
    let lsb: Vec<i16> = (0..n).map(|_| r.range(-200, 300) as i16).collect();
    (adv, lsb, num_long)
}

fn rand_cmap(r: &mut Rng, n: usize, density: u64) -> Vec<(u32, u32)> {
    let mut m: BTreeMap<u32, u32> = BTreeMap::new();
    if n <= 1 {
        return vec![];
    }
    let pool: Vec<u32> = (0x21u32..0x7F)
        .chain(0xC0..0x100)
        .chain(0x400..0x420)
        .chain([0x2028, 0xFFFD, 0x1F600, 0x1F601, 0x1F602, 0x20000])
        .collect();
    for cp in pool {
        if r.chance(density, 100) {
            m.insert(cp, r.range(1, (n - 1) as i64) as u32);
        }
    }
    m.into_iter().collect()
}

// ---------------------------------------------------------------------------------------------
// observations on a font (model independent)
// ---------------------------------------------------------------------------------------------

#[derive(Default)]
struct Rec(String);
impl OutlinePen for Rec {
    fn move_to(&mut self, x: f32, y: f32) {
        self.0.push_str(&format!("M{:x},{:x} ", x.to_bits(), y.to_bits()));
    }
    fn line_to(&mut self, x: f32, y: f32) {
        self.0.push_str(&format!("L{:x},{:x} ", x.to_bits(), y.to_bits()));
    }
    fn quad_to(&mut self, a: f32, b: f32, x: f32, y: f32) {
        self.0.push_str(&format!("Q{:x},{:x},{:x},{:x} ", a.to_bits(), b.to_bits(), x.to_bits(), y.to_bits()));
    }
    fn curve_to(&mut self, a: f32, b: f32, c: f32, d: f32, x: f32, y: f32) {
        self.0.push_str(&format!(
            "C{:x},{:x},{:x},{:x},{:x},{:x} ",
            a.to_bits(), b.to_bits(), c.to_bits(), d.to_bits(), x.to_bits(), y.to_bits()
        ));
    }
    fn close(&mut self) {
        self.0.push_str("Z ");
    }
}

fn sizes() -> Vec<Size> {
    vec![Size::unscaled(), Size::new(16.0), Size::new(37.5)]
}

/// locations to observe: default, plus (for variable fonts) a few corners / interior points
fn locations(font: &FontRef) -> Vec<Location> {
    let axes = font.axes();
    let mut out = vec![Location::default()];
    if axes.len() > 0 {
        for frac in [1.0f32, -1.0, 0.37] {
            let user: Vec<(Tag, f32)> = axes
                .iter()
                .map(|a| {
                    let v = if frac >= 0.0 {
                        a.default_value() + (a.max_value() - a.default_value()) * frac
                    } else {
                        a.default_value() + (a.default_value() - a.min_value()) * frac
                    };
                    (a.tag(), v)
                })
                .collect();
            out.push(axes.location(user));
        }
    }
    out
}

fn outline_obs(font: &FontRef, gid: u32, locs: &[Location]) -> String {
    let coll = font.outline_glyphs();
    let mut s = String::new();
    for (li, loc) in locs.iter().enumerate() {
        for (si, size) in sizes().into_iter().enumerate() {
            let r = catch(|| {
                let mut pen = Rec::default();
                match coll.get(GlyphId::new(gid)) {
                    None => "none".to_string(),
                    Some(g) => match g.draw(DrawSettings::unhinted(size, LocationRef::from(loc)), &mut pen) {
                        Ok(_) => pen.0,
                        Err(e) => format!("err:{e}"),
                    },
                }
            });
            s.push_str(&format!("[l{li}s{si}] {} ", r.unwrap_or_else(|e| format!("panic:{e}"))));
        }
    }
    s
}

fn metrics_obs(font: &FontRef, gid: u32, locs: &[Location]) -> (String, String) {
    let (mut adv, mut lsb) = (String::new(), String::new());
    if let Ok(h) = font.hmtx() {
        adv.push_str(&format!("hmtx:{:?} ", h.advance(GlyphId::new(gid))));
        lsb.push_str(&format!("hmtx:{:?} ", h.side_bearing(GlyphId::new(gid))));
    }
    for loc in locs {
        for size in sizes() {
            let gm = font.glyph_metrics(size, LocationRef::from(loc));
            adv.push_str(&format!("{:?} ", gm.advance_width(GlyphId::new(gid)).map(|v| v.to_bits())));
            lsb.push_str(&format!("{:?} ", gm.left_side_bearing(GlyphId::new(gid)).map(|v| v.to_bits())));
        }
    }
    (adv, lsb)
}

fn reaches_notdef(comps: &[Vec<u32>], g: u32) -> bool {
    let mut seen = BTreeSet::new();
    let mut stack = vec![g];
    while let Some(x) = stack.pop() {
        if !seen.insert(x) {
            continue;
        }
        if let Some(cs) = comps.get(x as usize) {
            for c in cs {
                if *c == 0 {
                    return true;
                }
                stack.push(*c);
            }
        }
    }
    false
}

fn glyph_record_hex(font: &FontRef, gid: u32) -> String {
    let (Ok(loca), Ok(glyf)) = (font.loca(None), font.glyf()) else { return "?".into() };
    match (loca.get_raw(gid as usize), loca.get_raw(gid as usize + 1)) {
        (Some(a), Some(b)) => match glyf.offset_data().as_bytes().get(a as usize..b as usize) {
            Some(bytes) => {
                let h = hex(bytes);
                if h.len() > 400 { format!("{}..({} bytes)", &h[..400], bytes.len()) } else { h }
            }
            None => format!("loca {a}..{b} outside glyf"),
        },
        _ => "no loca entry".into(),
    }
}

fn first_diff(a: &str, b: &str) -> String {
    let i = a.bytes().zip(b.bytes()).position(|(x, y)| x != y).unwrap_or(a.len().min(b.len()));
    let lo = i.saturating_sub(30);
    format!(
        "differ at byte {i}: orig ..{}.. subset ..{}..",
        a.get(lo..(i + 50).min(a.len())).unwrap_or(""),
        b.get(lo..(i + 50).min(b.len())).unwrap_or("")
    )
}

/// per-gid component lists as read-fonts sees them (`get_glyf(..).ok().flatten()`); `None` entry
/// list is empty. Length = loca.len().
fn font_comps(font: &FontRef) -> Vec<Vec<u32>> {
    let (Ok(loca), Ok(glyf)) = (font.loca(None), font.glyf()) else {
        return vec![];
    };
    (0..loca.len())
        .map(|g| match loca.get_glyf(GlyphId::new(g as u32), &glyf).ok().flatten() {
            Some(Glyph::Composite(c)) => c.components().map(|c| c.glyph.to_u32()).collect(),
            _ => vec![],
        })
        .collect()
}

fn cmap_pairs(font: &FontRef) -> Vec<(u32, u32)> {
    let m: BTreeMap<u32, u32> = font.charmap().mappings().map(|(c, g)| (c, g.to_u32())).collect();
    m.into_iter().collect()
}

// ---------------------------------------------------------------------------------------------
// one subsetting request
// ---------------------------------------------------------------------------------------------

struct Req {
    gids: Vec<u32>,
    unicodes: Vec<u32>,
    flags: u16,
}

fn make_plan(font: &FontRef, req: &Req) -> Plan {
    let mut gids = IntSet::<GlyphId>::empty();
    for g in &req.gids {
        gids.insert(GlyphId::new(*g));
    }
    let mut unicodes = IntSet::<u32>::empty();
    for u in &req.unicodes {
        unicodes.insert(*u);
    }
    let drop_tables = IntSet::<Tag>::empty();
    let mut layout_scripts = IntSet::<Tag>::empty();
    layout_scripts.invert();
    let mut layout_features = IntSet::<Tag>::empty();
    layout_features.extend(klippa::DEFAULT_LAYOUT_FEATURES.iter().copied());
    let mut name_ids = IntSet::<NameId>::empty();
    name_ids.insert_range(NameId::from(0)..=NameId::from(6));
    let mut name_languages = IntSet::<u16>::empty();
    name_languages.insert(0x0409);
    Plan::new(
        &gids,
        &unicodes,
        font,
        SubsetFlags::from(req.flags),
        &drop_tables,
        &layout_scripts,
        &layout_features,
        &name_ids,
        &name_languages,
    )
}

fn pairs_str(v: &[(u32, u32)]) -> String {
    if v.is_empty() {
        return "-".into();
    }
    v.iter().map(|(a, b)| format!("{a} {b}")).collect::<Vec<_>>().join(" ")
}

fn plan_response(v: &vh::PlanView) -> String {
    format!(
        "gsub:{}|colred:{}|set:{}|n2o:{}|u2g:{}|nout:{}",
        join(&v.glyphset_gsub),
        join(&v.glyphset_colred),
        join(&v.glyphset),
        pairs_str(&v.new_to_old_gid_list),
        pairs_str(&v.unicode_to_new_gid_list),
        v.num_output_glyphs
    )
}

struct FontCtx<'a> {
    label: String,
    data: &'a [u8],
    comps: Vec<Vec<u32>>,
    cmap: Vec<(u32, u32)>,
    cmap_consistent: bool,
    locs: Vec<Location>,
    /// plan-level correspondence possible (no COLR / cmap14 closure feeding the glyph set)
    has_colr: bool,
    /// failures already reported per oracle for this font (whole-table losses repeat for every request and
    /// would otherwise fill the session's failure list)
    reported: std::cell::RefCell<BTreeMap<String, u32>>,
}

impl FontCtx<'_> {
    /// a whole-table oracle: evaluated every time, but at most 2 failures per font are recorded
    fn table_oracle(&self, s: &mut Session, name: &str, ok: bool, input: &str, detail: String) {
        if !ok {
            let mut m = self.reported.borrow_mut();
            let c = m.entry(name.to_string()).or_insert(0);
            *c += 1;
            if *c > 2 {
                s.oracle_checks += 1;
                s.count(&format!("repeat-failure-not-recorded:{name}"));
                return;
            }
        }
        s.oracle(name, ok, || input.to_string(), || detail);
    }
}

fn table<'a>(font: &FontRef<'a>, tag: &[u8; 4]) -> Option<&'a [u8]> {
    font.table_data(Tag::new(tag)).map(|d| d.as_bytes())
}

struct Outcome {
    view: vh::PlanView,
    subset: Vec<u8>,
}

/// Runs one request end to end: correspondence cases + oracles. Returns the subset on success.
fn run_request(s: &mut Session, fc: &FontCtx, req: &Req, tag: &str, deep: bool) -> Option<Outcome> {
    let font = FontRef::new(fc.data).ok()?;
    let input = format!(
        "font={} flags={:#06x} gids=[{}] unicodes=[{}] ({tag})",
        fc.label,
        req.flags,
        join(&req.gids),
        req.unicodes.iter().map(|u| format!("{u:x}")).collect::<Vec<_>>().join(" ")
    );
    let retain = req.flags & F_RETAIN_GIDS != 0;
    let plan = match catch(|| make_plan(&font, req)) {
        Ok(p) => p,
        Err(e) => {
            s.count("plan:panic");
            s.oracle("plan-no-panic", false, || input.clone(), || e.clone());
            return None;
        }
    };
    let view = vh::plan_view(&plan);
    let num = view.font_num_glyphs as u32;

    // ---- correspondence: the plan ----
    if fc.cmap_consistent {
        // glyphs that enter the sets from code outside the model (cmap format 14 closure, COLR closure)
        let mut pre: BTreeSet<u32> = BTreeSet::new();
        pre.insert(0);
        let gidset: BTreeSet<u32> = req.gids.iter().copied().collect();
        let uniset: BTreeSet<u32> = req.unicodes.iter().copied().collect();
        for (c, g) in &fc.cmap {
            if uniset.contains(c) || gidset.contains(g) {
                pre.insert(*g);
            }
        }
        for g in &req.gids {
            pre.insert(*g);
        }
        let extra_gsub: Vec<u32> = view.glyphset_gsub.iter().copied().filter(|g| !pre.contains(g)).collect();
        let gsubset: BTreeSet<u32> = view.glyphset_gsub.iter().copied().collect();
        let extra_colred: Vec<u32> = view.glyphset_colred.iter().copied().filter(|g| !gsubset.contains(g)).collect();
        if !extra_gsub.is_empty() {
            s.count("plan:extra-gsub-glyphs(cmap14)");
        }
        if !extra_colred.is_empty() {
            s.count("plan:extra-colred-glyphs(COLR)");
        }
        let comps_s = fc
            .comps
            .iter()
            .map(|c| if c.is_empty() { "0".to_string() } else { format!("{} {}", c.len(), join(c)) })
            .collect::<Vec<_>>()
            .join(" ");
        let line = format!(
            "c17.plan {} {} C {} G {} I {} U {} X {} Y {}",
            req.flags,
            num,
            pairs_str(&fc.cmap),
            if comps_s.is_empty() { "-".to_string() } else { comps_s },
            join(&req.gids),
            join(&req.unicodes),
            join(&extra_gsub),
            join(&extra_colred)
        );
        s.case("plan", line, plan_response(&view));
        s.count(if req.gids.is_empty() && (req.unicodes.len() as u64) < num as u64 { "plan:branch=unicodes-only" } else { "plan:branch=cmap-scan" });
    } else {
        s.count("plan:skipped(symbol-cmap)");
    }

    // ---- plan-level property oracles ----
    let map: BTreeMap<u32, u32> = view.glyph_map.iter().copied().collect();
    {
        let mut missing = vec![];
        for g in req.gids.iter().filter(|g| **g < num) {
            if !map.contains_key(g) {
                missing.push(*g);
            }
        }
        if num > 0 && !map.contains_key(&0) {
            missing.push(0);
        }
        for (c, g) in &fc.cmap {
            if req.unicodes.contains(c) && *g < num && !map.contains_key(g) {
                missing.push(*g);
            }
        }
        s.oracle("glyphset-contains-requested", missing.is_empty(), || input.clone(), || format!("missing old gids {missing:?}"));
        let mut open = vec![];
        for (old, _) in &view.glyph_map {
            if let Some(cs) = fc.comps.get(*old as usize) {
                for c in cs {
                    if *c < num && !map.contains_key(c) {
                        open.push((*old, *c));
                    }
                }
            }
        }
        s.oracle("glyphset-closed-under-components", open.is_empty(), || input.clone(), || format!("(glyph, missing component) {:?}", &open[..open.len().min(8)]));
        // renumbering: strictly monotone bijection onto 0..n / identity
        let n2o = &view.new_to_old_gid_list;
        let mono = n2o.windows(2).all(|w| w[0].0 < w[1].0 && w[0].1 < w[1].1);
        let shape = if retain {
            n2o.iter().all(|(n, o)| n == o) && n2o.last().map(|l| l.0 as usize + 1).unwrap_or(0) == view.num_output_glyphs
        } else {
            n2o.iter().enumerate().all(|(i, (n, _))| *n as usize == i) && n2o.len() == view.num_output_glyphs
        };
        s.oracle("glyph-map-monotone-bijection", mono && shape, || input.clone(), || format!("n2o={:?}", &n2o[..n2o.len().min(12)]));
    }

    // ---- subset ----
    let subset = match catch(|| subset_font(&font, &plan)) {
        Ok(Ok(b)) => b,
        Ok(Err(e)) => {
            s.count(&format!("subset:Err({e})"));
            // every font used here is well formed as far as the subsetter's own readers go: a refusal is a failure
            fc.table_oracle(s, "subset-returns-ok", false, &input, format!("subset_font returned Err({e})"));
            return None;
        }
        Err(e) => {
            s.count("subset:panic");
            s.oracle("subset-no-panic", false, || input.clone(), || e.clone());
            return None;
        }
    };
    s.count("subset:ok");
    let Ok(sub) = FontRef::new(&subset) else {
        s.oracle("subset-reopens", false, || input.clone(), || "FontRef::new failed".into());
        return None;
    };
    let nout = view.num_output_glyphs;

    // ---- correspondence: hmtx / hhea ----
    if let (Ok(hmtx), Some(out_hmtx), Ok(out_hhea)) = (font.hmtx(), table(&sub, b"hmtx"), sub.hhea()) {
        let longs: Vec<(u32, u32)> = hmtx.h_metrics().iter().map(|m| (m.advance() as u32, m.side_bearing() as u16 as u32)).collect();
        let lsbs: Vec<u32> = hmtx.left_side_bearings().iter().map(|b| b.get() as u16 as u32).collect();
        let line = format!(
            "c17.hmtx {} L {} S {} M {}",
            nout,
            pairs_str(&longs),
            join(&lsbs),
            pairs_str(&view.new_to_old_gid_list)
        );
        s.case("hmtx", line, format!("ok {} {}", out_hhea.number_of_h_metrics(), hex(out_hmtx)));
        let nh = out_hhea.number_of_h_metrics() as usize;
        s.count(if nh == nout { "hmtx:untrimmed" } else if nh == 1 { "hmtx:trimmed-to-1" } else { "hmtx:trimmed" });
    }

    // ---- correspondence: maxp ----
    if let (Some(m_in), Some(m_out)) = (table(&font, b"maxp"), table(&sub, b"maxp")) {
        s.case("maxp", format!("c17.maxp {} {} {}", req.flags, nout, hex(m_in)), hex(m_out));
    }

    // ---- correspondence + structural tie: glyf / loca / head ----
    if let (Ok(loca), Ok(glyf), Some(out_glyf), Some(out_loca), Ok(out_head)) =
        (font.loca(None), font.glyf(), table(&sub, b"glyf"), table(&sub, b"loca"), sub.head())
    {
        let mut recs: Vec<String> = vec![];
        let mut total_in = 0usize;
        for (_, old) in &view.new_to_old_gid_list {
            let idx = *old as usize;
            let r = (loca.get_raw(idx), loca.get_raw(idx + 1));
            let rec = match r {
                (Some(a), Some(b)) if a == b => "-".to_string(),
                (Some(a), Some(b)) => match glyf.offset_data().as_bytes().get(a as usize..b as usize) {
                    Some(bytes) if loca.get_glyf(GlyphId::new(*old), &glyf).is_ok() => {
                        total_in += bytes.len();
                        hex(bytes)
                    }
                    _ => "E".to_string(),
                },
                _ => "E".to_string(),
            };
            recs.push(rec);
        }
        let fmt = out_head.index_to_loc_format();
        let resp = format!("fmt={} loca={} glyf={}", fmt, hex(out_loca), hex(out_glyf));
        if deep || total_in < 40_000 {
            let line = format!(
                "c17.glyf {} {} M {} D {}",
                req.flags,
                nout,
                pairs_str(&view.new_to_old_gid_list),
                if recs.is_empty() { "-".to_string() } else { recs.join(" ") }
            );
            s.case("glyf", line, resp);
        } else {
            s.count("glyf:correspondence-skipped(size)");
        }
        s.count(if fmt == 0 { "loca:short" } else { "loca:long" });
        let glen = out_glyf.len();
        s.count(match glen {
            0..=0xFFFF => "glyf-size:<64K",
            0x10000..=0x1FFFE => "glyf-size:64K..128K",
            _ => "glyf-size:>128K",
        });
    }

    // ---- property oracles on the re-opened subset ----
    let sub_num = sub.maxp().map(|m| m.num_glyphs() as usize).unwrap_or(0);
    s.oracle("maxp-numglyphs=plan", sub_num == nout.min(0xFFFF), || input.clone(), || format!("maxp {sub_num} plan {nout}"));
    if let Ok(l) = sub.loca(None) {
        s.oracle("loca-len=numglyphs", l.len() == sub_num, || input.clone(), || format!("loca {} maxp {}", l.len(), sub_num));
    }
    if retain {
        let bad: Vec<_> = view.glyph_map.iter().filter(|(o, n)| o != n).take(5).collect();
        s.oracle("retain-gids-identity", bad.is_empty(), || input.clone(), || format!("{bad:?}"));
    }
    // loca of the subset, read raw: offsets ascend and stay inside glyf; an id that is not a kept glyph (retain-gids
    // gap) owns no bytes; a kept glyph whose original record has an outline owns some (content: outline-preserved)
    if let (Ok(l), Some(out_glyf)) = (sub.loca(None), table(&sub, b"glyf")) {
        let offs: Vec<u32> = (0..=l.len()).filter_map(|i| l.get_raw(i)).collect();
        let mut bad: Vec<String> = vec![];
        if offs.len() != l.len() + 1 {
            bad.push(format!("{} offsets for {} glyphs", offs.len(), l.len()));
        }
        for w in offs.windows(2) {
            if w[0] > w[1] && bad.len() < 4 {
                bad.push(format!("descending {} > {}", w[0], w[1]));
            }
        }
        if offs.last().map_or(false, |e| *e as usize > out_glyf.len()) {
            bad.push(format!("last offset {:?} beyond glyf length {}", offs.last(), out_glyf.len()));
        }
        let kept_new: BTreeMap<u32, u32> = view.new_to_old_gid_list.iter().copied().collect();
        let drop_notdef = req.flags & F_NOTDEF_OUTLINE == 0;
        let (oloca, oglyf) = (font.loca(None), font.glyf());
        let mut gaps = 0;
        for g in 0..l.len() as u32 {
            let (Some(a), Some(b)) = (offs.get(g as usize), offs.get(g as usize + 1)) else { continue };
            match kept_new.get(&g) {
                None => {
                    gaps += 1;
                    if a != b && bad.len() < 6 {
                        bad.push(format!("gap id {g} owns bytes {a}..{b}"));
                    }
                }
                Some(old) => {
                    // simple glyphs only: a composite may legitimately be emptied (closure limits, known finding)
                    if let (Ok(ol), Ok(og)) = (&oloca, &oglyf) {
                        let has_outline = matches!(ol.get_glyf(GlyphId::new(*old), og), Ok(Some(Glyph::Simple(_))));
                        if has_outline && !(g == 0 && *old == 0 && drop_notdef) && a == b && bad.len() < 6 {
                            bad.push(format!("kept glyph old {old} -> new {g} owns no bytes ({a}..{b})"));
                        }
                    }
                }
            }
        }
        s.count(if gaps == 0 { "loca:gaps=0" } else if gaps < 10 { "loca:gaps=1-9" } else { "loca:gaps=10+" });
        s.count(&format!("loca:{}:{}", if sub.head().map(|h| h.index_to_loc_format()).unwrap_or(0) == 0 { "short" } else { "long" }, if gaps == 0 { "no-gaps" } else { "gaps" }));
        s.oracle("loca-ascending-gaps-empty-kept-nonempty", bad.is_empty(), || input.clone(), || bad.join("; "));
    }
    // character map
    let cmap_kept = sub.cmap().is_ok();
    fc.table_oracle(s, "cmap-table-kept", cmap_kept, &input, "the original has a cmap table, subset_font returned Ok, the subset has none".into());
    if cmap_kept {
        let subcm = sub.charmap();
        let mut wrong = vec![];
        let gidset: BTreeSet<u32> = req.gids.iter().copied().collect();
        let uniset: BTreeSet<u32> = req.unicodes.iter().copied().collect();
        let mut expect: BTreeMap<u32, u32> = BTreeMap::new();
        for (c, g) in &fc.cmap {
            let wanted = uniset.contains(c) || gidset.contains(g);
            let got = subcm.map(*c).map(|g| g.to_u32());
            if wanted {
                let want = map.get(g).copied();
                if want.is_some() {
                    expect.insert(*c, want.unwrap());
                }
                if got != want && wrong.len() < 6 {
                    wrong.push(format!("U+{c:04X}: old gid {g} -> want {want:?} got {got:?}"));
                }
            } else if got.is_some() && wrong.len() < 6 {
                wrong.push(format!("U+{c:04X} (not requested, glyph {g} not requested) mapped to {got:?}"));
            }
        }
        s.oracle("cmap-requested-chars-map-to-renumbered-glyph", wrong.is_empty(), || input.clone(), || wrong.join("; "));
        let extra: Vec<String> = subcm
            .mappings()
            .filter(|(c, g)| expect.get(c) != Some(&g.to_u32()))
            .take(6)
            .map(|(c, g)| format!("U+{c:04X}->{}", g.to_u32()))
            .collect();
        s.oracle("cmap-maps-nothing-else", extra.is_empty(), || input.clone(), || extra.join(" "));
    }
    // per kept glyph: outline, advance, lsb
    let sub_locs = locations(&sub);
    // an HVAR whose variation store has no regions (all deltas zero) is dropped by design; skrifa then takes
    // metric deltas from the gvar phantom points.  Either way the observable metrics must not change,
    // so they are compared at every location.
    let hvar_dropped = font.hvar().is_ok() && sub.hvar().is_err();
    if hvar_dropped {
        s.count("hvar:dropped-from-subset");
    }
    // metrics at the default location (hmtx + skrifa) and, separately named, at the other locations
    let (m_locs0, m_locs1): (&[Location], &[Location]) = (&fc.locs[..1], &sub_locs[..1]);
    let (v_locs0, v_locs1): (&[Location], &[Location]) = (&fc.locs[1..], &sub_locs[1.min(sub_locs.len())..]);
    let (mut bad_av, mut bad_lv): (Vec<String>, Vec<String>) = (vec![], vec![]);
    let notdef_outline = req.flags & F_NOTDEF_OUTLINE != 0;
    let step = if deep || view.new_to_old_gid_list.len() <= 260 { 1 } else { view.new_to_old_gid_list.len() / 200 };
    let (mut bad_o, mut bad_a, mut bad_l) = (vec![], vec![], vec![]);
    let mut checked = 0u64;
    for (new, old) in view.new_to_old_gid_list.iter().step_by(step.max(1)) {
        if (*new as usize) >= sub_num {
            bad_o.push(format!("new gid {new} >= numGlyphs {sub_num}"));
            continue;
        }
        checked += 1;
        let o_sub = outline_obs(&sub, *new, &sub_locs);
        if *old != 0 && !notdef_outline && reaches_notdef(&fc.comps, *old) {
            // a composite that uses .notdef as a component loses that part by design
            s.count("outline:skipped(component is .notdef, outline dropped by design)");
            continue;
        }
        if *old == 0 && !notdef_outline {
            // by design the .notdef outline is dropped unless NOTDEF_OUTLINE is set
            let empty_everywhere = !o_sub.contains('M');
            if !empty_everywhere {
                bad_o.push(format!(".notdef outline kept without NOTDEF_OUTLINE: {}", &o_sub[..o_sub.len().min(80)]));
            }
        } else {
            let o_org = outline_obs(&font, *old, &fc.locs);
            if !o_org.contains('M') && (o_org.contains("none") || o_org.contains("err:")) {
                // the original glyph cannot be drawn at all (component out of range, cycle, malformed record)
                s.count("outline:skipped(original undrawable)");
            } else if o_org != o_sub && bad_o.len() < 4 {
                bad_o.push(format!(
                    "old gid {old} -> new gid {new}: {} ; old record {} ; new record {}",
                    first_diff(&o_org, &o_sub),
                    glyph_record_hex(&font, *old),
                    glyph_record_hex(&sub, *new)
                ));
            }
        }
        let (a0, l0) = metrics_obs(&font, *old, m_locs0);
        let (a1, l1) = metrics_obs(&sub, *new, m_locs1);
        if a0 != a1 && bad_a.len() < 4 {
            bad_a.push(format!("old gid {old} -> new gid {new}: {}", first_diff(&a0, &a1)));
        }
        // the lsb of a .notdef whose outline was dropped is still copied from hmtx
        if l0 != l1 && bad_l.len() < 4 {
            bad_l.push(format!("old gid {old} -> new gid {new}: {}", first_diff(&l0, &l1)));
        }
        if !v_locs0.is_empty() {
            let (a0, l0) = metrics_obs(&font, *old, v_locs0);
            let (a1, l1) = metrics_obs(&sub, *new, v_locs1);
            if a0 != a1 && bad_av.len() < 4 {
                bad_av.push(format!("old gid {old} -> new gid {new}: {}", first_diff(&a0, &a1)));
            }
            if l0 != l1 && bad_lv.len() < 4 {
                bad_lv.push(format!("old gid {old} -> new gid {new}: {}", first_diff(&l0, &l1)));
            }
        }
    }
    s.dist.entry("kept-glyphs-observed".into()).and_modify(|v| *v += checked).or_insert(checked);
    if let Ok(dir) = std::env::var("C17_DUMP") {
        if !(bad_o.is_empty() && bad_a.is_empty() && bad_l.is_empty()) {
            let _ = std::fs::create_dir_all(&dir);
            let name = format!("{dir}/{}-{:04x}-{}.ttf", fc.label.replace([':', '/', '#'], "_"), req.flags, s.oracle_checks);
            let _ = std::fs::write(name, &subset);
        }
    }
    s.oracle("outline-preserved", bad_o.is_empty(), || input.clone(), || bad_o.join(" | "));
    s.oracle("advance-preserved", bad_a.is_empty(), || input.clone(), || bad_a.join(" | "));
    s.oracle("lsb-preserved", bad_l.is_empty(), || input.clone(), || bad_l.join(" | "));
    if fc.locs.len() > 1 {
        let sfx = if hvar_dropped { "[hvar-dropped]" } else { "" };
        s.oracle(&format!("advance-preserved@locations{sfx}"), bad_av.is_empty(), || input.clone(), || bad_av.join(" | "));
        s.oracle(&format!("lsb-preserved@locations{sfx}"), bad_lv.is_empty(), || input.clone(), || bad_lv.join(" | "));
    }
    Some(Outcome { view, subset })
}

/// observations of the whole font as one string list (per gid)
fn all_obs(data: &[u8], gids: &[u32], skip_notdef_outline: bool) -> Vec<String> {
    let Ok(font) = FontRef::new(data) else { return vec![] };
    let locs = locations(&font);
    gids.iter()
        .map(|g| {
            let o = if *g == 0 && skip_notdef_outline { String::new() } else { outline_obs(&font, *g, &locs) };
            let (a, l) = metrics_obs(&font, *g, &locs);
            format!("{o}|{a}|{l}")
        })
        .collect()
}

fn idempotence(s: &mut Session, fc: &FontCtx, req: &Req, first: &Outcome) {
    let input = format!(
        "font={} flags={:#06x} gids=[{}] unicodes=[{}] (resubset)",
        fc.label,
        req.flags,
        join(&req.gids),
        req.unicodes.iter().map(|u| format!("{u:x}")).collect::<Vec<_>>().join(" ")
    );
    let Ok(sub) = FontRef::new(&first.subset) else { return };
    if sub.cmap().is_err() {
        return; // reported by cmap-table-kept
    }
    let num = first.view.font_num_glyphs as u32;
    let map: BTreeMap<u32, u32> = first.view.glyph_map.iter().copied().collect();
    // a kept glyph with a component outside the font is rewritten to an empty glyph, which
    // legitimately changes what a second pass can reach
    let dangling = first.view.glyph_map.iter().any(|(old, _)| fc.comps.get(*old as usize).map(|cs| cs.iter().any(|c| *c >= num || !map.contains_key(c))).unwrap_or(false));
    let req2 = Req { gids: req.gids.iter().filter_map(|g| map.get(g).copied()).collect(), unicodes: req.unicodes.clone(), flags: req.flags };
    let r = catch(|| {
        let plan2 = make_plan(&sub, &req2);
        let v2 = vh::plan_view(&plan2);
        let out2 = subset_font(&sub, &plan2);
        (v2, out2)
    });
    match r {
        Err(e) => s.oracle("resubset-no-panic", false, || input.clone(), || e.clone()),
        Ok((_, Err(e))) => {
            s.count(&format!("resubset:Err({e})"));
            fc.table_oracle(s, "resubset-returns-ok", false, &input, format!("subset_font on the subset returned Err({e})"));
        }
        Ok((v2, Ok(bytes2))) => {
            let map2: BTreeMap<u32, u32> = v2.glyph_map.iter().copied().collect();
            // glyphs the property speaks about: requested, .notdef, cmap-requested, and their glyf components
            let mut must: BTreeSet<u32> = BTreeSet::new();
            let mut stack: Vec<u32> = req.gids.iter().copied().filter(|g| *g < num).collect();
            stack.push(0);
            for (c, g) in &fc.cmap {
                if req.unicodes.contains(c) || req.gids.contains(g) {
                    stack.push(*g);
                }
            }
            while let Some(g) = stack.pop() {
                if g < num && must.insert(g) {
                    if let Some(cs) = fc.comps.get(g as usize) {
                        stack.extend(cs.iter().copied());
                    }
                }
            }
            if !dangling {
                let lost: Vec<u32> = must.iter().filter(|g| map.get(g).map(|n1| !map2.contains_key(n1)).unwrap_or(false)).copied().collect();
                s.oracle("resubset-keeps-requested-glyphs", lost.is_empty(), || input.clone(), || format!("original gids lost in second pass: {lost:?}"));
                let identity = v2.new_to_old_gid_list.iter().all(|(n, o)| n == o)
                    && v2.new_to_old_gid_list.len() == first.view.new_to_old_gid_list.len()
                    && v2.num_output_glyphs == first.view.num_output_glyphs;
                s.oracle("resubset-plan-is-identity", identity, || input.clone(), || {
                    format!(
                        "first pass kept {} glyphs (numGlyphs {}); second pass kept {} (numGlyphs {}); second new->old {:?}",
                        first.view.new_to_old_gid_list.len(),
                        first.view.num_output_glyphs,
                        v2.new_to_old_gid_list.len(),
                        v2.num_output_glyphs,
                        &v2.new_to_old_gid_list[..v2.new_to_old_gid_list.len().min(10)]
                    )
                });
            } else {
                s.count("resubset:identity-skipped(dangling component)");
            }
            // observations of every glyph kept by both passes
            let both: Vec<(u32, u32)> = first.view.new_to_old_gid_list.iter().filter_map(|(n1, o)| {
                if dangling && !must.contains(o) { return None; }
                map2.get(n1).map(|n2| (*n1, *n2))
            }).collect();
            let skip = req.flags & F_NOTDEF_OUTLINE == 0;
            let a = all_obs(&first.subset, &both.iter().map(|p| p.0).collect::<Vec<_>>(), skip);
            let b = all_obs(&bytes2, &both.iter().map(|p| p.1).collect::<Vec<_>>(), skip);
            let diff = a.iter().zip(b.iter()).position(|(x, y)| x != y);
            s.oracle("resubset-observations-unchanged", a.len() == b.len() && (diff.is_none() || dangling), || input.clone(), || match diff {
                Some(i) => format!("gid {} -> {}: {}", both[i].0, both[i].1, first_diff(&a[i], &b[i])),
                None => "length".into(),
            });
            let cm1: Vec<(u32, Option<u32>)> = sub.charmap().mappings().map(|(c, g)| (c, map2.get(&g.to_u32()).copied())).collect();
            let cm2: Vec<(u32, Option<u32>)> = FontRef::new(&bytes2).map(|f| f.charmap().mappings().map(|(c, g)| (c, Some(g.to_u32()))).collect()).unwrap_or_default();
            s.oracle("resubset-charmap-unchanged", cm1 == cm2, || input.clone(), || format!("{} vs {} mappings; first {:?} second {:?}", cm1.len(), cm2.len(), &cm1[..cm1.len().min(6)], &cm2[..cm2.len().min(6)]));
        }
    }
}

fn subset_everything(s: &mut Session, fc: &FontCtx, flags: u16) {
    let Ok(font) = FontRef::new(fc.data) else { return };
    let n = fc.comps.len() as u32;
    let req = Req { gids: (0..n).collect(), unicodes: fc.cmap.iter().map(|c| c.0).collect(), flags };
    let Some(out) = run_request(s, fc, &req, "everything", false) else { return };
    let input = format!("font={} flags={:#06x} (subset to everything)", fc.label, flags);
    let ident = out.view.new_to_old_gid_list.iter().all(|(n, o)| n == o) && out.view.new_to_old_gid_list.len() as u32 == n;
    s.oracle("everything-plan-is-identity", ident, || input.clone(), || format!("{} of {} glyphs", out.view.new_to_old_gid_list.len(), n));
    // entries that name a glyph the font does not have carry no observation (nothing can be drawn or measured)
    let cm0: Vec<(u32, u32)> = cmap_pairs(&font).into_iter().filter(|(_, g)| *g < n).collect();
    let cm1 = FontRef::new(&out.subset).map(|f| cmap_pairs(&f)).unwrap_or_default();
    s.oracle("everything-charmap-unchanged", cm0 == cm1 || !fc.cmap_consistent, || input.clone(), || format!("{} vs {} mappings", cm0.len(), cm1.len()));
}

// ---------------------------------------------------------------------------------------------
// request generators
// ---------------------------------------------------------------------------------------------

fn flag_combo(r: &mut Rng) -> u16 {
    let mut f = 0;
    if r.chance(1, 2) {
        f |= F_RETAIN_GIDS;
    }
    if r.chance(1, 3) {
        f |= F_NO_HINTING;
    }
    if r.chance(1, 2) {
        f |= F_NOTDEF_OUTLINE;
    }
    if r.chance(1, 5) {
        f |= F_SET_OVERLAPS;
    }
    if r.chance(1, 8) {
        f |= 0x0080; // GLYPH_NAMES (unimplemented, must be inert)
    }
    f
}

fn rand_request(r: &mut Rng, fc: &FontCtx) -> Req {
    let n = fc.comps.len().max(1) as u32;
    let mut gids = BTreeSet::new();
    let mut unicodes = BTreeSet::new();
    let mode = r.below(6);
    let kg = match mode {
        0 => 0,
        1 => 1,
        _ => r.range(1, (n as i64).min(12)) as usize,
    };
    for _ in 0..kg {
        gids.insert(r.below(n as u64) as u32);
    }
    if mode == 5 {
        // ranges, including beyond the end
        let a = r.below(n as u64) as u32;
        for g in a..(a + r.below(6) as u32 + 1) {
            gids.insert(g);
        }
        if r.chance(1, 2) {
            gids.insert(n + r.below(3) as u32);
            gids.insert(0xFFFF);
        }
    }
    if !fc.cmap.is_empty() && mode != 1 {
        let ku = r.range(0, (fc.cmap.len() as i64).min(10)) as usize;
        for _ in 0..ku {
            unicodes.insert(r.pick(&fc.cmap).0);
        }
    }
    if r.chance(1, 3) {
        unicodes.insert(0x10FFFF - r.below(4) as u32); // unmapped
        unicodes.insert(0x41);
    }
    if mode == 0 && r.chance(1, 4) {
        // more unicodes than glyphs: forces the cmap-scan branch with no gids
        for u in 0..(n + 2) {
            unicodes.insert(0x3000 + u);
        }
    }
    Req { gids: gids.into_iter().collect(), unicodes: unicodes.into_iter().collect(), flags: flag_combo(r) }
}

fn make_ctx<'a>(label: String, data: &'a [u8]) -> Option<FontCtx<'a>> {
    let font = FontRef::new(data).ok()?;
    font.glyf().ok()?;
    font.loca(None).ok()?;
    font.cmap().ok()?; // Plan::new requires a cmap table
    let cmap = cmap_pairs(&font);
    let cm = font.charmap();
    let cmap_consistent = !cm.is_symbol() && cmap.iter().all(|(c, g)| cm.map(*c).map(|x| x.to_u32()) == Some(*g));
    Some(FontCtx {
        label,
        data,
        comps: font_comps(&font),
        cmap,
        cmap_consistent,
        locs: locations(&font),
        has_colr: font.colr().is_ok(),
        reported: Default::default(),
    })
}

// ---------------------------------------------------------------------------------------------
// synthetic font families
// ---------------------------------------------------------------------------------------------

fn simple_comp(gid: u16) -> Comp {
    Comp { gid, extra: 0, words: false, dx: 0, dy: 0, xf: 0, instr_flag: false }
}

fn rand_comp(r: &mut Rng, gid: u16) -> Comp {
    Comp {
        gid,
        extra: *r.pick(&[0u16, 0, 0x4, 0x200, 0x400, 0x800, 0x1000, 0x0010, 0x8000]),
        words: r.chance(1, 2),
        dx: r.range(-100, 100) as i32,
        dy: r.range(-100, 100) as i32,
        xf: r.below(4) as u8,
        instr_flag: false,
    }
}

/// small mixed font: simple glyphs (varied encodings), empty glyphs, composites nested up to a few levels
fn syn_mixed(r: &mut Rng, id: u64) -> Syn {
    let n = r.range(2, 40) as usize;
    let mut glyphs: Vec<Vec<u8>> = vec![];
    for g in 0..n {
        let kind = r.below(10);
        let rec = if kind == 0 {
            vec![]
        } else if kind <= 6 || g < 2 {
            let npts = *r.pick(&[1usize, 2, 3, 5, 12, 40, 70, 140, 300, 520]);
            let il = *r.pick(&[0usize, 0, 1, 2, 7, 30]);
            let rep = r.chance(3, 4);
            rand_simple(r, npts, il, rep)
        } else {
            let k = r.range(1, 4) as usize;
            let mut comps: Vec<Comp> = (0..k).map(|_| { let t = if r.chance(1, 25) { 0 } else { r.range(1, g as i64 - 1) as u16 }; rand_comp(r, t) }).collect();
            // occasionally reference forward / self / out of range
            if r.chance(1, 10) {
                comps[0].gid = r.below(n as u64 + 2) as u16;
            }
            let with_instr = r.chance(1, 3);
            if with_instr {
                let j = r.below(k as u64) as usize;
                comps[j].instr_flag = true;
            }
            let il = r.below(9) as usize;
            let ins = r.bytes(il);
            encode_composite(&comps, if with_instr { Some(&ins) } else { None })
        };
        glyphs.push(rec);
    }
    let (adv, lsb, num_long) = rand_metrics(r, n);
    Syn {
        name: format!("syn:mixed#{id}"),
        glyphs,
        adv,
        lsb,
        num_long,
        cmap: {
            let d = r.range(5, 40) as u64;
            let mut m = rand_cmap(r, n, d);
            // a character map entry that names a glyph beyond the font's glyph count
            if r.chance(1, 10) {
                m.push((0x2603, (n as u32) + r.below(3) as u32));
                m.sort();
            }
            m
        },
        long_loca: r.chance(1, 3),
        align: *r.pick(&[2usize, 2, 4, 1]),
    }
}

/// component graphs that stress the closure budgets
fn syn_graph(kind: &str, param: usize) -> Syn {
    let tri = |s: i32| sized_simple(30, s);
    let mut glyphs: Vec<Vec<u8>> = vec![tri(0), tri(1)];
    match kind {
        // glyph k (k>=2) = composite of glyph k-1: chain of depth `param`
        "chain" => {
            for k in 0..param {
                glyphs.push(encode_composite(&[simple_comp((k + 1) as u16)], None));
            }
        }
        // last glyph references `param` distinct simple glyphs
        "fan" => {
            for k in 0..param {
                glyphs.push(tri(k as i32));
            }
            let comps: Vec<Comp> = (0..param).map(|k| simple_comp((k + 2) as u16)).collect();
            glyphs.push(encode_composite(&comps, None));
        }
        // two-level fan: `param` composites of 3 leaves each under one root
        "fan2" => {
            let leaves = 3 * param;
            for k in 0..leaves {
                glyphs.push(tri(k as i32));
            }
            for k in 0..param {
                let comps: Vec<Comp> = (0..3).map(|j| simple_comp((2 + 3 * k + j) as u16)).collect();
                glyphs.push(encode_composite(&comps, None));
            }
            let comps: Vec<Comp> = (0..param).map(|k| simple_comp((2 + leaves + k) as u16)).collect();
            glyphs.push(encode_composite(&comps, None));
        }
        // cycle of length param
        "cycle" => {
            let base = glyphs.len();
            for k in 0..param {
                let next = base + (k + 1) % param;
                glyphs.push(encode_composite(&[simple_comp(next as u16), simple_comp(1)], None));
            }
        }
        _ => unreachable!(),
    }
    let n = glyphs.len();
    let adv: Vec<u16> = (0..n).map(|i| 400 + (i % 7) as u16 * 10).collect();
    let lsb: Vec<i16> = (0..n).map(|i| (i % 5) as i16 * 3 - 4).collect();
    let cmap = vec![(0x41, (n - 1) as u32), (0x42, 1)];
    Syn { name: format!("syn:graph-{kind}-{param}"), glyphs, adv, lsb, num_long: n, cmap, long_loca: false, align: 2 }
}

/// font whose kept glyphs have exactly the given trimmed sizes: glyph 0 small, glyphs 1.. = sizes
fn syn_sized(name: &str, sizes: &[usize], long_loca: bool) -> Syn {
    let mut glyphs = vec![sized_simple(30, 0)];
    for (i, sz) in sizes.iter().enumerate() {
        glyphs.push(sized_simple(*sz, i as i32));
    }
    let n = glyphs.len();
    let adv: Vec<u16> = (0..n).map(|i| 300 + (i % 3) as u16).collect();
    let lsb: Vec<i16> = (0..n).map(|i| (i % 11) as i16).collect();
    let cmap: Vec<(u32, u32)> = (1..n.min(60)).map(|g| (0x100 + g as u32, g as u32)).collect();
    Syn { name: name.to_string(), glyphs, adv, lsb, num_long: n, cmap, long_loca, align: 2 }
}

// ---------------------------------------------------------------------------------------------
// unit-level per-glyph rewrite
// ---------------------------------------------------------------------------------------------


/// the component ids read-fonts reports for one glyph record (what the closure iterates)
fn comps_case(s: &mut Session, rec: &[u8]) {
    if rec.is_empty() {
        return;
    }
    let resp = match catch(|| match Glyph::read(read_fonts::FontData::new(rec)) {
        Ok(Glyph::Composite(c)) => c.components().map(|c| c.glyph.to_u32()).collect::<Vec<_>>(),
        _ => vec![],
    }) {
        Ok(v) => join(&v),
        Err(_) => "trap".into(),
    };
    s.count(if resp == "-" { "comps:none" } else { "comps:some" });
    s.case("comps", format!("c17.comps {}", hex(rec)), resp);
}

fn glyph_unit(s: &mut Session, r: &mut Rng, count: usize) {
    for _ in 0..count {
        let composite = r.chance(2, 5);
        let mut rec = if composite {
            let k = r.range(1, 5) as usize;
            let mut comps: Vec<Comp> = (0..k).map(|_| { let g = r.below(12) as u16; rand_comp(r, g) }).collect();
            let with_instr = r.chance(1, 2);
            if with_instr {
                let j = r.below(k as u64) as usize;
                comps[j].instr_flag = true;
            }
            let il = r.below(7) as usize;
            let ins = r.bytes(il);
            encode_composite(&comps, if with_instr && r.chance(7, 8) { Some(&ins) } else { None })
        } else {
            let npts = *r.pick(&[1usize, 2, 3, 4, 9, 30, 64, 65, 66, 130, 256, 257, 258, 300, 530]);
            let il = *r.pick(&[0usize, 0, 1, 3, 10]);
            let rep = r.chance(4, 5);
            rand_simple(r, npts, il, rep)
        };
        // alignment padding / truncation / corruption
        match r.below(10) {
            0 => rec.extend_from_slice(&[0, 0, 0][..r.range(1, 3) as usize]),
            1 => rec.push(0),
            2 => {
                let k = r.below(rec.len() as u64 + 1) as usize;
                rec.truncate(k);
            }
            3 => {
                let k = r.below(rec.len() as u64) as usize;
                rec[k] = r.next() as u8;
            }
            5 if !composite && rec.len() >= 12 => {
                // last endPtsOfContours = 0xFFFF: `num_coords + 1` in u16
                let nc = u16::from_be_bytes([rec[0], rec[1]]) as usize;
                if nc > 0 && rec.len() >= 10 + 2 * nc {
                    rec[10 + 2 * (nc - 1)] = 0xFF;
                    rec[10 + 2 * (nc - 1) + 1] = 0xFF;
                }
            }
            4 => {
                // poke the flag / repeat area of simple glyphs, or the component flags
                let k = (rec.len() / 2 + r.below((rec.len() / 2) as u64 + 1) as usize).min(rec.len() - 1);
                rec[k] = *r.pick(&[0xFFu8, 0x08, 0x00, 0x3F, 0xFE]);
            }
            _ => {}
        }
        comps_case(s, &rec);
        let flags = flag_combo(r);
        let mut map: Vec<(u32, u32)> = vec![];
        for g in 0..12u32 {
            if r.chance(5, 6) {
                map.push((g, *r.pick(&[g, g + 1, 3 * g, 0x1234, 0xFFFF, 0x10005])));
            }
        }
        let plan = vh::plan_with_glyph_map(&map, SubsetFlags::from(flags));
        let resp = match catch(|| vh::subset_glyph_bytes(&rec, &plan)) {
            Ok(Ok(b)) => hex(&b),
            Ok(Err(_)) => "readerr".to_string(),
            Err(_) => "trap".to_string(),
        };
        s.count(&format!("glyph-unit:{}:{}", if composite { "composite" } else { "simple" },
            if resp == "-" { "empty" } else if resp == "trap" || resp == "readerr" { &resp } else { "bytes" }));
        s.case("glyph", format!("c17.glyph {} M {} D {}", flags, pairs_str(&map), hex(&rec)), resp);
    }
}


// ---------------------------------------------------------------------------------------------
// unit-level: trim_simple_glyph_padding and glyf_closure_glyphs through the hooks
// ---------------------------------------------------------------------------------------------

fn trim_unit(s: &mut Session, r: &mut Rng, count: usize) {
    for _ in 0..count {
        // a flag stream: mostly well-formed runs, sometimes arbitrary bytes
        let mut data: Vec<u8> = vec![];
        let mut npts = 0u32;
        let nruns = r.range(0, 6);
        for _ in 0..nruns {
            let mut f = r.next() as u8;
            if r.chance(3, 4) {
                f &= !0x08;
            }
            data.push(f);
            if f & 0x08 != 0 {
                let rep = *r.pick(&[0u8, 1, 2, 62, 63, 64, 127, 254, 255]);
                data.push(rep);
                npts += rep as u32 + 1;
            } else {
                npts += 1;
            }
        }
        // coordinate bytes / padding / shortage
        let tail = r.below(12) as usize;
        data.extend(r.bytes(tail));
        if r.chance(1, 6) {
            let k = r.below(data.len() as u64 + 1) as usize;
            data.truncate(k);
        }
        let num_coords = match r.below(6) {
            0 => r.range(1, 0xFFFF) as u16,
            1 => (npts.saturating_sub(1)).clamp(1, 0xFFFF) as u16,
            2 => (npts + 1).min(0xFFFF) as u16,
            _ => npts.clamp(1, 0xFFFF) as u16,
        };
        let resp = match catch(|| vh::trim_simple_glyph_padding(&data, num_coords)) {
            Ok(n) => n.to_string(),
            Err(_) => "trap".into(),
        };
        s.count(if resp == "0" { "trim:0" } else if resp == "trap" { "trim:trap" } else { "trim:len" });
        s.case("trim", format!("c17.trim {} {}", num_coords, hex(&data)), resp);
    }
}

fn closure_unit(s: &mut Session, r: &mut Rng, fc: &FontCtx, per_font: usize) {
    let Ok(font) = FontRef::new(fc.data) else { return };
    let n = fc.comps.len() as u32;
    if n == 0 {
        return;
    }
    let comps_s = fc
        .comps
        .iter()
        .map(|c| if c.is_empty() { "0".to_string() } else { format!("{} {}", c.len(), join(c)) })
        .collect::<Vec<_>>()
        .join(" ");
    for _ in 0..per_font {
        let gid = if r.chance(1, 10) { n + r.below(3) as u32 } else { r.below(n as u64) as u32 };
        let depth = *r.pick(&[0u8, 0, 0, 1, 30, 62, 63, 64, 65, 66, 200, 255]);
        let ops = *r.pick(&[-3i32, -1, 0, 1, 2, 3, 5, 20, 63, 64, 65, 128, 1000, i32::MAX]);
        let mut pre: BTreeSet<u32> = BTreeSet::new();
        for _ in 0..r.below(4) {
            pre.insert(r.below(n as u64 + 1) as u32);
        }
        let mut set = IntSet::<GlyphId>::empty();
        for g in &pre {
            set.insert(GlyphId::new(*g));
        }
        let resp = match catch(|| vh::glyf_closure(&font, gid, &mut set, ops, depth).map(|o| (o, set.iter().map(|g| g.to_u32()).collect::<Vec<_>>()))) {
            Ok(Some((o, v))) => format!("{} {}", join(&v), o),
            Ok(None) => continue,
            Err(_) => "trap".into(),
        };
        let rem = 65u32.saturating_sub(depth as u32);
        let pre_v: Vec<u32> = pre.into_iter().collect();
        s.case("closure", format!("c17.closure {} {} {} G {} S {}", rem, ops, gid, comps_s, join(&pre_v)), resp);
    }
}

// ---------------------------------------------------------------------------------------------
// driver
// ---------------------------------------------------------------------------------------------

fn run_font(s: &mut Session, r: &mut Rng, label: String, data: &[u8], nreq: usize, deep: bool) {
    let Some(fc) = make_ctx(label, data) else {
        s.count("font:skipped(no glyf/unreadable)");
        return;
    };
    s.count(if fc.has_colr { "font:with-COLR" } else { "font:plain" });
    if let Ok(font) = FontRef::new(data) {
        if let (Ok(loca), Ok(glyf)) = (font.loca(None), font.glyf()) {
            for g in 0..loca.len() {
                if let (Some(a), Some(b)) = (loca.get_raw(g), loca.get_raw(g + 1)) {
                    if let Some(bytes) = glyf.offset_data().as_bytes().get(a as usize..b as usize) {
                        // composites only (simple glyphs are covered by the unit group)
                        if bytes.len() >= 2 && bytes[0] & 0x80 != 0 {
                            comps_case(s, bytes);
                        }
                    }
                }
            }
        }
    }
    if fc.locs.len() > 1 {
        s.count("font:variable");
    }
    for i in 0..nreq {
        let req = rand_request(r, &fc);
        if let Some(out) = run_request(s, &fc, &req, "random", deep) {
            if i % 2 == 0 {
                idempotence(s, &fc, &req, &out);
            }
        }
    }
    subset_everything(s, &fc, *r.pick(&[0u16, F_NOTDEF_OUTLINE, F_RETAIN_GIDS | F_NOTDEF_OUTLINE, F_NO_HINTING]));
}

/// `C17_ONLY=<part>[,<part>…]` (development aid) restricts the run to the named parts:
/// core locax cmap hvar gvar outline post colr layout pal.  Unset = everything (what `./check` does).
fn part_enabled(name: &str) -> bool {
    match std::env::var("C17_ONLY") {
        Ok(v) if !v.is_empty() => v.split(',').any(|p| p == name),
        _ => true,
    }
}

/// The session keeps at most 200 oracle failures; several parts raise known-finding oracles once per request, which
/// would fill the list and silently drop a NEW failure of a later part. After every part: keep the first 2 failures
/// per (oracle name, font label) of that part — known findings are keyed by oracle + font, so a failure on another
/// font or of another oracle always stays visible — and count the rest.
fn prune_failures(s: &mut Session, from: usize) -> usize {
    let mut seen: BTreeMap<(String, String), usize> = BTreeMap::new();
    let tail: Vec<_> = s.oracle_failures.drain(from..).collect();
    for f in tail {
        let font = f.input.split(' ').next().unwrap_or("").to_string();
        let n = seen.entry((f.oracle.clone(), font)).or_insert(0);
        *n += 1;
        if *n <= 2 {
            s.oracle_failures.push(f);
        } else {
            s.count(&format!("oracle-failures-pruned:{}", f.oracle));
        }
    }
    s.oracle_failures.len()
}

fn run(cfg: &Config, s: &mut Session) {
    let mut mark = 0usize;
    macro_rules! part {
        ($name:expr, $body:expr) => {
            if part_enabled($name) {
                $body;
                mark = prune_failures(s, mark);
            }
        };
    }
    part!("core", run_core(cfg, s));
    part!("locax", locax::run(cfg, s, &mut Rng::new(cfg.seed ^ 0x10CA)));
    part!("cmap", cmapx::run(cfg, s, &mut Rng::new(cfg.seed ^ 0xC3A9)));
    part!("hvar", hvar::run(cfg, s, &mut Rng::new(cfg.seed ^ 0x48564152)));
    part!("gvar", gvar::run(cfg, s, &mut Rng::new(cfg.seed ^ 0x67766172)));
    part!("outline", outline::run(cfg, s, &mut Rng::new(cfg.seed ^ 0x6F75746C)));
    part!("post", postx::run(cfg, s, &mut Rng::new(cfg.seed ^ 0x706F7374)));
    part!("colr", colrx::run(cfg, s, &mut Rng::new(cfg.seed ^ 0x434F4C52)));
    part!("layout", layoutx::run(cfg, s, &mut Rng::new(cfg.seed ^ 0x4C41594F)));
    part!("pal", palx::run(cfg, s, &mut Rng::new(cfg.seed ^ 0x50414C58)));
    let _ = mark;
}

fn run_core(cfg: &Config, s: &mut Session) {
    let mut r = Rng::new(cfg.seed);
    let th = cfg.thorough();

    // 1. unit-level glyph rewriting
    glyph_unit(s, &mut r, if th { 200_000 } else { 6_000 });
    trim_unit(s, &mut r, if th { 400_000 } else { 10_000 });

    // 2. small mixed synthetic fonts
    for id in 0..(if th { 5000 } else { 160 }) {
        let sf = syn_mixed(&mut r, id);
        let data = build_font(&sf);
        run_font(s, &mut r, sf.name.clone(), &data, if th { 6 } else { 4 }, true);
        if let Some(fc) = make_ctx(sf.name.clone(), &data) {
            closure_unit(s, &mut r, &fc, 3);
        }
    }

    // 3. closure budgets: chains around the nesting limit, fans around the operation budget
    let mut graphs = vec![("chain", 3), ("chain", 62), ("chain", 63), ("chain", 64), ("chain", 65), ("chain", 66), ("chain", 80),
        ("fan", 5), ("fan", 62), ("fan", 63), ("fan", 64), ("fan", 126), ("fan", 127), ("fan", 128), ("fan", 200),
        ("fan2", 10), ("fan2", 31), ("fan2", 32), ("fan2", 33), ("fan2", 50), ("cycle", 1), ("cycle", 2), ("cycle", 7)];
    if th {
        graphs.extend([("chain", 67), ("chain", 100), ("fan", 129), ("fan", 191), ("fan", 192), ("fan", 193), ("fan", 300), ("fan2", 48), ("fan2", 64)]);
    }
    for (kind, p) in graphs {
        let sf = syn_graph(kind, p);
        let data = build_font(&sf);
        let Some(fc) = make_ctx(sf.name.clone(), &data) else { continue };
        closure_unit(s, &mut r, &fc, if th { 60 } else { 12 });
        let n = fc.comps.len() as u32;
        let reqs = vec![
            Req { gids: vec![n - 1], unicodes: vec![], flags: 0 },
            Req { gids: vec![], unicodes: vec![0x41], flags: F_NOTDEF_OUTLINE },
            Req { gids: vec![n - 1, 1], unicodes: vec![0x42], flags: F_RETAIN_GIDS },
            Req { gids: vec![n - 1, 1, 2, 3], unicodes: vec![], flags: F_NO_HINTING },
        ];
        for req in reqs {
            if let Some(out) = run_request(s, &fc, &req, "graph", true) {
                idempotence(s, &fc, &req, &out);
            }
        }
        subset_everything(s, &fc, 0);
    }

    // 4. glyf sizes around the short/long loca limits (0xFFFF, 0x10000, 0x1FFFE, 0x1FFFF)
    let targets: Vec<usize> = if th {
        vec![0xFF00, 0xFFFC, 0xFFFE, 0xFFFF, 0x10000, 0x10001, 0x10002, 0x18000, 0x1FFFB, 0x1FFFC, 0x1FFFD, 0x1FFFE, 0x1FFFF, 0x20000, 0x20001, 0x20002, 0x28001]
    } else {
        vec![0xFFFD, 0xFFFE, 0x10000, 0x10001, 0x1FFFD, 0x1FFFE, 0x1FFFF, 0x20001]
    };
    for t in targets {
        // kept glyphs: gid 0 (30 bytes; dropped unless NOTDEF_OUTLINE) + k glyphs of 1001/1000 bytes + one tuner
        for (odd, notdef) in [(false, false), (true, true)] {
            let unit = if odd { 1001 } else { 1000 };
            let padded_unit = 1000 + if odd { 2 } else { 0 };
            let fixed = if notdef { 30 } else { 0 };
            let k = (t - fixed - 40) / padded_unit;
            let tuner = t - fixed - k * padded_unit;
            if tuner < 30 || k == 0 {
                continue;
            }
            let mut sizes_v = vec![unit; k];
            sizes_v.push(tuner);
            // distractor glyphs that are not requested
            sizes_v.extend([500usize, 77, 1000]);
            let sf = syn_sized(&format!("syn:sized-{t:#x}-{}", if odd { "odd" } else { "even" }), &sizes_v, false);
            let data = build_font(&sf);
            let Some(fc) = make_ctx(sf.name.clone(), &data) else { continue };
            let keep: Vec<u32> = (1..=(k as u32 + 1)).collect();
            for flags in [0u16, F_RETAIN_GIDS] {
                let req = Req { gids: keep.clone(), unicodes: vec![], flags: flags | if notdef { F_NOTDEF_OUTLINE } else { 0 } };
                if let Some(out) = run_request(s, &fc, &req, "sized", true) {
                    if flags == 0 {
                        idempotence(s, &fc, &req, &out);
                    }
                }
            }
        }
    }
    // the design-phase repro: 200 glyphs x 150 points, keep gids 0..=100
    {
        let mut glyphs = vec![];
        let mut rr = Rng::new(17);
        for _ in 0..200 {
            glyphs.push(rand_simple(&mut rr, 150, 0, true));
        }
        let n = glyphs.len();
        let sf = Syn {
            name: "syn:200x150pt".into(),
            glyphs,
            adv: (0..n).map(|i| 500 + (i / 50) as u16).collect(),
            lsb: (0..n).map(|i| (i % 9) as i16).collect(),
            num_long: n,
            cmap: (1..60).map(|g| (0x100 + g as u32, g as u32)).collect(),
            long_loca: false,
            align: 2,
        };
        let data = build_font(&sf);
        if let Some(fc) = make_ctx(sf.name.clone(), &data) {
            for (hi, flags) in [(100u32, 0u16), (100, F_NOTDEF_OUTLINE | F_RETAIN_GIDS), (199, F_NOTDEF_OUTLINE), (60, 0)] {
                let req = Req { gids: (0..=hi).collect(), unicodes: vec![], flags };
                if let Some(out) = run_request(s, &fc, &req, "200x150", th) {
                    idempotence(s, &fc, &req, &out);
                }
            }
        }
    }

    // 5. corpus fonts with glyf outlines
    let dir = "/repo/font-test-data/test_data/ttf";
    let mut files: Vec<_> = std::fs::read_dir(dir).map(|d| d.filter_map(|e| e.ok()).map(|e| e.path()).collect()).unwrap_or_default();
    files.sort();
    for p in files {
        if p.extension().and_then(|e| e.to_str()) != Some("ttf") {
            continue;
        }
        let Ok(data) = std::fs::read(&p) else { continue };
        let label = format!("corpus:{}", p.file_name().unwrap().to_string_lossy());
        run_font(s, &mut r, label, &data, if th { 100 } else { 6 }, false);
    }

}

fn run_guarded(cfg: &Config, s: &mut Session) {
    // a panic in the harness's own code (outside `catch`) must not pass silently
    let r = std::panic::catch_unwind(std::panic::AssertUnwindSafe(|| run(cfg, s)));
    if let Err(e) = r {
        let msg = e.downcast_ref::<String>().cloned().or_else(|| e.downcast_ref::<&str>().map(|s| s.to_string())).unwrap_or_default();
        eprintln!("c17 harness panicked: {msg}");
        std::process::exit(101);
    }
}

fn main() {
    fv_harness::main_with("C17", run_guarded)
}
