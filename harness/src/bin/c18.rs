//! C18 — IFT patches change exactly what they say, atomically and order-independently.
//!
//! Real code under test (public API only, no hooks):
//!   `IncrementalFontPatchBase::{apply_table_keyed_patch, apply_glyph_keyed_patches}` on `&[u8]`,
//!   `PatchGroup::{select_next_patches, uris, apply_next_patches_with_decoder}`,
//!   `intersecting_patches` + `PatchInfo::try_from(PatchUri)` (to obtain genuine `PatchInfo`s).
//! Both sides share one scripted `SharedBrotliDecoder` (identity / base++stream, MaxSizeExceeded,
//! fault at call k) — `scripted` in lean/FontVerif/Drv/C18.lean.
//! Oracles (model independent): untouched tables byte-identical (modulo head.checksumAdjustment),
//! dropped tables absent, patched table = what the decoder returned for (stream, base?),
//! every decoder fault / compat mismatch ⇒ Err with nothing decoded after/before it, glyph slices
//! = first-wins patch data (+ padding) or the old slice, offsets ascending, exactly the patches'
//! applied bits set, permutations / sequential partitions of agreeing patches give identical
//! tables, status map untouched on Err and flipped exactly for the applied URIs on Ok.
use fv_harness::common::*;
use incremental_font_transfer::font_patch::{IncrementalFontPatchBase, PatchingError};
use incremental_font_transfer::patch_group::{PatchGroup, PatchInfo, UriStatus};
use incremental_font_transfer::patchmap::{intersecting_patches, PatchFormat, SubsetDefinition};
use read_fonts::collections::IntSet;
use read_fonts::{FontRef, ReadError, TableProvider};
use shared_brotli_patch_decoder::decode_error::DecodeError;
use shared_brotli_patch_decoder::SharedBrotliDecoder;
use std::cell::RefCell;
use std::collections::{BTreeMap, HashMap};
use write_fonts::types::Tag;
use write_fonts::FontBuilder;

// ------------------------------------------------------------------------------------------
// scripted decoder
// ------------------------------------------------------------------------------------------

const KINDS: [&str; 6] = ["Init", "Stream", "Dict", "Max", "Excess", "Io"];

fn kind_err(k: &str) -> DecodeError {
    match k {
        "Init" => DecodeError::InitFailure,
        "Stream" => DecodeError::InvalidStream,
        "Dict" => DecodeError::InvalidDictionary,
        "Max" => DecodeError::MaxSizeExceeded,
        "Excess" => DecodeError::ExcessInputData,
        _ => DecodeError::IoError(std::io::ErrorKind::Other),
    }
}

#[derive(Clone, Debug)]
struct Call {
    stream: Vec<u8>,
    base: Option<Vec<u8>>,
    max_len: usize,
    out: Option<Vec<u8>>,
}

struct Scripted {
    fault: Option<(usize, &'static str)>,
    calls: RefCell<Vec<Call>>,
}

impl Scripted {
    fn new(fault: Option<(usize, &'static str)>) -> Self {
        Scripted { fault, calls: RefCell::new(vec![]) }
    }
    fn script(&self) -> String {
        match self.fault {
            None => "n".into(),
            Some((k, kind)) => format!("{k}:{kind}"),
        }
    }
    fn n_calls(&self) -> usize {
        self.calls.borrow().len()
    }
}

impl SharedBrotliDecoder for Scripted {
    fn decode(&self, encoded: &[u8], dict: Option<&[u8]>, max_len: usize) -> Result<Vec<u8>, DecodeError> {
        let idx = self.calls.borrow().len();
        let mut rec = Call { stream: encoded.to_vec(), base: dict.map(|d| d.to_vec()), max_len, out: None };
        let r = if matches!(self.fault, Some((k, _)) if k == idx) {
            Err(kind_err(self.fault.unwrap().1))
        } else {
            let mut out = dict.map(|d| d.to_vec()).unwrap_or_default();
            out.extend_from_slice(encoded);
            if out.len() > max_len {
                Err(DecodeError::MaxSizeExceeded)
            } else {
                rec.out = Some(out.clone());
                Ok(out)
            }
        };
        self.calls.borrow_mut().push(rec);
        r
    }
}

// ------------------------------------------------------------------------------------------
// canonical strings
// ------------------------------------------------------------------------------------------

fn us(s: &str) -> String {
    s.replace(' ', "_")
}

fn rerr(e: &ReadError) -> String {
    match e {
        ReadError::OutOfBounds => "OutOfBounds".into(),
        ReadError::NullOffset => "NullOffset".into(),
        ReadError::InvalidArrayLen => "InvalidArrayLen".into(),
        ReadError::TableIsMissing(t) => format!("TableIsMissing({})", hex(&t.to_be_bytes())),
        ReadError::MalformedData(m) => format!("MalformedData({})", us(m)),
        other => format!("Other({})", us(&format!("{other:?}"))),
    }
}

fn perr(e: &PatchingError) -> String {
    match e {
        PatchingError::PatchParsingFailed(r) => format!("PatchParsingFailed({})", rerr(r)),
        PatchingError::FontParsingFailed(r) => format!("FontParsingFailed({})", rerr(r)),
        PatchingError::SerializationError(f) => {
            let d: String = format!("{f:?}").chars().filter(|c| c.is_ascii_digit()).collect();
            format!("SerializationError({d})")
        }
        PatchingError::IncompatiblePatch => "IncompatiblePatch".into(),
        PatchingError::NonIncrementalFont => "NonIncrementalFont".into(),
        PatchingError::InvalidPatch(m) => format!("InvalidPatch({})", us(m)),
        PatchingError::EmptyPatchList => "EmptyPatchList".into(),
        PatchingError::InternalError => "InternalError".into(),
        PatchingError::MissingPatches => "MissingPatches".into(),
    }
}

fn fnv(bs: &[u8]) -> String {
    let mut h: u64 = 0xcbf29ce484222325;
    for b in bs {
        h = (h ^ *b as u64).wrapping_mul(0x100000001b3);
    }
    hex(&h.to_be_bytes())
}

fn digest(d: &[u8]) -> String {
    if d.len() <= 48 {
        format!("{}:{}:{}", d.len(), fnv(d), hex(d))
    } else {
        format!("{}:{}", d.len(), fnv(d))
    }
}

const HEAD: u32 = 0x68656164;

fn canon_head(tag: u32, d: &[u8]) -> Vec<u8> {
    let mut v = d.to_vec();
    if tag == HEAD && v.len() >= 12 {
        v[8..12].copy_from_slice(&[0, 0, 0, 0]);
    }
    v
}

type Tables = Vec<(u32, Vec<u8>)>;

fn tables_of(font: &[u8]) -> Option<Tables> {
    let f = FontRef::new(font).ok()?;
    let mut v: Tables = vec![];
    for r in f.table_directory.table_records() {
        let t = r.tag();
        let d = f.table_data(t)?;
        v.push((u32::from_be_bytes(t.to_be_bytes()), d.as_bytes().to_vec()));
    }
    Some(v)
}

fn tables_str(t: &Tables) -> String {
    t.iter()
        .map(|(tag, d)| format!("{}={}", hex(&tag.to_be_bytes()), digest(&canon_head(*tag, d))))
        .collect::<Vec<_>>()
        .join(" ")
}

fn font_req(t: &Tables) -> String {
    t.iter().map(|(tag, d)| format!("{}={}", hex(&tag.to_be_bytes()), hex(d))).collect::<Vec<_>>().join(" ")
}

fn get<'a>(t: &'a Tables, tag: u32) -> Option<&'a Vec<u8>> {
    t.iter().find(|(x, _)| *x == tag).map(|(_, d)| d)
}

fn tg(s: &[u8; 4]) -> u32 {
    u32::from_be_bytes(*s)
}

// ------------------------------------------------------------------------------------------
// builders: IFT format-2 mapping table, fonts, patches (byte for byte)
// ------------------------------------------------------------------------------------------

/// one format-2 entry: id delta, explicit patch format (1 full / 2 partial / 3 glyph keyed), ignored bit
#[derive(Clone, Copy)]
struct MapEntry {
    delta: i32,
    format: u8,
    ignored: bool,
}

/// Layout = font-test-data `table_keyed_format2()` with N entries of the shape
/// flags(ENTRY_ID_DELTA|PATCH_FORMAT|CODEPOINTS_BIT_1), int24 delta, u8 format, sparse-bit-set {0..17};
/// `pad` bytes between the header and the entries move the applied-bit indices.
fn ift_format2(compat: &[u8; 16], pad: usize, entries: &[MapEntry]) -> Vec<u8> {
    ift_format2_ext(compat, pad, entries, None, None)
}

/// with the optional `cff_charstrings_offset` / `cff2_charstrings_offset` header fields
fn ift_format2_ext(compat: &[u8; 16], pad: usize, entries: &[MapEntry], cff: Option<u32>, cff2: Option<u32>) -> Vec<u8> {
    let flags = (if cff.is_some() { 1u8 } else { 0 }) | (if cff2.is_some() { 2 } else { 0 });
    let mut b: Vec<u8> = vec![2, 0, 0, 0, flags];
    b.extend_from_slice(compat);
    b.push(3); // default patch format
    let n = entries.len() as u32;
    b.extend_from_slice(&n.to_be_bytes()[1..]);
    let uri = b"foo/{id}";
    let extra = 4 * (cff.is_some() as usize + cff2.is_some() as usize);
    let entries_off = (5 + 16 + 1 + 3 + 4 + 4 + 2 + uri.len() + extra + pad) as u32;
    b.extend_from_slice(&entries_off.to_be_bytes());
    b.extend_from_slice(&0u32.to_be_bytes());
    b.extend_from_slice(&(uri.len() as u16).to_be_bytes());
    b.extend_from_slice(uri);
    if let Some(o) = cff { b.extend_from_slice(&o.to_be_bytes()); }
    if let Some(o) = cff2 { b.extend_from_slice(&o.to_be_bytes()); }
    b.extend(std::iter::repeat(0u8).take(pad));
    for e in entries {
        b.push(0b0001_1100 | if e.ignored { 0b0100_0000 } else { 0 });
        b.extend_from_slice(&e.delta.to_be_bytes()[1..]);
        b.push(e.format);
        b.extend_from_slice(&[0b0000_1101, 0b0000_0011, 0b0011_0001]);
    }
    b
}

fn head_table(long_loca: bool, rng: &mut Rng) -> Vec<u8> {
    let mut h = vec![0u8; 54];
    h[0..4].copy_from_slice(&0x0001_0000u32.to_be_bytes());
    h[8..12].copy_from_slice(&(rng.next() as u32).to_be_bytes());
    h[12..16].copy_from_slice(&0x5F0F_3CF5u32.to_be_bytes());
    h[18..20].copy_from_slice(&1000u16.to_be_bytes());
    h[51] = if long_loca { 1 } else { 0 };
    h
}

fn maxp_table(n: u16) -> Vec<u8> {
    let mut m = 0x0000_5000u32.to_be_bytes().to_vec();
    m.extend_from_slice(&n.to_be_bytes());
    m
}

fn build_font(tables: &BTreeMap<u32, Vec<u8>>) -> Vec<u8> {
    let mut fb = FontBuilder::new();
    for (t, d) in tables {
        fb.add_raw(Tag::from_be_bytes(t.to_be_bytes()), d.clone());
    }
    fb.build()
}

fn loca_bytes(offsets: &[u32], long: bool) -> Vec<u8> {
    let mut v = vec![];
    for o in offsets {
        if long {
            v.extend_from_slice(&o.to_be_bytes());
        } else {
            v.extend_from_slice(&((o / 2) as u16).to_be_bytes());
        }
    }
    v
}

/// table keyed patch entry spec
#[derive(Clone, Debug)]
struct TkEntry {
    tag: u32,
    flags: u8,
    max_len: u32,
    stream: Vec<u8>,
}

/// byte-for-byte `TableKeyedPatch` (layout of font-test-data `table_keyed_patch()`)
fn tk_patch(format: &[u8; 4], compat: &[u8; 16], entries: &[TkEntry]) -> (Vec<u8>, Vec<usize>) {
    let mut b = format.to_vec();
    b.extend_from_slice(&[0, 0, 0, 0]);
    b.extend_from_slice(compat);
    b.extend_from_slice(&(entries.len() as u16).to_be_bytes());
    let off_pos = b.len();
    b.extend(std::iter::repeat(0u8).take(4 * (entries.len() + 1)));
    let mut offs = vec![];
    for e in entries {
        offs.push(b.len());
        b.extend_from_slice(&e.tag.to_be_bytes());
        b.push(e.flags);
        b.extend_from_slice(&e.max_len.to_be_bytes());
        b.extend_from_slice(&e.stream);
    }
    offs.push(b.len());
    for (i, o) in offs.iter().enumerate() {
        b[off_pos + 4 * i..off_pos + 4 * i + 4].copy_from_slice(&(*o as u32).to_be_bytes());
    }
    (b, offs)
}

/// glyph keyed payload spec: tables × gids → data
#[derive(Clone, Debug)]
struct GkSpec {
    wide: bool,
    tables: Vec<u32>,
    gids: Vec<u32>,
    /// data[table][glyph]
    data: Vec<Vec<Vec<u8>>>,
}

fn gk_payload(s: &GkSpec) -> Vec<u8> {
    let mut b = (s.gids.len() as u32).to_be_bytes().to_vec();
    b.push(s.tables.len() as u8);
    for g in &s.gids {
        if s.wide {
            b.extend_from_slice(&g.to_be_bytes()[1..]);
        } else {
            b.extend_from_slice(&(*g as u16).to_be_bytes());
        }
    }
    for t in &s.tables {
        b.extend_from_slice(&t.to_be_bytes());
    }
    let n_off = s.gids.len() * s.tables.len() + 1;
    let off_pos = b.len();
    b.extend(std::iter::repeat(0u8).take(4 * n_off));
    let mut k = 0;
    for ti in 0..s.tables.len() {
        for gi in 0..s.gids.len() {
            let o = b.len() as u32;
            b[off_pos + 4 * k..off_pos + 4 * k + 4].copy_from_slice(&o.to_be_bytes());
            b.extend_from_slice(&s.data[ti][gi]);
            k += 1;
        }
    }
    let o = b.len() as u32;
    b[off_pos + 4 * k..off_pos + 4 * k + 4].copy_from_slice(&o.to_be_bytes());
    b
}

/// `GlyphKeyedPatch` container; the "brotli stream" is the payload itself (identity decoder)
fn gk_patch(format: &[u8; 4], wide: bool, compat: &[u8; 16], max_len: u32, payload: &[u8]) -> Vec<u8> {
    let mut b = format.to_vec();
    b.extend_from_slice(&[0, 0, 0, 0]);
    b.push(if wide { 1 } else { 0 });
    b.extend_from_slice(compat);
    b.extend_from_slice(&max_len.to_be_bytes());
    b.extend_from_slice(payload);
    b
}

// ------------------------------------------------------------------------------------------
// genuine PatchInfos
// ------------------------------------------------------------------------------------------

struct Info {
    info: PatchInfo,
    uri: String,
    iftx: bool,
    compat: Vec<u8>,
    bit: usize,
    format: PatchFormat,
}

impl Info {
    fn req(&self) -> String {
        format!("{},{},{},{}", if self.iftx { "X" } else { "I" }, hex(&self.compat), self.bit, self.uri)
    }
}

/// all un-ignored entries of the font's IFT / IFTX tables, as the crate's own `PatchInfo`s; the
/// model-side view (table, compat id, bit index, uri) is read back from `PatchInfo`'s `Debug`.
fn infos_of(font: &[u8]) -> Vec<Info> {
    let f = match FontRef::new(font) {
        Ok(f) => f,
        Err(_) => return vec![],
    };
    let mut cps = IntSet::<u32>::empty();
    cps.insert(5);
    let sd = SubsetDefinition::codepoints(cps);
    let uris = match intersecting_patches(&f, &sd) {
        Ok(u) => u,
        Err(_) => return vec![],
    };
    let mut out = vec![];
    for u in uris {
        let format = u.encoding();
        let Ok(info) = PatchInfo::try_from(u) else { continue };
        let dbg = format!("{info:?}");
        let uri = dbg.split('"').nth(1).unwrap_or("").to_string();
        let iftx = dbg.contains("Iftx(");
        let compat: Vec<u8> = dbg
            .split("CompatibilityId([")
            .nth(1)
            .and_then(|s| s.split("])").next())
            .map(|s| s.split(',').filter_map(|x| x.trim().parse::<u8>().ok()).collect())
            .unwrap_or_default();
        let bit: usize = dbg
            .split("application_flag_bit_index: ")
            .nth(1)
            .map(|s| s.chars().take_while(|c| c.is_ascii_digit()).collect::<String>())
            .and_then(|s| s.parse().ok())
            .unwrap_or(usize::MAX);
        out.push(Info { info, uri, iftx, compat, bit, format });
    }
    out
}

fn compat_id(rng: &mut Rng) -> [u8; 16] {
    let mut c = [0u8; 16];
    for b in c.iter_mut() {
        *b = rng.below(4) as u8;
    }
    c
}

// ------------------------------------------------------------------------------------------
// table keyed cases
// ------------------------------------------------------------------------------------------

struct TkCase {
    tables: BTreeMap<u32, Vec<u8>>,
    entries: Vec<TkEntry>,
    patch: Vec<u8>,
    /// true when the patch bytes are exactly what `tk_patch(entries)` produced
    clean: bool,
}

fn misc_tag(rng: &mut Rng) -> u32 {
    let pool: [&[u8; 4]; 10] = [b"tab1", b"tab2", b"tab3", b"tab4", b"tab5", b"zzzz", b"AAAA", b"head", b"glyf", b"IFT "];
    tg(*rng.pick(&pool))
}

fn gen_tk(rng: &mut Rng, font_compat: &[u8; 16], patch_compat: &[u8; 16]) -> TkCase {
    let mut tables: BTreeMap<u32, Vec<u8>> = BTreeMap::new();
    let n_tab = rng.range(1, 6);
    for _ in 0..n_tab {
        let t = misc_tag(rng);
        if t == tg(b"IFT ") {
            continue;
        }
        let len = *rng.pick(&[0usize, 1, 3, 7, 12, 13, 30, 54, 60]);
        let d = if t == HEAD && len >= 54 { head_table(false, rng) } else { rng.bytes(len) };
        tables.insert(t, d);
    }
    let n_ent = *rng.pick(&[0usize, 1, 1, 2, 3, 3, 4, 6]);
    let mut entries = vec![];
    for _ in 0..n_ent {
        let tag = misc_tag(rng);
        let flags = *rng.pick(&[0u8, 0, 1, 1, 2, 3, 4, 0x81, 0xfe]);
        let sl = *rng.pick(&[0usize, 1, 2, 5, 9, 20]);
        let stream = rng.bytes(sl);
        let base_len = tables.get(&tag).map(|d| d.len()).unwrap_or(0);
        let exact = stream.len() + if flags & 1 == 0 { base_len } else { 0 };
        let max_len = match rng.below(8) {
            0 => exact.saturating_sub(1) as u32,
            1 => 0,
            2 => u32::MAX,
            _ => exact as u32 + rng.below(3) as u32,
        };
        entries.push(TkEntry { tag, flags, max_len, stream });
    }
    let fmt: &[u8; 4] = if rng.chance(1, 25) { b"ifgk" } else { b"iftk" };
    let (mut patch, offs) = tk_patch(fmt, patch_compat, &entries);
    let mut clean = fmt == b"iftk";
    // structural corruption of the container
    if rng.chance(1, 4) {
        clean = false;
        let n = entries.len();
        let off_pos = 26;
        match rng.below(8) {
            0 => {
                let k = rng.below(patch.len() as u64 + 1) as usize;
                patch.truncate(k);
            }
            1 if n >= 2 => {
                // swap two offsets (unsorted)
                let i = rng.below(n as u64) as usize;
                let a = off_pos + 4 * i;
                for k in 0..4 {
                    patch.swap(a + k, a + 4 + k);
                }
            }
            2 => {
                let i = rng.below(n as u64 + 1) as usize;
                let v = (patch.len() as u32).wrapping_add(rng.range(-3, 12) as u32);
                patch[off_pos + 4 * i..off_pos + 4 * i + 4].copy_from_slice(&v.to_be_bytes());
            }
            3 => {
                let i = rng.below(n as u64 + 1) as usize;
                patch[off_pos + 4 * i..off_pos + 4 * i + 4].copy_from_slice(&0u32.to_be_bytes());
            }
            4 => {
                // count larger / smaller than the offsets present
                let c = (n as i64 + rng.range(-2, 3)).max(0) as u16;
                patch[24..26].copy_from_slice(&c.to_be_bytes());
            }
            5 if n >= 1 => {
                // offset delta below the 9 byte header
                let i = rng.below(n as u64) as usize;
                let v = offs[i] as u32 + rng.below(9) as u32;
                patch[off_pos + 4 * (i + 1)..off_pos + 4 * (i + 1) + 4].copy_from_slice(&v.to_be_bytes());
            }
            6 => {
                let el = rng.below(12) as usize;
                let extra = rng.bytes(el);
                patch.extend_from_slice(&extra);
            }
            _ => {
                let i = rng.below(n as u64 + 1) as usize;
                let v = rng.below(patch.len() as u64 + 10) as u32;
                patch[off_pos + 4 * i..off_pos + 4 * i + 4].copy_from_slice(&v.to_be_bytes());
            }
        }
    }
    let _ = font_compat;
    TkCase { tables, entries, patch, clean }
}

fn run_tk(s: &mut Session, rng: &mut Rng, n_cases: usize) {
    for case_no in 0..n_cases {
        let font_compat = compat_id(rng);
        let iftx_compat = {
            let mut c = compat_id(rng);
            c[15] = c[15].wrapping_add(9);
            c
        };
        // which flavour of compat relation
        let flavour = rng.below(10);
        let patch_compat = if flavour == 0 { compat_id(rng) } else { font_compat };
        let mut c = gen_tk(rng, &font_compat, &patch_compat);
        let map_entries: Vec<MapEntry> = (0..3).map(|_| MapEntry { delta: 0, format: 2, ignored: false }).collect();
        let use_iftx = rng.chance(1, 3);
        let ift = ift_format2(&font_compat, rng.below(5) as usize, &map_entries);
        let iftx = ift_format2(&iftx_compat, 0, &map_entries);
        // the font the infos come from
        let mut info_tables = c.tables.clone();
        info_tables.insert(tg(b"IFT "), ift.clone());
        info_tables.insert(tg(b"IFTX"), iftx.clone());
        let info_font = build_font(&info_tables);
        let infos = infos_of(&info_font);
        let want_iftx = use_iftx;
        let Some(info) = infos.iter().find(|i| i.iftx == want_iftx) else {
            s.count("tk:no-info");
            continue;
        };
        if use_iftx && flavour != 0 {
            // patch must carry the IFTX id to be compatible
            let (p, _) = tk_patch(b"iftk", &iftx_compat, &c.entries);
            if c.clean {
                c.patch = p;
            } else if c.patch.len() >= 24 {
                c.patch[8..24].copy_from_slice(&iftx_compat);
            }
        }
        // the font the patch is applied to
        let mut tables = c.tables.clone();
        match flavour {
            1 => {
                // font's table has another id than the info
                let mut other = font_compat;
                other[0] ^= 0x40;
                tables.insert(tg(b"IFT "), ift_format2(&other, 0, &map_entries));
                tables.insert(tg(b"IFTX"), iftx.clone());
            }
            2 => {
                // mapping table absent
                if use_iftx {
                    tables.insert(tg(b"IFT "), ift.clone());
                } else {
                    tables.insert(tg(b"IFTX"), iftx.clone());
                }
            }
            _ => {
                tables.insert(tg(b"IFT "), ift.clone());
                tables.insert(tg(b"IFTX"), iftx.clone());
            }
        }
        let font = build_font(&tables);
        let Some(base_tables) = tables_of(&font) else { continue };

        // first without fault, then a fault at every call index (one kind each, rotating)
        let mut n_calls_ok = 0usize;
        let mut round = 0usize;
        loop {
            let fault = if round == 0 {
                None
            } else {
                Some((round - 1, KINDS[(case_no + round) % KINDS.len()]))
            };
            let dec = Scripted::new(fault);
            let r = catch(|| font.as_slice().apply_table_keyed_patch(&info.info, &c.patch, &dec));
            let req = format!("tk {} {} {} {}", dec.script(), info.req(), hex(&c.patch), font_req(&base_tables));
            let input = || format!("seed-case tk#{case_no} round {round}: {}", req.chars().take(1500).collect::<String>());
            let resp = match &r {
                Err(p) => {
                    s.oracle("tk:no-panic", false, input, || p.clone());
                    "panic".to_string()
                }
                Ok(Err(e)) => format!("err {}", perr(e)),
                Ok(Ok(bytes)) => match tables_of(bytes) {
                    Some(t) => format!("ok calls={} {}", dec.n_calls(), tables_str(&t)),
                    None => "ok unreadable".into(),
                },
            };
            s.case("table_keyed", req.clone(), resp.clone());
            let calls = dec.calls.borrow().clone();
            if let Ok(res) = &r {
                // the property, evaluated on the bytes: ids of the mapping table named by the info,
                // of the info itself and of the patch
                let map_tag = if info.iftx { tg(b"IFTX") } else { tg(b"IFT ") };
                let font_id: Option<Vec<u8>> = get(&base_tables, map_tag).map(|d| d[5..21].to_vec());
                match &font_id {
                    None => {
                        s.count("tk:compat-table-missing");
                        s.oracle("tk:missing-mapping-table-is-error",
                            matches!(res, Err(PatchingError::FontParsingFailed(ReadError::TableIsMissing(_)))) && calls.is_empty(), input, || resp.clone());
                    }
                    Some(id) if *id != info.compat => {
                        s.count("tk:compat-info-mismatch");
                        s.oracle("tk:compat-mismatch-is-error", matches!(res, Err(PatchingError::IncompatiblePatch)), input, || resp.clone());
                        s.oracle("tk:compat-mismatch-before-decode", calls.is_empty(), input, || format!("{} decoder calls", calls.len()));
                    }
                    Some(id) if c.patch.len() >= 24 && c.patch[8..24] != id[..] => {
                        s.count("tk:compat-patch-mismatch");
                        s.oracle("tk:compat-mismatch-is-error",
                            matches!(res, Err(PatchingError::IncompatiblePatch) | Err(PatchingError::PatchParsingFailed(_))), input, || resp.clone());
                        s.oracle("tk:compat-mismatch-before-decode", calls.is_empty(), input, || format!("{} decoder calls", calls.len()));
                    }
                    _ => {
                        s.count("tk:compat-ok");
                        s.oracle("tk:compatible-patch-not-rejected-as-incompatible", !matches!(res, Err(PatchingError::IncompatiblePatch)), input, || resp.clone());
                    }
                }
                if let Some((k, _)) = fault {
                    if calls.len() > k {
                        s.count("tk:fault-hit");
                        s.oracle("tk:decoder-fault-is-error", res.is_err(), input, || resp.clone());
                        s.oracle("tk:no-decode-after-fault", calls.len() == k + 1, input, || format!("{} calls", calls.len()));
                    }
                }
                if calls.iter().any(|c| c.out.is_none()) {
                    s.oracle("tk:any-decoder-error-is-error", res.is_err(), input, || resp.clone());
                }
                if let Ok(bytes) = res {
                    s.count("tk:ok");
                    if let Some(out) = tables_of(bytes) {
                        tk_oracles(s, &c, &base_tables, &out, &calls, &input);
                    } else {
                        s.oracle("tk:output-readable", false, input, || "FontRef::new failed".into());
                    }
                } else {
                    s.count(&format!("tk:{}", resp.split('(').next().unwrap_or("err")));
                }
            }
            if round == 0 {
                n_calls_ok = dec.n_calls();
            }
            round += 1;
            if round > n_calls_ok.min(4) {
                break;
            }
        }
    }
}

fn tk_oracles(s: &mut Session, c: &TkCase, base: &Tables, out: &Tables, calls: &[Call], input: &dyn Fn() -> String) {
    if !c.clean {
        // the entry list is not authoritative for a corrupted container: only the generic part
        for (tag, d) in base {
            let named = c.entries.iter().any(|e| e.tag == *tag);
            if !named {
                let same = get(out, *tag).map(|o| canon_head(*tag, o) == canon_head(*tag, d)).unwrap_or(false);
                s.oracle("tk:untouched-table-identical", same, input, || format!("table {}", hex(&tag.to_be_bytes())));
            }
        }
        return;
    }
    // first occurrence of each tag decides
    let mut seen: Vec<u32> = vec![];
    let mut call_i = 0usize;
    for e in &c.entries {
        if seen.contains(&e.tag) {
            continue;
        }
        seen.push(e.tag);
        let t = hex(&e.tag.to_be_bytes());
        if e.flags & 2 != 0 {
            s.count("tk:branch-drop");
            s.oracle("tk:dropped-table-absent", get(out, e.tag).is_none(), input, || format!("table {t} still present"));
            continue;
        }
        let replace = e.flags & 1 != 0;
        s.count(if replace { "tk:branch-replace" } else { "tk:branch-diff" });
        let Some(call) = calls.get(call_i) else {
            s.oracle("tk:one-decode-per-patched-table", false, input, || format!("no call #{call_i} for {t}"));
            continue;
        };
        call_i += 1;
        let want_base = if replace { None } else { get(base, e.tag).cloned() };
        s.oracle(
            "tk:decoder-args",
            call.stream == e.stream && call.base == want_base && call.max_len == e.max_len as usize,
            input,
            || format!("table {t}: call {call:?} want stream {:?} base {:?} max {}", e.stream, want_base, e.max_len),
        );
        let got = get(out, e.tag).map(|d| canon_head(e.tag, d));
        let want = call.out.as_ref().map(|d| canon_head(e.tag, d));
        s.oracle("tk:patched-table-is-decoder-output", got.is_some() && got == want, input, || format!("table {t}: got {got:?} want {want:?}"));
    }
    s.oracle("tk:decode-call-count", call_i == calls.len(), input, || format!("{} calls, {} expected", calls.len(), call_i));
    for (tag, d) in base {
        if !seen.contains(tag) {
            let same = get(out, *tag).map(|o| canon_head(*tag, o) == canon_head(*tag, d)).unwrap_or(false);
            s.oracle("tk:untouched-table-identical", same, input, || format!("table {}", hex(&tag.to_be_bytes())));
        }
    }
    for (tag, _) in out {
        let known = get(base, *tag).is_some() || seen.contains(tag);
        s.oracle("tk:no-invented-table", known, input, || format!("table {}", hex(&tag.to_be_bytes())));
    }
}

// ------------------------------------------------------------------------------------------
// glyph keyed cases
// ------------------------------------------------------------------------------------------

#[derive(Clone)]
struct GkFont {
    long: bool,
    glyphs: Vec<Vec<u8>>,
    tables: BTreeMap<u32, Vec<u8>>,
    /// glyf/loca/head/maxp are well formed and consistent
    clean: bool,
}

fn glyph_len(rng: &mut Rng, long: bool, big: bool) -> usize {
    let l = if big {
        *rng.pick(&[0usize, 2, 10, 400, 4000, 9000, 20000])
    } else {
        *rng.pick(&[0usize, 0, 1, 2, 3, 4, 5, 6, 7, 8, 11, 16, 33])
    };
    if long { l } else { l & !1 }
}

fn gen_gk_font(rng: &mut Rng, big: bool, ift: Vec<u8>, iftx: Option<Vec<u8>>) -> GkFont {
    let long = rng.chance(1, 2);
    let n: usize = if big { rng.range(8, 20) as usize } else { *rng.pick(&[1usize, 2, 3, 5, 8, 13, 16, 17, 40]) };
    let glyphs: Vec<Vec<u8>> = (0..n).map(|_| { let l = glyph_len(rng, long, big); rng.bytes(l) }).collect();
    let mut tables: BTreeMap<u32, Vec<u8>> = BTreeMap::new();
    let mut glyf = vec![];
    let mut offs = vec![0u32];
    for g in &glyphs {
        glyf.extend_from_slice(g);
        offs.push(glyf.len() as u32);
    }
    let mut clean = true;
    let mut maxp_n = n as u16;
    let mut with = [true; 4]; // glyf loca head maxp
    if !big && rng.chance(1, 6) {
        clean = false;
        match rng.below(9) {
            0 if n >= 2 => {
                let i = rng.range(1, n as i64 - 1) as usize;
                offs.swap(i, i + 1); // maybe unordered
            }
            1 => {
                offs.pop(); // loca one entry short
            }
            2 => {
                offs.push(*offs.last().unwrap()); // one extra entry
                if rng.chance(1, 2) {
                    let l = offs.len();
                    offs[l - 1] = offs[l - 2].saturating_sub(2); // trailing descending entry
                }
            }
            3 => {
                let cut = rng.below(glyf.len() as u64 + 1) as usize;
                glyf.truncate(cut); // glyf shorter than loca says
            }
            4 => with[rng.below(4) as usize] = false,
            5 => maxp_n = 0,
            6 => maxp_n = (n as u16).saturating_add(rng.range(1, 3) as u16),
            7 => maxp_n = (n as u16).saturating_sub(1),
            _ => {
                glyf.extend_from_slice(&rng.bytes(3)); // slack after the last glyph
            }
        }
    }
    let mut loca = loca_bytes(&offs, long);
    if !clean && rng.chance(1, 8) {
        loca.push(0); // not a multiple of the entry size
    }
    if with[0] { tables.insert(tg(b"glyf"), glyf); }
    if with[1] { tables.insert(tg(b"loca"), loca); }
    if with[2] { tables.insert(HEAD, head_table(long, rng)); }
    if with[3] { tables.insert(tg(b"maxp"), maxp_table(maxp_n)); }
    tables.insert(tg(b"IFT "), ift);
    if let Some(x) = iftx { tables.insert(tg(b"IFTX"), x); }
    for _ in 0..rng.below(3) {
        let t = *rng.pick(&[tg(b"tab1"), tg(b"tab2"), tg(b"zzzz"), tg(b"AAAA")]);
        let l = rng.below(20) as usize;
        tables.insert(t, rng.bytes(l));
    }
    GkFont { long, glyphs, tables, clean }
}

fn gen_gk_spec(rng: &mut Rng, n_glyphs: usize, big: bool, pool: &mut HashMap<u32, Vec<u8>>, agree: bool) -> GkSpec {
    let wide = rng.chance(1, 4);
    let mut tables = vec![tg(b"glyf")];
    if rng.chance(1, 4) { tables.insert(0, tg(b"aaaa")); }
    if rng.chance(1, 4) { tables.push(tg(b"zzzz")); }
    if rng.chance(1, 12) { tables.retain(|t| *t != tg(b"glyf")); }
    let k = rng.below(n_glyphs.min(8) as u64 + 1) as usize;
    let mut gids: Vec<u32> = (0..n_glyphs as u32).collect();
    rng.shuffle(&mut gids);
    gids.truncate(k);
    gids.sort();
    let mut data = vec![];
    for t in &tables {
        let mut per = vec![];
        for g in &gids {
            let l = if big { *rng.pick(&[0usize, 1, 7, 1000, 30000, 70000]) } else { *rng.pick(&[0usize, 0, 1, 2, 3, 4, 5, 9, 16]) };
            let fresh = rng.bytes(l);
            let d = if *t == tg(b"glyf") && agree {
                pool.entry(*g).or_insert(fresh).clone()
            } else {
                fresh
            };
            per.push(d);
        }
        data.push(per);
    }
    GkSpec { wide, tables, gids, data }
}

#[derive(Clone)]
struct GkPatch {
    spec: GkSpec,
    bytes: Vec<u8>,
    clean: bool,
}

fn corrupt_gk(rng: &mut Rng, spec: &mut GkSpec, n_glyphs: usize) -> (Vec<u8>, bool) {
    // returns payload and whether spec still describes it
    match rng.below(10) {
        0 if spec.gids.len() >= 2 => {
            let i = rng.below(spec.gids.len() as u64 - 1) as usize;
            spec.gids.swap(i, i + 1); // unsorted gids
            (gk_payload(spec), false)
        }
        1 if !spec.gids.is_empty() => {
            let l = spec.gids.len();
            spec.gids[l - 1] = n_glyphs as u32 + rng.below(3) as u32; // beyond the font's max gid
            if spec.wide && rng.chance(1, 2) { spec.gids[l - 1] = 0x01_0000 + rng.below(5) as u32; }
            (gk_payload(spec), false)
        }
        2 if spec.tables.len() >= 2 => {
            spec.tables.swap(0, 1); // unsorted table tags
            (gk_payload(spec), false)
        }
        3 if !spec.tables.is_empty() => {
            let t = spec.tables[0];
            spec.tables.push(t); // duplicate tag (also unsorted)
            let extra = spec.data[0].clone();
            spec.data.push(extra);
            (gk_payload(spec), false)
        }
        4 => {
            let mut p = gk_payload(spec);
            let k = rng.below(p.len() as u64 + 1) as usize;
            p.truncate(k);
            (p, false)
        }
        5 => {
            // an offset made descending / out of bounds / null
            let mut p = gk_payload(spec);
            let w = if spec.wide { 3 } else { 2 };
            let off_pos = 5 + spec.gids.len() * w + spec.tables.len() * 4;
            let n_off = spec.gids.len() * spec.tables.len() + 1;
            let i = rng.below(n_off as u64) as usize;
            let v: u32 = match rng.below(3) { 0 => 0, 1 => p.len() as u32 + rng.below(4) as u32, _ => rng.below(p.len() as u64 + 1) as u32 };
            if off_pos + 4 * i + 4 <= p.len() {
                p[off_pos + 4 * i..off_pos + 4 * i + 4].copy_from_slice(&v.to_be_bytes());
            }
            (p, false)
        }
        6 => {
            let mut p = gk_payload(spec);
            if p.len() >= 5 {
                let gc = (spec.gids.len() as i64 + rng.range(-1, 2)).max(0) as u32;
                p[0..4].copy_from_slice(&gc.to_be_bytes()); // glyph count disagrees with the arrays
            }
            (p, false)
        }
        7 => {
            let mut p = gk_payload(spec);
            if p.len() >= 5 { p[0..4].copy_from_slice(&0xFFFF_FFFFu32.to_be_bytes()); }
            (p, false)
        }
        8 => {
            spec.tables = vec![*rng.pick(&[tg(b"aaaa"), tg(b"hhhh"), tg(b"zzzz")])]; // only ignored tables
            spec.data.truncate(1);
            if spec.data.is_empty() { spec.data.push(spec.gids.iter().map(|_| vec![]).collect()); }
            (gk_payload(spec), true)
        }
        _ => (gk_payload(spec), true),
    }
}

/// the harness' own statement of the property for a clean font + clean patches
fn gk_oracles(s: &mut Session, f: &GkFont, base: &Tables, out: &Tables, applied: &[(&Info, &GkPatch)], input: &dyn Fn() -> String) {
    let div = if f.long { 1 } else { 2 };
    // first wins
    let mut repl: BTreeMap<u32, Vec<u8>> = BTreeMap::new();
    let mut touches_glyf = false;
    for (_, p) in applied {
        if let Some(ti) = p.spec.tables.iter().position(|t| *t == tg(b"glyf")) {
            touches_glyf = true;
            for (gi, g) in p.spec.gids.iter().enumerate() {
                repl.entry(*g).or_insert_with(|| p.spec.data[ti][gi].clone());
            }
        }
    }
    let n = f.glyphs.len();
    let glyf = get(out, tg(b"glyf")).cloned().unwrap_or_default();
    let loca = get(out, tg(b"loca")).cloned().unwrap_or_default();
    let w = if f.long { 4 } else { 2 };
    s.oracle("gk:loca-format-and-length-kept", loca.len() == (n + 1) * w, input, || format!("loca len {} want {}", loca.len(), (n + 1) * w));
    if loca.len() == (n + 1) * w {
        let offs: Vec<usize> = (0..=n)
            .map(|i| {
                if f.long {
                    u32::from_be_bytes(loca[4 * i..4 * i + 4].try_into().unwrap()) as usize
                } else {
                    u16::from_be_bytes(loca[2 * i..2 * i + 2].try_into().unwrap()) as usize * 2
                }
            })
            .collect();
        s.oracle("gk:offsets-ascending", offs.windows(2).all(|p| p[0] <= p[1]), input, || format!("{offs:?}"));
        s.oracle("gk:first-offset-zero-last-is-length", offs[0] == 0 && offs[n] == glyf.len(), input, || format!("{} .. {} vs glyf {}", offs[0], offs[n], glyf.len()));
        if offs.windows(2).all(|p| p[0] <= p[1]) && offs[n] <= glyf.len() {
            for g in 0..n {
                let got = &glyf[offs[g]..offs[g + 1]];
                match repl.get(&(g as u32)) {
                    Some(d) => {
                        let mut want = d.clone();
                        if div == 2 && want.len() % 2 == 1 { want.push(0); }
                        s.count(if d.is_empty() { "gk:glyph-replaced-empty" } else if d.len() % 2 == 1 { "gk:glyph-replaced-odd" } else { "gk:glyph-replaced-even" });
                        s.oracle("gk:listed-glyph-is-patch-data", got == want.as_slice(), input, || format!("gid {g}: got {} bytes want {}", got.len(), want.len()));
                    }
                    None => {
                        s.count("gk:glyph-kept");
                        s.oracle("gk:other-glyph-unchanged", got == f.glyphs[g].as_slice(), input, || format!("gid {g}"));
                    }
                }
            }
        }
    }
    let _ = touches_glyf;
    // applied bits
    for tag in [tg(b"IFT "), tg(b"IFTX")] {
        let Some(old) = get(base, tag) else { continue };
        let mut want = old.clone();
        for (i, _) in applied {
            if (if i.iftx { tg(b"IFTX") } else { tg(b"IFT ") }) == tag {
                want[i.bit / 8] |= 1 << (i.bit % 8);
            }
        }
        s.oracle("gk:only-the-patches-applied-bits-set", get(out, tag) == Some(&want), input, || format!("table {}", hex(&tag.to_be_bytes())));
    }
    for (tag, d) in base {
        if [tg(b"IFT "), tg(b"IFTX"), tg(b"glyf"), tg(b"loca")].contains(tag) { continue; }
        // gvar named by a patch is re-assembled: judged by `gvar_oracles`
        if *tag == tg(b"gvar") && applied.iter().any(|(_, p)| p.spec.tables.contains(tag)) { continue; }
        let same = get(out, *tag).map(|o| canon_head(*tag, o) == canon_head(*tag, d)).unwrap_or(false);
        s.oracle("gk:untouched-table-identical", same, input, || format!("table {}", hex(&tag.to_be_bytes())));
    }
    s.oracle("gk:no-table-added-or-removed", out.len() == base.len(), input, || format!("{} vs {}", out.len(), base.len()));
}

fn apply_gk(font: &[u8], patches: &[(&Info, &GkPatch)], dec: &Scripted) -> Result<Result<Vec<u8>, PatchingError>, String> {
    catch(|| {
        let it = patches.iter().map(|(i, p)| (&i.info, p.bytes.as_slice()));
        font.apply_glyph_keyed_patches(it, dec)
    })
}

fn gk_req(dec: &Scripted, patches: &[(&Info, &GkPatch)], base: &Tables) -> String {
    let mut r = format!("gk {} {}", dec.script(), patches.len());
    for (i, p) in patches {
        r.push_str(&format!(" {} {}", i.req(), hex(&p.bytes)));
    }
    r.push(' ');
    r.push_str(&font_req(base));
    r
}

fn same_tables_mod_head(a: &Tables, b: &Tables) -> bool {
    a.len() == b.len() && a.iter().zip(b).all(|((ta, da), (tb, db))| ta == tb && canon_head(*ta, da) == canon_head(*tb, db))
}

fn run_gk(s: &mut Session, rng: &mut Rng, n_cases: usize, big: bool) {
    for case_no in 0..n_cases {
        let c1 = compat_id(rng);
        let mut c2 = compat_id(rng);
        c2[15] = c2[15].wrapping_add(7);
        let n_map = 5;
        let mk_entries = |rng: &mut Rng, first_delta: i32| -> Vec<MapEntry> {
            (0..n_map).map(|i| MapEntry { delta: if i == 0 { first_delta } else { 0 }, format: 3, ignored: rng.chance(1, 10) }).collect()
        };
        let e1 = mk_entries(rng, 0);
        let e2 = mk_entries(rng, 100);
        let ift = ift_format2(&c1, rng.below(4) as usize, &e1);
        let with_iftx = rng.chance(2, 3);
        let iftx = if with_iftx { Some(ift_format2(&c2, rng.below(4) as usize, &e2)) } else { None };
        let f = gen_gk_font(rng, big, ift.clone(), iftx.clone());
        let font = build_font(&f.tables);
        let Some(base) = tables_of(&font) else { continue };
        // infos: normally from the font itself; sometimes from a sibling (other id / other bit layout)
        let sibling = rng.below(12);
        let info_font = match sibling {
            0 => {
                let mut t = f.tables.clone();
                let mut other = c1; other[3] ^= 0x10;
                t.insert(tg(b"IFT "), ift_format2(&other, 0, &e1));
                build_font(&t)
            }
            1 => {
                let mut t = f.tables.clone();
                t.insert(tg(b"IFT "), ift_format2(&c1, 40 + rng.below(40) as usize, &e1)); // bits beyond the real table
                build_font(&t)
            }
            2 if !with_iftx => {
                let mut t = f.tables.clone();
                t.insert(tg(b"IFTX"), ift_format2(&c2, 0, &e2)); // infos for a table the font lacks
                build_font(&t)
            }
            _ => font.clone(),
        };
        let infos = infos_of(&info_font);
        if infos.is_empty() { s.count("gk:no-infos"); continue; }
        let agree = rng.chance(3, 4);
        let n_p = *rng.pick(&[1usize, 1, 2, 2, 3, 4]).min(&infos.len());
        let mut pool: HashMap<u32, Vec<u8>> = HashMap::new();
        let mut order: Vec<usize> = (0..infos.len()).collect();
        rng.shuffle(&mut order);
        let mut patches: Vec<GkPatch> = vec![];
        let mut all_clean = f.clean && sibling > 2;
        for pi in 0..n_p {
            let info = &infos[order[pi]];
            let mut spec = gen_gk_spec(rng, f.glyphs.len(), big, &mut pool, agree);
            let (payload, clean) = if rng.chance(1, 5) { corrupt_gk(rng, &mut spec, f.glyphs.len()) } else { (gk_payload(&spec), true) };
            let mut compat: [u8; 16] = info.compat.clone().try_into().unwrap_or([0; 16]);
            let mut clean = clean;
            if rng.chance(1, 30) { compat[5] ^= 1; clean = false; }
            let fmt: &[u8; 4] = if rng.chance(1, 30) { clean = false; b"iftk" } else { b"ifgk" };
            let max_len = match rng.below(12) { 0 => { clean = false; payload.len().saturating_sub(1) as u32 } 1 => u32::MAX, _ => payload.len() as u32 };
            if max_len as usize >= payload.len() && !clean && payload.is_empty() { /* nothing */ }
            let mut bytes = gk_patch(fmt, spec.wide, &compat, max_len, &payload);
            if rng.chance(1, 40) { clean = false; let k = rng.below(30) as usize; bytes.truncate(k); }
            all_clean &= clean;
            patches.push(GkPatch { spec, bytes, clean });
        }
        let pairs: Vec<(&Info, &GkPatch)> = (0..n_p).map(|pi| (&infos[order[pi]], &patches[pi])).collect();

        let mut n_calls_ok = 0;
        let mut round = 0usize;
        let mut ok_tables: Option<Tables> = None;
        loop {
            let fault = if round == 0 { None } else { Some((round - 1, KINDS[(case_no + round) % KINDS.len()])) };
            let dec = Scripted::new(fault);
            let r = apply_gk(&font, &pairs, &dec);
            let req = gk_req(&dec, &pairs, &base);
            let input = || format!("gk#{case_no} big={big} round {round}: {}", req.chars().take(2500).collect::<String>());
            let resp = match &r {
                Err(p) => { s.oracle("gk:no-panic", false, input, || p.clone()); "panic".to_string() }
                Ok(Err(e)) => format!("err {}", perr(e)),
                Ok(Ok(bytes)) => match tables_of(bytes) { Some(t) => format!("ok {}", tables_str(&t)), None => "ok unreadable".into() },
            };
            s.case(if big { "glyph_keyed_big" } else { "glyph_keyed" }, req.clone(), resp.clone());
            if let Ok(res) = &r {
                let n_calls = dec.n_calls();
                if let Some((k, _)) = fault {
                    if n_calls > k {
                        s.count("gk:fault-hit");
                        s.oracle("gk:decoder-fault-is-error", res.is_err(), input, || resp.clone());
                        s.oracle("gk:no-decode-after-fault", n_calls == k + 1, input, || format!("{n_calls} calls"));
                    }
                }
                if dec.calls.borrow().iter().any(|c| c.out.is_none()) {
                    s.oracle("gk:any-decoder-error-is-error", res.is_err(), input, || resp.clone());
                }
                if matches!(res, Err(PatchingError::IncompatiblePatch)) {
                    s.oracle("gk:compat-mismatch-before-decode", n_calls == 0, input, || format!("{n_calls} calls"));
                }
                // EVERY patch of the group: info id and header id must equal the font's id for its table
                let foreign = pairs.iter().position(|(i, p)| {
                    let tag = if i.iftx { IFTX } else { IFT_ };
                    match get(&base, tag) {
                        Some(d) if d.len() >= 21 => d[5..21] != i.compat[..] || (p.bytes.len() >= 29 && p.bytes[9..25] != d[5..21]),
                        _ => false,
                    }
                });
                if let Some(k) = foreign {
                    s.count(if k == 0 { "gk:foreign-id-first" } else { "gk:foreign-id-nonfirst" });
                    s.oracle("gk:every-patch-compat-checked", res.is_err() && n_calls == 0, input, || format!("patch {k} foreign: {resp} after {n_calls} decoder calls"));
                }
                if sibling == 0 && pairs.iter().any(|(i, _)| !i.iftx) {
                    s.count("gk:sibling-compat");
                }
                match res {
                    Ok(bytes) => {
                        s.count("gk:ok");
                        if let Some(out) = tables_of(bytes) {
                            if all_clean {
                                s.count("gk:ok-clean");
                                gk_oracles(s, &f, &base, &out, &pairs, &input);
                            }
                            if round == 0 { ok_tables = Some(out); }
                        } else {
                            s.oracle("gk:output-readable", false, input, || "FontRef::new failed".into());
                        }
                    }
                    Err(_) => s.count(&format!("gk:{}", resp.chars().take(60).collect::<String>())),
                }
            }
            if round == 0 { n_calls_ok = dec.n_calls(); }
            round += 1;
            if round > n_calls_ok.min(4) { break; }
        }

        // order / grouping independence for agreeing, clean patches
        if let (Some(want), true, true) = (&ok_tables, all_clean && agree, n_p >= 2) {
            s.count("gk:commute-checked");
            let mut perm: Vec<usize> = (0..n_p).collect();
            rng.shuffle(&mut perm);
            let permuted: Vec<(&Info, &GkPatch)> = perm.iter().map(|&i| pairs[i]).collect();
            let dec = Scripted::new(None);
            let r = apply_gk(&font, &permuted, &dec);
            let req = gk_req(&dec, &permuted, &base);
            let input = || format!("gk#{case_no} permuted {perm:?}: {}", req.chars().take(2500).collect::<String>());
            let got = r.ok().and_then(|x| x.ok()).and_then(|b| tables_of(&b));
            s.case("glyph_keyed_perm", req.clone(), got.as_ref().map(|t| format!("ok {}", tables_str(t))).unwrap_or("err ?".into()));
            s.oracle("gk:agreeing-patches-any-order", got.as_ref().map(|g| same_tables_mod_head(g, want)).unwrap_or(false), input, || "tables differ".into());
            // sequential partition
            let cut = rng.range(1, n_p as i64 - 1) as usize;
            let mut cur = font.clone();
            let mut ok = true;
            for group in [&permuted[..cut], &permuted[cut..]] {
                let dec = Scripted::new(None);
                match apply_gk(&cur, group, &dec) {
                    Ok(Ok(b)) => cur = b,
                    _ => { ok = false; break; }
                }
            }
            let got = if ok { tables_of(&cur) } else { None };
            s.oracle("gk:agreeing-patches-any-grouping", got.as_ref().map(|g| same_tables_mod_head(g, want)).unwrap_or(false), input, || format!("split at {cut}: tables differ or a group failed"));
        }
    }
}


// ------------------------------------------------------------------------------------------
// gvar (independent reader for the oracles; model: `gvar` and `gk` requests)
// ------------------------------------------------------------------------------------------

#[derive(Clone, Debug)]
struct GvarSpec {
    long: bool,
    axis: u16,
    tuples: Vec<u8>,
    glyphs: Vec<Vec<u8>>,
    /// glyph data stored before the shared tuples (non-spec order: patching re-orders)
    swapped: bool,
}

fn gvar_bytes(g: &GvarSpec) -> Vec<u8> {
    let n = g.glyphs.len();
    let w = if g.long { 4 } else { 2 };
    let hdr = 20 + (n + 1) * w;
    let data_len: usize = g.glyphs.iter().map(|d| d.len()).sum();
    let (tuples_off, data_off) = if g.swapped { (hdr + data_len, hdr) } else { (hdr, hdr + g.tuples.len()) };
    let mut b = vec![0, 1, 0, 0];
    b.extend_from_slice(&g.axis.to_be_bytes());
    let count = if g.axis == 0 { 0 } else { g.tuples.len() / (2 * g.axis as usize) };
    b.extend_from_slice(&(count as u16).to_be_bytes());
    b.extend_from_slice(&(tuples_off as u32).to_be_bytes());
    b.extend_from_slice(&(n as u16).to_be_bytes());
    b.extend_from_slice(&(if g.long { 1u16 } else { 0 }).to_be_bytes());
    b.extend_from_slice(&(data_off as u32).to_be_bytes());
    let mut o = 0usize;
    for i in 0..=n {
        if g.long { b.extend_from_slice(&(o as u32).to_be_bytes()); } else { b.extend_from_slice(&((o / 2) as u16).to_be_bytes()); }
        if i < n { o += g.glyphs[i].len(); }
    }
    if g.swapped {
        for d in &g.glyphs { b.extend_from_slice(d); }
        b.extend_from_slice(&g.tuples);
    } else {
        b.extend_from_slice(&g.tuples);
        for d in &g.glyphs { b.extend_from_slice(d); }
    }
    b
}

/// independent reader of a gvar table (spec layout): None if anything is out of bounds / descending
fn gvar_read(b: &[u8]) -> Option<GvarSpec> {
    if b.len() < 20 { return None; }
    let u16at = |i: usize| u16::from_be_bytes([b[i], b[i + 1]]) as usize;
    let u32at = |i: usize| u32::from_be_bytes([b[i], b[i + 1], b[i + 2], b[i + 3]]) as usize;
    let axis = u16at(4);
    let count = u16at(6);
    let tuples_off = u32at(8);
    let n = u16at(12);
    let long = u16at(14) & 1 == 1;
    let data_off = u32at(16);
    let w = if long { 4 } else { 2 };
    if b.len() < 20 + (n + 1) * w { return None; }
    let offs: Vec<usize> = (0..=n).map(|i| if long { u32at(20 + 4 * i) } else { u16at(20 + 2 * i) * 2 }).collect();
    let tl = count * axis * 2;
    if tuples_off + tl > b.len() { return None; }
    let mut glyphs = vec![];
    for i in 0..n {
        if offs[i] > offs[i + 1] || data_off + offs[i + 1] > b.len() { return None; }
        glyphs.push(b[data_off + offs[i]..data_off + offs[i + 1]].to_vec());
    }
    Some(GvarSpec { long, axis: axis as u16, tuples: b[tuples_off..tuples_off + tl].to_vec(), glyphs, swapped: data_off < tuples_off })
}

const GLYF: u32 = 0x676c7966;
const LOCA: u32 = 0x6c6f6361;
const GVAR: u32 = 0x67766172;
const IFT_: u32 = 0x49465420;
const IFTX: u32 = 0x49465458;

/// first-wins replacement data for `table` over the patches in application order
fn first_wins(applied: &[(&Info, &GkPatch)], table: u32) -> BTreeMap<u32, Vec<u8>> {
    let mut repl: BTreeMap<u32, Vec<u8>> = BTreeMap::new();
    for (_, p) in applied {
        if let Some(ti) = p.spec.tables.iter().position(|t| *t == table) {
            for (gi, g) in p.spec.gids.iter().enumerate() {
                repl.entry(*g).or_insert_with(|| p.spec.data[ti][gi].clone());
            }
        }
    }
    repl
}

/// the property for gvar, evaluated on the real output bytes
fn gvar_oracles(s: &mut Session, base: &GvarSpec, out_bytes: &[u8], applied: &[(&Info, &GkPatch)], input: &dyn Fn() -> String) {
    let repl = first_wins(applied, GVAR);
    let Some(out) = gvar_read(out_bytes) else {
        s.oracle("gvar:output-readable", false, input, || "gvar reader failed (bounds / descending offsets)".into());
        return;
    };
    let n = base.glyphs.len();
    s.oracle("gvar:header-kept", out.axis == base.axis && out.tuples == base.tuples && out.glyphs.len() == n, input,
        || format!("axis {} vs {}, tuples {} vs {} bytes, glyphs {} vs {}", out.axis, base.axis, out.tuples.len(), base.tuples.len(), out.glyphs.len(), n));
    s.oracle("gvar:spec-order", !out.swapped || out.tuples.is_empty(), input, || "glyph data before shared tuples".into());
    // widening exactly when needed (sizes computed with the ORIGINAL offset type's padding)
    let pad0 = |l: usize| if base.long { l } else { l + l % 2 };
    let total: usize = (0..n).map(|g| match repl.get(&(g as u32)) { Some(d) => pad0(d.len()), None => base.glyphs[g].len() }).sum();
    let want_long = base.long || total > 0x1FFFE;
    s.count(if want_long && !base.long { "gvar:widened" } else if base.long { "gvar:long" } else { "gvar:short" });
    s.oracle("gvar:offset-width-widened-iff-needed", out.long == want_long, input, || format!("total {total}: out long {} want {}", out.long, want_long));
    if out.glyphs.len() != n { return; }
    for g in 0..n {
        match repl.get(&(g as u32)) {
            Some(d) => {
                let mut want = d.clone();
                if !out.long && want.len() % 2 == 1 { want.push(0); }
                s.oracle("gvar:listed-glyph-is-patch-data", out.glyphs[g] == want, input, || format!("gid {g}: got {} bytes want {}", out.glyphs[g].len(), want.len()));
            }
            None => s.oracle("gvar:other-glyph-unchanged", out.glyphs[g] == base.glyphs[g], input, || format!("gid {g}")),
        }
    }
    // nothing but header + offsets + tuples + data
    let w = if out.long { 4 } else { 2 };
    let dl: usize = out.glyphs.iter().map(|d| d.len()).sum();
    s.oracle("gvar:no-slack", out_bytes.len() == 20 + (n + 1) * w + out.tuples.len() + dl, input, || format!("len {}", out_bytes.len()));
}

fn gen_gvar(rng: &mut Rng, n: usize, big: bool) -> GvarSpec {
    let long = rng.chance(1, 3);
    let axis = rng.range(1, 2) as u16;
    let count = rng.below(3) as usize;
    let tl = count * axis as usize * 2;
    let tuples = rng.bytes(tl);
    let glyphs = (0..n).map(|_| { let l = glyph_len(rng, long, big); rng.bytes(l) }).collect();
    GvarSpec { long, axis, tuples, glyphs, swapped: rng.chance(1, 4) }
}

/// clean font: glyf/loca/head/maxp (+ gvar), one or two mapping tables
fn clean_font(rng: &mut Rng, n: usize, long: bool, big: bool, gvar: Option<&GvarSpec>, ift: Vec<u8>, iftx: Option<Vec<u8>>) -> GkFont {
    let glyphs: Vec<Vec<u8>> = (0..n).map(|_| { let l = glyph_len(rng, long, big); rng.bytes(l) }).collect();
    font_from_glyphs(rng, glyphs, long, gvar, ift, iftx)
}

fn font_from_glyphs(rng: &mut Rng, glyphs: Vec<Vec<u8>>, long: bool, gvar: Option<&GvarSpec>, ift: Vec<u8>, iftx: Option<Vec<u8>>) -> GkFont {
    let mut tables: BTreeMap<u32, Vec<u8>> = BTreeMap::new();
    let mut glyf = vec![];
    let mut offs = vec![0u32];
    for g in &glyphs {
        glyf.extend_from_slice(g);
        offs.push(glyf.len() as u32);
    }
    tables.insert(GLYF, glyf);
    tables.insert(LOCA, loca_bytes(&offs, long));
    tables.insert(HEAD, head_table(long, rng));
    tables.insert(tg(b"maxp"), maxp_table(glyphs.len() as u16));
    if let Some(g) = gvar { tables.insert(GVAR, gvar_bytes(g)); }
    tables.insert(IFT_, ift);
    if let Some(x) = iftx { tables.insert(IFTX, x); }
    if rng.chance(1, 2) { let l = rng.below(12) as usize; tables.insert(tg(b"tab1"), rng.bytes(l)); }
    GkFont { long, glyphs, tables, clean: true }
}

/// a clean patch over an explicit table list; data agree through the per-table pools
fn gen_group_patch(rng: &mut Rng, n_glyphs: usize, tables: Vec<u32>, pools: &mut HashMap<(u32, u32), Vec<u8>>, agree: bool, lens: &[usize]) -> GkSpec {
    let wide = rng.chance(1, 4);
    let k = rng.range(1, n_glyphs.min(6) as i64) as usize;
    let mut gids: Vec<u32> = (0..n_glyphs as u32).collect();
    rng.shuffle(&mut gids);
    gids.truncate(k);
    gids.sort();
    let mut data = vec![];
    for t in &tables {
        let mut per = vec![];
        for g in &gids {
            let l = *rng.pick(lens);
            let fresh = rng.bytes(l);
            per.push(if agree { pools.entry((*t, *g)).or_insert(fresh).clone() } else { fresh });
        }
        data.push(per);
    }
    GkSpec { wide, tables, gids, data }
}

fn mk_patch(spec: GkSpec, compat: &[u8; 16]) -> GkPatch {
    let payload = gk_payload(&spec);
    let bytes = gk_patch(b"ifgk", spec.wide, compat, payload.len() as u32, &payload);
    GkPatch { spec, bytes, clean: true }
}

fn all_tables_equal(a: &Tables, b: &Tables) -> Option<String> {
    if a.len() != b.len() { return Some(format!("{} vs {} tables", a.len(), b.len())); }
    for ((ta, da), (tb, db)) in a.iter().zip(b) {
        if ta != tb { return Some(format!("tag {} vs {}", hex(&ta.to_be_bytes()), hex(&tb.to_be_bytes()))); }
        if canon_head(*ta, da) != canon_head(*tb, db) { return Some(format!("table {} differs ({} vs {} bytes)", hex(&ta.to_be_bytes()), da.len(), db.len())); }
    }
    None
}

/// the font-level model covers every table set; the only exclusion is the stated gvar model assumption
/// (`glyphVariationDataArrayOffset <= table length`) when some patch names gvar
fn modelled(base: &Tables, patches: &[(&Info, &GkPatch)]) -> bool {
    if !patches.iter().any(|(_, p)| p.spec.tables.contains(&GVAR)) { return true; }
    match get(base, GVAR) {
        Some(g) if g.len() >= 20 => u32::from_be_bytes([g[16], g[17], g[18], g[19]]) as usize <= g.len(),
        _ => true,
    }
}

fn gk_resp(r: &Result<Result<Vec<u8>, PatchingError>, String>) -> String {
    match r {
        Err(p) => format!("panic {p}"),
        Ok(Err(e)) => format!("err {}", perr(e)),
        Ok(Ok(bytes)) => match tables_of(bytes) { Some(t) => format!("ok {}", tables_str(&t)), None => "ok unreadable".into() },
    }
}

/// correspondence for the modelled `Cff::TAG` / `Cff2::TAG` arms (`cffPatch` in Model/CffKeyed.lean):
/// the new table of a successful application, or the error when only that arm can have produced it
fn cff_case(s: &mut Session, base: &Tables, r: &Result<Result<Vec<u8>, PatchingError>, String>, pairs: &[(&Info, &GkPatch)]) {
    if pairs.iter().any(|(_, p)| !p.clean || p.bytes.len() < 29) { return; }
    let Some(maxp) = get(base, tg(b"maxp")) else { return };
    if maxp.len() < 6 { return; }
    let n = u16::from_be_bytes([maxp[4], maxp[5]]) as usize;
    if n == 0 { return; }
    for (tag, v2) in [(CFF_, false), (CFF2, true)] {
        if !pairs.iter().any(|(_, p)| p.spec.tables.contains(&tag)) { continue; }
        let mut req = format!("cff {} {} {} {} {}", v2 as u8, n - 1,
            get(base, IFT_).map(|g| hex(g)).unwrap_or("none".into()),
            get(base, tag).map(|g| hex(g)).unwrap_or("none".into()), pairs.len());
        for (_, p) in pairs {
            req.push_str(&format!(" {} {}", if p.spec.wide { 1 } else { 0 }, hex(&p.bytes[29..])));
        }
        // an error can be attributed to this arm only if it is the first (and only) arm that runs
        let only = pairs.iter().all(|(_, p)| p.spec.tables.iter().all(|t| *t == tag || ![GLYF, GVAR, CFF_, CFF2].contains(t)));
        let resp = match r {
            Ok(Ok(bytes)) => match tables_of(bytes).and_then(|t| get(&t, tag).cloned()) {
                Some(o) => format!("ok {}", digest(&o)),
                None => "ok missing".into(),
            },
            Ok(Err(e)) if only => format!("err {}", perr(e)),
            _ => continue,
        };
        s.case("cff_patch", req, resp);
    }
}

/// total gvar glyph data after applying `applied` to a font whose gvar is `cur` (None: gvar not named)
fn gvar_total_after(cur: Option<&Vec<u8>>, applied: &[(&Info, &GkPatch)]) -> Option<usize> {
    if !applied.iter().any(|(_, p)| p.spec.tables.contains(&GVAR)) { return None; }
    let g = gvar_read(cur?)?;
    let repl = first_wins(applied, GVAR);
    Some((0..g.glyphs.len()).map(|i| repl.get(&(i as u32)).map(|d| d.len()).unwrap_or(g.glyphs[i].len())).sum())
}


/// correspondence for the modelled `Gvar::TAG` arm (`gvarPatch` in Model/GvarKeyed.lean): the new
/// gvar table of a successful application, or the error when only gvar can have produced it
fn gvar_case(s: &mut Session, base: &Tables, r: &Result<Result<Vec<u8>, PatchingError>, String>, pairs: &[(&Info, &GkPatch)]) {
    if !pairs.iter().any(|(_, p)| p.spec.tables.contains(&GVAR)) { return; }
    if pairs.iter().any(|(_, p)| !p.clean || p.bytes.len() < 29) { return; }
    let Some(maxp) = get(base, tg(b"maxp")) else { return };
    if maxp.len() < 6 { return; }
    let n = u16::from_be_bytes([maxp[4], maxp[5]]) as usize;
    if n == 0 { return; }
    let gv = get(base, GVAR);
    if let Some(g) = gv {
        // model assumption: the data array offset lies inside the table
        if g.len() >= 20 && u32::from_be_bytes([g[16], g[17], g[18], g[19]]) as usize > g.len() { return; }
    }
    let mut req = format!("gvar {} {} {}", n - 1, gv.map(|g| hex(g)).unwrap_or("none".into()), pairs.len());
    for (_, p) in pairs {
        req.push_str(&format!(" {} {}", if p.spec.wide { 1 } else { 0 }, hex(&p.bytes[29..])));
    }
    let only_gvar = pairs.iter().all(|(_, p)| p.spec.tables.iter().all(|t| ![GLYF, CFF_, CFF2].contains(t)));
    let resp = match r {
        Ok(Ok(bytes)) => match tables_of(bytes).and_then(|t| get(&t, GVAR).cloned()) {
            Some(o) => format!("ok {}", digest(&o)),
            None => "ok missing".into(),
        },
        Ok(Err(e)) if only_gvar => format!("err {}", perr(e)),
        _ => return,
    };
    s.case("gvar_patch", req, resp);
}

/// apply the groups one after the other; Err(None): a step would leave gvar without any glyph data
/// (known finding, reported under its own oracle), Err(Some(msg)): a step failed
fn apply_seq(s: &mut Session, font: &[u8], groups: &[&[(&Info, &GkPatch)]], input: &dyn Fn() -> String) -> Result<Tables, Option<String>> {
    let mut cur = font.to_vec();
    for grp in groups {
        let cur_tables = tables_of(&cur).ok_or(Some("unreadable".to_string()))?;
        let empties = gvar_total_after(get(&cur_tables, GVAR), grp) == Some(0);
        let dec = Scripted::new(None);
        let r = apply_gk(&cur, grp, &dec);
        gvar_case(s, &cur_tables, &r, grp);
        cff_case(s, &cur_tables, &r, grp);
        if modelled(&cur_tables, grp) {
            s.case("glyph_keyed_seq", gk_req(&dec, grp, &cur_tables), gk_resp(&r));
        }
        if empties {
            s.count("group:gvar-all-empty-step");
            let detail = match &r { Ok(Ok(_)) => "ok".to_string(), Ok(Err(e)) => format!("err {}", perr(e)), Err(p) => format!("panic {p}") };
            s.oracle("gvar:patch-leaving-all-glyph-data-empty-applies", matches!(r, Ok(Ok(_))), input, || detail.clone());
            if !matches!(r, Ok(Ok(_))) { return Err(None); }
        }
        match r {
            Ok(Ok(b)) => {
                // hypothesis `hift` of the grouping theorems, checked on the real reader: the applied
                // bits never disturb the charstrings offsets recorded in `IFT `
                let offs = |f: &[u8]| FontRef::new(f).ok().and_then(|f| f.ift().ok()).map(|t| (t.cff_charstrings_offset(), t.cff2_charstrings_offset()));
                let (before, after) = (offs(&cur), offs(&b));
                s.oracle("gk:charstrings-offsets-in-IFT-untouched-by-applied-bits", before == after, input, || format!("{before:?} -> {after:?}"));
                cur = b
            }
            Ok(Err(e)) => return Err(Some(format!("err {}", perr(&e)))),
            Err(p) => return Err(Some(format!("panic {p}"))),
        }
    }
    tables_of(&cur).ok_or(Some("unreadable".to_string()))
}


/// how two table sets differ: not at all, only in the offset width chosen for gvar / CFF / CFF2
/// (same glyph data, modulo the one zero pad byte short gvar offsets force), or really
enum Diff { Same, WidthOnly(String), Real(String) }

fn explain_diff(want: &Tables, got: &Tables) -> Diff {
    if want.len() != got.len() { return Diff::Real(format!("{} vs {} tables", want.len(), got.len())); }
    let ift = get(want, IFT_);
    let cff_at = |v2: bool| -> Option<usize> {
        let d = ift?;
        let flags = *d.get(4)?;
        let ul = u16::from_be_bytes([*d.get(33)?, *d.get(34)?]) as usize;
        let mut p = 35 + ul;
        if !v2 { if flags & 1 == 0 { return None; } } else { if flags & 2 == 0 { return None; } if flags & 1 != 0 { p += 4; } }
        Some(u32::from_be_bytes(d.get(p..p + 4)?.try_into().ok()?) as usize)
    };
    let mut width_only: Vec<String> = vec![];
    for ((ta, da), (tb, db)) in want.iter().zip(got) {
        if ta != tb { return Diff::Real(format!("tag {} vs {}", hex(&ta.to_be_bytes()), hex(&tb.to_be_bytes()))); }
        if canon_head(*ta, da) == canon_head(*tb, db) { continue; }
        let t = hex(&ta.to_be_bytes());
        if *ta == CFF_ || *ta == CFF2 {
            let v2 = *ta == CFF2;
            let ok = match cff_at(v2).and_then(|at| Some((cff_read(da, at, v2)?, cff_read(db, at, v2)?))) {
                Some((a, b)) => a.prefix == b.prefix && a.glyphs == b.glyphs && a.off_size != b.off_size,
                None => false,
            };
            if ok { width_only.push(format!("{t}: offSize differs, charstrings identical")); continue; }
            return Diff::Real(format!("table {t} differs ({} vs {} bytes)", da.len(), db.len()));
        }
        if *ta == GVAR {
            let ok = match (gvar_read(da), gvar_read(db)) {
                // a pad byte can only stem from a state with short offsets: final flags differ, or both are
                // long and one route went through a short intermediate table (pad bytes written then are kept)
                (Some(a), Some(b)) => a.axis == b.axis && a.tuples == b.tuples && a.glyphs.len() == b.glyphs.len() && (a.long || b.long)
                    && a.glyphs.iter().zip(&b.glyphs).all(|(x, y)| x == y
                        || (x.len() == y.len() + 1 && x.len() % 2 == 0 && x[..y.len()] == y[..] && x[y.len()] == 0)
                        || (y.len() == x.len() + 1 && y.len() % 2 == 0 && y[..x.len()] == x[..] && y[x.len()] == 0)),
                _ => false,
            };
            if ok { width_only.push(format!("{t}: short/long offsets differ (now or in the intermediate table), glyph data identical up to the pad byte")); continue; }
            return Diff::Real(format!("table {t} differs ({} vs {} bytes)", da.len(), db.len()));
        }
        return Diff::Real(format!("table {t} differs ({} vs {} bytes)", da.len(), db.len()));
    }
    if width_only.is_empty() { Diff::Same } else { Diff::WidthOnly(width_only.join("; ")) }
}

/// the grouping / order oracle: identical tables; a difference that is only the offset width kept
/// from a larger intermediate font is reported under its own name (known finding)
fn same_tables_oracle(s: &mut Session, name: &str, r: Result<Tables, Option<String>>, want: &Tables, input: &dyn Fn() -> String, what: &str) {
    match r {
        Err(None) => {}
        Err(Some(e)) => s.oracle(name, false, input, || format!("{what}: {e}")),
        Ok(g) => match explain_diff(want, &g) {
            Diff::Same => s.oracle(name, true, input, String::new),
            Diff::Real(d) => s.oracle(name, false, input, || format!("{what}: {d}")),
            Diff::WidthOnly(d) => {
                s.count("grouping:offset-width-differs");
                s.oracle("grouping:offset-width-independent-of-intermediate-sizes", false, input, || format!("{what}: {d}"));
            }
        },
    }
}

/// Err(IncompatiblePatch) expected with zero decoder calls, whatever the order
fn expect_incompatible(s: &mut Session, font: &[u8], base: &Tables, pairs: &[(&Info, &GkPatch)], what: &str, case_no: usize) {
    for rev in [false, true] {
        let order: Vec<(&Info, &GkPatch)> = if rev { pairs.iter().rev().cloned().collect() } else { pairs.to_vec() };
        let dec = Scripted::new(None);
        let r = apply_gk(font, &order, &dec);
        let req = gk_req(&dec, &order, base);
        let input = || format!("group#{case_no} {what} reversed={rev}: {}", req.chars().take(2500).collect::<String>());
        let resp = match &r {
            Err(p) => format!("panic {p}"),
            Ok(Err(e)) => format!("err {}", perr(e)),
            Ok(Ok(bytes)) => match tables_of(bytes) { Some(t) => format!("ok {}", tables_str(&t)), None => "ok unreadable".into() },
        };
        if modelled(base, &order) {
            s.case("glyph_keyed_group", req.clone(), resp.clone());
        }
        s.oracle("group:foreign-compat-id-anywhere-is-IncompatiblePatch", matches!(r, Ok(Err(PatchingError::IncompatiblePatch))), input, || resp.clone());
        s.oracle("group:foreign-compat-id-before-any-decode", dec.n_calls() == 0, input, || format!("{} decoder calls", dec.n_calls()));
    }
}

fn run_gk_groups(s: &mut Session, rng: &mut Rng, n_cases: usize) {
    for case_no in 0..n_cases {
        let c1 = compat_id(rng);
        let mut c2 = compat_id(rng);
        c2[15] = c2[15].wrapping_add(7);
        let ents: Vec<MapEntry> = (0..6).map(|_| MapEntry { delta: 0, format: 3, ignored: false }).collect();
        let ents2: Vec<MapEntry> = (0..6).map(|i| MapEntry { delta: if i == 0 { 100 } else { 0 }, format: 3, ignored: false }).collect();
        let ift = ift_format2(&c1, rng.below(4) as usize, &ents);
        let iftx = if rng.chance(1, 2) { Some(ift_format2(&c2, rng.below(4) as usize, &ents2)) } else { None };
        let n = *rng.pick(&[2usize, 3, 5, 8, 13]);
        let long = rng.chance(1, 2);
        let gv = if rng.chance(2, 3) { Some(gen_gvar(rng, n, false)) } else { None };
        let f = clean_font(rng, n, long, false, gv.as_ref(), ift.clone(), iftx.clone());
        let font = build_font(&f.tables);
        let Some(base) = tables_of(&font) else { continue };
        let all_infos = infos_of(&font);
        // a group under ONE mapping table
        let use_iftx = iftx.is_some() && rng.chance(1, 3);
        let infos: Vec<&Info> = all_infos.iter().filter(|i| i.iftx == use_iftx).collect();
        if infos.len() < 2 { s.count("group:too-few-infos"); continue; }
        let n_p = rng.range(2, infos.len().min(4) as i64) as usize;
        let kind = rng.below(4);
        let agree = kind != 3;
        let mut pools: HashMap<(u32, u32), Vec<u8>> = HashMap::new();
        let mut patches: Vec<GkPatch> = vec![];
        let lens = [0usize, 1, 2, 3, 4, 5, 9, 16];
        for pi in 0..n_p {
            // different table sets inside one group
            let tabs: Vec<u32> = match (gv.is_some(), (pi + rng.below(3) as usize) % 3) {
                (true, 0) => vec![GLYF],
                (true, 1) => vec![GLYF, GVAR],
                (true, _) => vec![GVAR],
                (false, 0) => vec![GLYF],
                (false, 1) => vec![tg(b"aaaa"), GLYF],
                (false, _) => vec![GLYF, tg(b"zzzz")],
            };
            let spec = gen_group_patch(rng, n, tabs, &mut pools, agree, &lens);
            let compat: [u8; 16] = infos[pi].compat.clone().try_into().unwrap_or([0; 16]);
            patches.push(mk_patch(spec, &compat));
        }
        let pairs: Vec<(&Info, &GkPatch)> = (0..n_p).map(|pi| (infos[pi], &patches[pi])).collect();
        let sets: Vec<String> = pairs.iter().map(|(_, p)| p.spec.tables.iter().map(|t| String::from_utf8_lossy(&t.to_be_bytes()).trim().to_string()).collect::<Vec<_>>().join("+")).collect();
        let distinct_sets = { let mut v = sets.clone(); v.sort(); v.dedup(); v.len() };
        match kind {
            1 => {
                // a NON-first patch carries a foreign compat id in its header
                let k = rng.range(1, n_p as i64 - 1) as usize;
                let mut bad = patches.clone();
                let mut c: [u8; 16] = infos[k].compat.clone().try_into().unwrap_or([0; 16]);
                let bi = rng.below(16) as usize;
                c[bi] ^= 1 << rng.below(8);
                bad[k] = mk_patch(patches[k].spec.clone(), &c);
                let bad_pairs: Vec<(&Info, &GkPatch)> = (0..n_p).map(|pi| (infos[pi], &bad[pi])).collect();
                s.count("group:foreign-header-id-nonfirst");
                expect_incompatible(s, &font, &base, &bad_pairs, &format!("foreign header id in patch {k}"), case_no);
            }
            2 => {
                // a NON-first patch was selected under another font's mapping table (same uri/bit, other id)
                let k = rng.range(1, n_p as i64 - 1) as usize;
                let mut t = f.tables.clone();
                let mut other = if use_iftx { c2 } else { c1 };
                let bi = rng.below(16) as usize;
                other[bi] ^= 1 << rng.below(8);
                if use_iftx { t.insert(IFTX, ift_format2(&other, 0, &ents2)); } else { t.insert(IFT_, ift_format2(&other, 0, &ents)); }
                let sib = build_font(&t);
                let sib_infos = infos_of(&sib);
                let Some(foreign) = sib_infos.iter().find(|i| i.uri == infos[k].uri && i.iftx == use_iftx) else { s.count("group:no-sibling-info"); continue };
                // the patch itself carries the FONT's id: only the info is foreign
                let bad_pairs: Vec<(&Info, &GkPatch)> = (0..n_p).map(|pi| (if pi == k { foreign } else { infos[pi] }, &patches[pi])).collect();
                s.count("group:foreign-info-id-nonfirst");
                expect_incompatible(s, &font, &base, &bad_pairs, &format!("foreign info id for patch {k}"), case_no);
                // and the patch carrying the foreign id as well (consistent with its info, foreign to the font)
                let mut bad = patches.clone();
                bad[k] = mk_patch(patches[k].spec.clone(), &other);
                let bad_pairs: Vec<(&Info, &GkPatch)> = (0..n_p).map(|pi| (if pi == k { foreign } else { infos[pi] }, &bad[pi])).collect();
                expect_incompatible(s, &font, &base, &bad_pairs, &format!("foreign info+header id for patch {k}"), case_no);
            }
            _ => {
                // all orders / groupings, every table compared by bytes (gvar included)
                s.count(&format!("group:table-sets-{distinct_sets}-distinct"));
                let dec0 = Scripted::new(None);
                let req0 = gk_req(&dec0, &pairs, &base);
                let input0 = || format!("group#{case_no} sets {sets:?}: {}", req0.chars().take(3000).collect::<String>());
                let want = match apply_seq(s, &font, &[&pairs[..]], &input0) {
                    Ok(t) => t,
                    Err(None) => continue,
                    Err(Some(resp)) => {
                        if modelled(&base, &pairs) { s.case("glyph_keyed_group", req0.clone(), resp.clone()); }
                        s.oracle("group:clean-group-applies", false, input0, || resp.clone());
                        continue;
                    }
                };
                if modelled(&base, &pairs) {
                    s.case("glyph_keyed_group", req0.clone(), format!("ok {}", tables_str(&want)));
                }
                s.count("group:ok");
                // per-glyph statement (first wins in THIS order), also when the patches disagree
                gk_oracles_tables(s, &f, &base, &want, &pairs, &input0);
                if let (Some(g), Some(o)) = (&gv, get(&want, GVAR)) {
                    if pairs.iter().any(|(_, p)| p.spec.tables.contains(&GVAR)) {
                        s.count("group:gvar-patched");
                        gvar_oracles(s, g, o, &pairs, &input0);
                    } else {
                        s.oracle("gk:untouched-table-identical", Some(o) == get(&base, GVAR), input0, || "gvar".into());
                    }
                }
                if !agree { s.count("group:disagreeing"); continue; }
                // every rotation + one random permutation + the reverse
                let mut orders: Vec<Vec<usize>> = (1..n_p).map(|r| (0..n_p).map(|i| (i + r) % n_p).collect()).collect();
                let mut perm: Vec<usize> = (0..n_p).collect();
                rng.shuffle(&mut perm);
                orders.push(perm);
                orders.push((0..n_p).rev().collect());
                for ord in &orders {
                    let o: Vec<(&Info, &GkPatch)> = ord.iter().map(|&i| pairs[i]).collect();
                    let input = || format!("group#{case_no} sets {sets:?} order {ord:?}: {}", req0.chars().take(3000).collect::<String>());
                    let r = apply_seq(s, &font, &[&o[..]], &input);
                    same_tables_oracle(s, "group:any-order-identical-tables", r, &want, &input, "one call");
                    // every sequential two-way split of this order
                    for cut in 1..n_p {
                        let r = apply_seq(s, &font, &[&o[..cut], &o[cut..]], &input);
                        same_tables_oracle(s, "group:any-grouping-identical-tables", r, &want, &input, &format!("split at {cut}"));
                    }
                }
                // one by one
                let singles: Vec<&[(&Info, &GkPatch)]> = pairs.iter().map(std::slice::from_ref).collect();
                let r = apply_seq(s, &font, &singles, &input0);
                same_tables_oracle(s, "group:one-by-one-identical-tables", r, &want, &input0, "one by one");
            }
        }
    }
}

/// `gk_oracles` for a font that may carry gvar: glyf part only when some patch names glyf
fn gk_oracles_tables(s: &mut Session, f: &GkFont, base: &Tables, out: &Tables, applied: &[(&Info, &GkPatch)], input: &dyn Fn() -> String) {
    if applied.iter().any(|(_, p)| p.spec.tables.contains(&GLYF)) {
        gk_oracles(s, f, base, out, applied, input);
    } else {
        for tag in [GLYF, LOCA] {
            s.oracle("gk:untouched-table-identical", get(out, tag) == get(base, tag), input, || format!("table {}", hex(&tag.to_be_bytes())));
        }
        for tag in [IFT_, IFTX] {
            let Some(old) = get(base, tag) else { continue };
            let mut want = old.clone();
            for (i, _) in applied {
                if (if i.iftx { IFTX } else { IFT_ }) == tag { want[i.bit / 8] |= 1 << (i.bit % 8); }
            }
            s.oracle("gk:only-the-patches-applied-bits-set", get(out, tag) == Some(&want), input, || format!("table {}", hex(&tag.to_be_bytes())));
        }
    }
}

/// totals exactly at the short-offset limit 0x1FFFE (= 65535 * 2)
fn run_boundary(s: &mut Session, rng: &mut Rng) {
    let c1 = compat_id(rng);
    let ents: Vec<MapEntry> = (0..3).map(|_| MapEntry { delta: 0, format: 3, ignored: false }).collect();
    let ift = ift_format2(&c1, 0, &ents);
    // widening a gvar whose OLD data is smaller than the growth of the offset array
    // (many glyphs, nearly no data: the typical initial IFT font)
    for n in [3usize, 40, 300] {
        let mut gl: Vec<Vec<u8>> = (0..n).map(|_| vec![]).collect();
        gl[0] = rng.bytes(4);
        let glyphs: Vec<Vec<u8>> = (0..n).map(|_| rng.bytes(2)).collect();
        let gv = GvarSpec { long: false, axis: 1, tuples: rng.bytes(2), glyphs: gl, swapped: false };
        let f = font_from_glyphs(rng, glyphs, false, Some(&gv), ift.clone(), None);
        let font = build_font(&f.tables);
        let infos = infos_of(&font);
        let Some(info) = infos.first() else { continue };
        let patch = mk_patch(GkSpec { wide: false, tables: vec![GVAR], gids: vec![1], data: vec![vec![rng.bytes(0x20000)]] }, &c1);
        let pairs = vec![(info, &patch)];
        let input = || format!("boundary#gvar-widen-sparse n={n}: short gvar with {n} glyphs and 4 bytes of data, patch gid1 := 0x20000 bytes");
        match apply_seq(s, &font, &[&pairs[..]], &input) {
            Ok(out) => {
                s.count("boundary:gvar-sparse-widened");
                if let Some(o) = get(&out, GVAR) { gvar_oracles(s, &gv, o, &pairs, &input); }
            }
            Err(e) => s.oracle("boundary:gvar-sparse-widening-applies", false, input, || format!("{e:?}")),
        }
    }
    // fixed demonstration of the known finding C18-gvar-all-glyph-data-empty:
    // A empties the only glyph that has gvar data, B adds data for another glyph
    for long in [false, true] {
        let glyphs = vec![rng.bytes(4), rng.bytes(2), rng.bytes(6)];
        let gv = GvarSpec { long, axis: 1, tuples: rng.bytes(2), glyphs: vec![vec![], vec![], rng.bytes(8)], swapped: false };
        let f = font_from_glyphs(rng, glyphs, long, Some(&gv), ift.clone(), None);
        let font = build_font(&f.tables);
        let infos = infos_of(&font);
        if infos.len() < 2 { continue; }
        let a = mk_patch(GkSpec { wide: false, tables: vec![GVAR], gids: vec![2], data: vec![vec![vec![]]] }, &c1);
        let b = mk_patch(GkSpec { wide: false, tables: vec![GVAR], gids: vec![0], data: vec![vec![vec![1, 2]]] }, &c1);
        let pa = (&infos[0], &a);
        let pb = (&infos[1], &b);
        let input = || format!("boundary#gvar-empty long={long}: A = gvar gid2 := empty, B = gvar gid0 := 0102, base gvar data only for gid2");
        let both = apply_seq(s, &font, &[&[pa, pb][..]], &input);
        s.oracle("boundary:gvar-A+B-in-one-call-applies", both.is_ok(), input, || format!("{:?}", both.as_ref().err()));
        let b_then_a = apply_seq(s, &font, &[&[pb][..], &[pa][..]], &input);
        s.oracle("boundary:gvar-B-then-A-equals-A+B", match (&both, &b_then_a) { (Ok(x), Ok(y)) => all_tables_equal(x, y).is_none(), _ => false }, input, || "differs / failed".into());
        // A then B: A alone leaves gvar without data (reported under the known finding's oracle)
        if let Ok(t) = apply_seq(s, &font, &[&[pa][..], &[pb][..]], &input) {
            s.oracle("boundary:gvar-A-then-B-equals-A+B", both.as_ref().map(|x| all_tables_equal(x, &t).is_none()).unwrap_or(false), input, || "differs".into());
        }
    }
    // fixed demonstration of the pad-byte variant of C18-offset-width-history-dependent: A writes odd-length
    // data while the table still has short offsets (padded to even), B then forces long offsets; in one call
    // the table is long from the start and nothing is padded.  Both final tables carry the long flag.
    {
        let glyphs = vec![rng.bytes(4), rng.bytes(2), rng.bytes(6)];
        let gv = GvarSpec { long: false, axis: 1, tuples: rng.bytes(2), glyphs: vec![rng.bytes(2), rng.bytes(2), rng.bytes(2)], swapped: false };
        let f = font_from_glyphs(rng, glyphs, false, Some(&gv), ift.clone(), None);
        let font = build_font(&f.tables);
        let infos = infos_of(&font);
        if infos.len() >= 2 {
            let a = mk_patch(GkSpec { wide: false, tables: vec![GVAR], gids: vec![0], data: vec![vec![vec![7, 7, 7]]] }, &c1);
            let b = mk_patch(GkSpec { wide: false, tables: vec![GVAR], gids: vec![1], data: vec![vec![rng.bytes(0x20000)]] }, &c1);
            let pa = (&infos[0], &a);
            let pb = (&infos[1], &b);
            let input = || "boundary#gvar-pad-history: short gvar, A = gid0 := 070707, B = gid1 := 0x20000 bytes".to_string();
            if let Ok(want) = apply_seq(s, &font, &[&[pa, pb][..]], &input) {
                let r = apply_seq(s, &font, &[&[pa][..], &[pb][..]], &input);
                same_tables_oracle(s, "boundary:gvar-A-then-B-equals-A+B", r, &want, &input, "A then B");
                let r = apply_seq(s, &font, &[&[pb][..], &[pa][..]], &input);
                same_tables_oracle(s, "boundary:gvar-B-then-A-equals-A+B", r, &want, &input, "B then A");
            } else {
                s.oracle("boundary:gvar-A+B-in-one-call-applies", false, input, || "failed".into());
            }
        }
    }
    for (case_no, total) in [0x1FFFCusize, 0x1FFFE, 0x20000, 0x20002].into_iter().enumerate() {
        for odd in [false, true] {
            for table in [GLYF, GVAR] {
                // glyph 0: 10 bytes kept, glyph 1 replaced, glyph 2: 6 bytes kept
                let padded = total - 16;
                let l = if odd { padded - 1 } else { padded };
                let glyphs = vec![rng.bytes(10), rng.bytes(4), rng.bytes(6)];
                let gv = GvarSpec { long: false, axis: 1, tuples: rng.bytes(2), glyphs: glyphs.clone(), swapped: false };
                let f = font_from_glyphs(rng, glyphs.clone(), false, Some(&gv), ift.clone(), None);
                let font = build_font(&f.tables);
                let Some(base) = tables_of(&font) else { continue };
                let infos = infos_of(&font);
                let Some(info) = infos.first() else { continue };
                let spec = GkSpec { wide: false, tables: vec![table], gids: vec![1], data: vec![vec![rng.bytes(l)]] };
                let patch = mk_patch(spec, &c1);
                let pairs = vec![(info, &patch)];
                let dec = Scripted::new(None);
                let r = apply_gk(&font, &pairs, &dec);
                let input = || format!("boundary#{case_no} table {} total {total:#x} odd {odd}", hex(&table.to_be_bytes()));
                let resp = match &r {
                    Err(p) => format!("panic {p}"),
                    Ok(Err(e)) => format!("err {}", perr(e)),
                    Ok(Ok(bytes)) => match tables_of(bytes) { Some(t) => format!("ok {}", tables_str(&t)), None => "ok unreadable".into() },
                };
                if table == GLYF {
                    s.case("glyph_keyed_boundary", gk_req(&dec, &pairs, &base), resp.clone());
                }
                let fits = total <= 0x1FFFE;
                match (&r, table) {
                    (Ok(Ok(bytes)), GLYF) => {
                        s.count("boundary:glyf-ok");
                        s.oracle("boundary:short-loca-beyond-0x1FFFE-is-error", fits, input, || resp.clone());
                        if let Some(out) = tables_of(bytes) { gk_oracles(s, &f, &base, &out, &pairs, &input); }
                    }
                    (Ok(Err(e)), GLYF) => {
                        s.count("boundary:glyf-err");
                        s.oracle("boundary:short-loca-up-to-0x1FFFE-fits", !fits, input, || resp.clone());
                        s.oracle("boundary:glyf-overflow-is-offset-overflow-error", perr(e) == "SerializationError(2)", input, || resp.clone());
                    }
                    (Ok(Ok(bytes)), _) => {
                        s.count("boundary:gvar-ok");
                        if let Some(out) = tables_of(bytes) {
                            if let Some(o) = get(&out, GVAR) { gvar_oracles(s, &gv, o, &pairs, &input); }
                            for tag in [GLYF, LOCA] {
                                s.oracle("gk:untouched-table-identical", get(&out, tag) == get(&base, tag), input, || format!("table {}", hex(&tag.to_be_bytes())));
                            }
                        }
                    }
                    _ => s.oracle("boundary:gvar-applies-with-widening", false, input, || resp.clone()),
                }
            }
        }
    }
}


// ------------------------------------------------------------------------------------------
// CFF / CFF2 (independent INDEX reader for the oracles; model: `cff` and `gk` requests)
// ------------------------------------------------------------------------------------------

const CFF_: u32 = 0x43464620;
const CFF2: u32 = 0x43464632;

#[derive(Clone, Debug)]
struct CffSpec {
    v2: bool,
    off_size: u8,
    /// everything before the charstrings INDEX (header, the other INDEXes, filler)
    prefix: Vec<u8>,
    glyphs: Vec<Vec<u8>>,
}

fn be_n(v: usize, w: usize) -> Vec<u8> {
    (v as u32).to_be_bytes()[4 - w..].to_vec()
}

fn cff_prefix(rng: &mut Rng, v2: bool) -> Vec<u8> {
    let mut b = vec![];
    if v2 {
        let tl = rng.below(6) as usize;
        let top = rng.bytes(tl);
        b.extend_from_slice(&[2, 0, 5]);
        b.extend_from_slice(&(top.len() as u16).to_be_bytes());
        b.extend_from_slice(&top);
        b.extend_from_slice(&[0, 0, 0, 1, 1, 1, 2, rng.next() as u8]); // global subrs INDEX (1 object)
    } else {
        b.extend_from_slice(&[1, 0, 4, 1]);
        for _ in 0..4 {
            b.extend_from_slice(&[0, 1, 1, 1, 2, rng.next() as u8]); // name / top dict / string / gsubr INDEX
        }
    }
    let fl = rng.below(9) as usize;
    b.extend_from_slice(&rng.bytes(fl)); // charsets, private dicts, ... (opaque)
    b
}

fn cff_bytes(c: &CffSpec) -> Vec<u8> {
    let mut b = c.prefix.clone();
    let n = c.glyphs.len();
    if c.v2 { b.extend_from_slice(&(n as u32).to_be_bytes()); } else { b.extend_from_slice(&(n as u16).to_be_bytes()); }
    b.push(c.off_size);
    let mut o = 1usize;
    for i in 0..=n {
        b.extend_from_slice(&be_n(o, c.off_size as usize));
        if i < n { o += c.glyphs[i].len(); }
    }
    for g in &c.glyphs { b.extend_from_slice(g); }
    b
}

/// independent reader: the charstrings INDEX at `at` must run to the end of the table
fn cff_read(b: &[u8], at: usize, v2: bool) -> Option<CffSpec> {
    let cw = if v2 { 4 } else { 2 };
    if b.len() < at + cw + 1 { return None; }
    let n = if v2 { u32::from_be_bytes(b[at..at + 4].try_into().ok()?) as usize } else { u16::from_be_bytes(b[at..at + 2].try_into().ok()?) as usize };
    let w = b[at + cw] as usize;
    if !(1..=4).contains(&w) { return None; }
    let ob = at + cw + 1;
    if b.len() < ob + (n + 1) * w { return None; }
    let offs: Vec<usize> = (0..=n).map(|i| b[ob + i * w..ob + (i + 1) * w].iter().fold(0usize, |a, x| a * 256 + *x as usize)).collect();
    let db = ob + (n + 1) * w;
    if offs[0] != 1 { return None; }
    let mut glyphs = vec![];
    for i in 0..n {
        if offs[i] > offs[i + 1] || db + offs[i + 1] - 1 > b.len() { return None; }
        glyphs.push(b[db + offs[i] - 1..db + offs[i + 1] - 1].to_vec());
    }
    if db + offs[n] - 1 != b.len() { return None; }
    Some(CffSpec { v2, off_size: w as u8, prefix: b[..at].to_vec(), glyphs })
}

fn cff_max(off_size: u8) -> usize {
    (1usize << (8 * off_size as usize)) - 2
}

fn cff_oracles(s: &mut Session, base: &CffSpec, out_bytes: &[u8], applied: &[(&Info, &GkPatch)], input: &dyn Fn() -> String) {
    let tag = if base.v2 { CFF2 } else { CFF_ };
    let name = if base.v2 { "cff2" } else { "cff" };
    let repl = first_wins(applied, tag);
    let Some(out) = cff_read(out_bytes, base.prefix.len(), base.v2) else {
        s.oracle(&format!("{name}:output-readable"), false, input, || "charstrings INDEX not readable at the recorded offset / does not end the table".into());
        return;
    };
    let n = base.glyphs.len();
    s.oracle(&format!("{name}:everything-before-charstrings-identical"), out.prefix == base.prefix, input, || "prefix differs".into());
    s.oracle(&format!("{name}:glyph-count-kept"), out.glyphs.len() == n, input, || format!("{} vs {n}", out.glyphs.len()));
    let total: usize = (0..n).map(|g| repl.get(&(g as u32)).map(|d| d.len()).unwrap_or(base.glyphs[g].len())).sum();
    let want = if total > cff_max(base.off_size) { (1..=4u8).find(|w| cff_max(*w) >= total).unwrap_or(4) } else { base.off_size };
    s.count(&format!("{name}:offsize-{}-to-{}", base.off_size, want));
    s.oracle(&format!("{name}:offset-size-widened-iff-needed"), out.off_size == want, input, || format!("total {total}: offSize {} want {want}", out.off_size));
    if out.glyphs.len() != n { return; }
    for g in 0..n {
        match repl.get(&(g as u32)) {
            Some(d) => s.oracle(&format!("{name}:listed-glyph-is-patch-data"), &out.glyphs[g] == d, input, || format!("gid {g}: got {} bytes want {}", out.glyphs[g].len(), d.len())),
            None => s.oracle(&format!("{name}:other-glyph-unchanged"), out.glyphs[g] == base.glyphs[g], input, || format!("gid {g}")),
        }
    }
}

fn run_cff_groups(s: &mut Session, rng: &mut Rng, n_cases: usize) {
    for case_no in 0..n_cases {
        let c1 = compat_id(rng);
        let ents: Vec<MapEntry> = (0..6).map(|_| MapEntry { delta: 0, format: 3, ignored: false }).collect();
        let n = *rng.pick(&[1usize, 2, 3, 5, 8]);
        // sizes chosen so that totals cross the 254 / 65534 limits of offSize 1 / 2
        let size_class = rng.below(4);
        let glen = |rng: &mut Rng| -> usize {
            match size_class {
                0 => *rng.pick(&[0usize, 1, 2, 3, 5, 9]),
                1 => *rng.pick(&[0usize, 10, 40, 60, 100, 126, 127, 128]),
                2 => *rng.pick(&[0usize, 1, 100, 250, 253, 254, 255]),
                _ => *rng.pick(&[0usize, 5, 9000, 30000, 32767, 32768]),
            }
        };
        let mk = |rng: &mut Rng, v2: bool| -> CffSpec {
            let glyphs: Vec<Vec<u8>> = (0..n).map(|_| { let l = glen(rng); rng.bytes(l) }).collect();
            let total: usize = glyphs.iter().map(|g| g.len()).sum();
            let min = (1..=4u8).find(|w| cff_max(*w) >= total).unwrap();
            let off_size = if rng.chance(1, 4) { (min + rng.below(2) as u8).min(4) } else { min };
            CffSpec { v2, off_size, prefix: cff_prefix(rng, v2), glyphs }
        };
        let has1 = rng.chance(3, 4);
        let has2 = !has1 || rng.chance(1, 2);
        let cff = if has1 { Some(mk(rng, false)) } else { None };
        let cff2 = if has2 { Some(mk(rng, true)) } else { None };
        let ift = ift_format2_ext(&c1, rng.below(3) as usize, &ents, cff.as_ref().map(|c| c.prefix.len() as u32), cff2.as_ref().map(|c| c.prefix.len() as u32));
        let mut tables: BTreeMap<u32, Vec<u8>> = BTreeMap::new();
        tables.insert(HEAD, head_table(false, rng));
        tables.insert(tg(b"maxp"), maxp_table(n as u16));
        if let Some(c) = &cff { tables.insert(CFF_, cff_bytes(c)); }
        if let Some(c) = &cff2 { tables.insert(CFF2, cff_bytes(c)); }
        tables.insert(IFT_, ift);
        // half of the fonts also carry gvar, so that one patch can name CFF / CFF2 AND gvar
        let gv = if rng.chance(1, 2) { Some(gen_gvar(rng, n, false)) } else { None };
        if let Some(g) = &gv { tables.insert(GVAR, gvar_bytes(g)); }
        if rng.chance(1, 2) { let l = rng.below(12) as usize; tables.insert(tg(b"tab1"), rng.bytes(l)); }
        let font = build_font(&tables);
        let Some(base) = tables_of(&font) else { continue };
        let infos = infos_of(&font);
        if infos.len() < 2 { s.count("cffgroup:too-few-infos"); continue; }
        let n_p = rng.range(1, infos.len().min(3) as i64) as usize;
        let agree = rng.chance(3, 4);
        let mut pools: HashMap<(u32, u32), Vec<u8>> = HashMap::new();
        let lens: Vec<usize> = (0..6).map(|_| glen(rng)).collect();
        let mut patches: Vec<GkPatch> = vec![];
        for _ in 0..n_p {
            let tabs: Vec<u32> = match (has1, has2, rng.below(3)) {
                (true, true, 0) => vec![CFF_],
                (true, true, 1) => vec![CFF_, CFF2],
                (true, true, _) => vec![CFF2],
                (true, false, 0) => vec![tg(b"AAAA"), CFF_],
                (true, false, _) => vec![CFF_],
                (_, _, 0) => vec![CFF2, tg(b"zzzz")],
                _ => vec![CFF2],
            };
            let mut tabs = tabs;
            if gv.is_some() && rng.chance(1, 2) { tabs.push(GVAR); tabs.sort(); }
            let spec = gen_group_patch(rng, n, tabs, &mut pools, agree, &lens);
            patches.push(mk_patch(spec, &c1));
        }
        let pairs: Vec<(&Info, &GkPatch)> = (0..n_p).map(|pi| (&infos[pi], &patches[pi])).collect();
        let sets: Vec<String> = pairs.iter().map(|(_, p)| p.spec.tables.iter().map(|t| String::from_utf8_lossy(&t.to_be_bytes()).trim().to_string()).collect::<Vec<_>>().join("+")).collect();
        let input0 = || format!("cffgroup#{case_no} sets {sets:?} class {size_class}: gk n {} {} | {}", n_p,
            pairs.iter().map(|(i, p)| format!("{} {}", i.req(), hex(&p.bytes))).collect::<Vec<_>>().join(" ").chars().take(1500).collect::<String>(),
            font_req(&base).chars().take(1500).collect::<String>());
        let want = match apply_seq(s, &font, &[&pairs[..]], &input0) {
            Ok(t) => t,
            Err(None) => continue,
            Err(Some(resp)) => { s.oracle("cffgroup:clean-group-applies", false, input0, || resp.clone()); continue; }
        };
        s.count("cffgroup:ok");
        for (spec, tag) in [(&cff, CFF_), (&cff2, CFF2)] {
            let Some(c) = spec else { continue };
            let Some(o) = get(&want, tag) else { s.oracle("cffgroup:table-kept", false, input0, || hex(&tag.to_be_bytes())); continue };
            if pairs.iter().any(|(_, p)| p.spec.tables.contains(&tag)) {
                cff_oracles(s, c, o, &pairs, &input0);
            } else {
                s.oracle("gk:untouched-table-identical", Some(o) == get(&base, tag), input0, || hex(&tag.to_be_bytes()));
            }
        }
        if let (Some(g), Some(o)) = (&gv, get(&want, GVAR)) {
            if pairs.iter().any(|(_, p)| p.spec.tables.contains(&GVAR)) {
                s.count("cffgroup:gvar-patched-too");
                gvar_oracles(s, g, o, &pairs, &input0);
            }
        }
        for (tag, d) in &base {
            if [IFT_, CFF_, CFF2].contains(tag) { continue; }
            if *tag == GVAR && pairs.iter().any(|(_, p)| p.spec.tables.contains(&GVAR)) { continue; }
            let same = get(&want, *tag).map(|o| canon_head(*tag, o) == canon_head(*tag, d)).unwrap_or(false);
            s.oracle("gk:untouched-table-identical", same, input0, || format!("table {}", hex(&tag.to_be_bytes())));
        }
        {
            let old = get(&base, IFT_).unwrap();
            let mut w = old.clone();
            for (i, _) in &pairs { w[i.bit / 8] |= 1 << (i.bit % 8); }
            s.oracle("gk:only-the-patches-applied-bits-set", get(&want, IFT_) == Some(&w), input0, || "IFT".into());
        }
        if !agree || n_p < 2 { continue; }
        let mut orders: Vec<Vec<usize>> = (1..n_p).map(|r| (0..n_p).map(|i| (i + r) % n_p).collect()).collect();
        orders.push((0..n_p).rev().collect());
        for ord in &orders {
            let o: Vec<(&Info, &GkPatch)> = ord.iter().map(|&i| pairs[i]).collect();
            let input = || format!("order {ord:?} of {}", input0());
            let r = apply_seq(s, &font, &[&o[..]], &input);
            same_tables_oracle(s, "cffgroup:any-order-identical-tables", r, &want, &input, "one call");
            for cut in 1..n_p {
                let r = apply_seq(s, &font, &[&o[..cut], &o[cut..]], &input);
                same_tables_oracle(s, "cffgroup:any-grouping-identical-tables", r, &want, &input, &format!("split at {cut}"));
            }
        }
    }
}


/// hostile gvar / CFF / CFF2 tables (and charstrings offsets): totality — Err or a readable font whose
/// unnamed tables are untouched, never a panic (strict profile: overflow checks on)
fn run_hostile(s: &mut Session, rng: &mut Rng, n_cases: usize) {
    for case_no in 0..n_cases {
        let c1 = compat_id(rng);
        let ents: Vec<MapEntry> = (0..4).map(|_| MapEntry { delta: 0, format: 3, ignored: false }).collect();
        let n = *rng.pick(&[1usize, 2, 3, 5, 8]);
        let gl = |rng: &mut Rng| -> Vec<Vec<u8>> { (0..n).map(|_| { let l = *rng.pick(&[0usize, 2, 4, 6, 10]); rng.bytes(l) }).collect() };
        let gv = GvarSpec { long: rng.chance(1, 2), axis: rng.range(0, 2) as u16, tuples: vec![], glyphs: gl(rng), swapped: rng.chance(1, 3) };
        let tcount = rng.below(3) as usize;
        let gv = GvarSpec { tuples: rng.bytes(2 * gv.axis as usize * tcount), ..gv };
        let mk = |rng: &mut Rng, v2: bool| CffSpec { v2, off_size: rng.range(1, 4) as u8, prefix: cff_prefix(rng, v2), glyphs: gl(rng) };
        let cff = mk(rng, false);
        let cff2 = mk(rng, true);
        let mut at1 = cff.prefix.len() as u32;
        let mut at2 = cff2.prefix.len() as u32;
        let target = rng.below(6);
        if target == 3 { at1 = match rng.below(4) { 0 => 0, 1 => u32::MAX, 2 => at1 + rng.range(1, 6) as u32, _ => at1.saturating_sub(rng.range(1, 6) as u32) }; }
        if target == 4 { at2 = match rng.below(4) { 0 => 0, 1 => u32::MAX - rng.below(4) as u32, 2 => at2 + rng.range(1, 6) as u32, _ => at2.saturating_sub(rng.range(1, 6) as u32) }; }
        let mut tables: BTreeMap<u32, Vec<u8>> = BTreeMap::new();
        tables.insert(HEAD, head_table(false, rng));
        let maxp_n = if target == 5 { (n as i64 + rng.range(-1, 2)).max(0) as u16 } else { n as u16 };
        tables.insert(tg(b"maxp"), maxp_table(maxp_n));
        let mut corrupt = |rng: &mut Rng, mut b: Vec<u8>| -> Vec<u8> {
            match rng.below(4) {
                0 => { let k = rng.below(b.len() as u64 + 1) as usize; b.truncate(k); }
                1 => { for _ in 0..rng.range(1, 3) { if !b.is_empty() { let i = rng.below(b.len() as u64) as usize; b[i] = *rng.pick(&[0u8, 1, 2, 4, 0x7f, 0x80, 0xff]); } } }
                2 => { if b.len() > 20 { let i = rng.below(20) as usize; b[i] ^= 1 << rng.below(8); } }
                _ => { let e = rng.below(6) as usize; b.extend_from_slice(&rng.bytes(e)); }
            }
            b
        };
        let g_bytes = if target == 0 { corrupt(rng, gvar_bytes(&gv)) } else { gvar_bytes(&gv) };
        let c_bytes = if target == 1 { corrupt(rng, cff_bytes(&cff)) } else { cff_bytes(&cff) };
        let c2_bytes = if target == 2 { corrupt(rng, cff_bytes(&cff2)) } else { cff_bytes(&cff2) };
        tables.insert(GVAR, g_bytes);
        tables.insert(CFF_, c_bytes);
        tables.insert(CFF2, c2_bytes);
        tables.insert(IFT_, ift_format2_ext(&c1, 0, &ents, Some(at1), Some(at2)));
        let font = build_font(&tables);
        let Some(base) = tables_of(&font) else { continue };
        let infos = infos_of(&font);
        if infos.is_empty() { continue; }
        let mut pools: HashMap<(u32, u32), Vec<u8>> = HashMap::new();
        let tabs: Vec<u32> = match target { 0 => vec![GVAR], 1 | 3 => vec![CFF_], 2 | 4 => vec![CFF2], _ => vec![CFF_, CFF2, GVAR] };
        let spec = gen_group_patch(rng, n, tabs.clone(), &mut pools, true, &[0, 1, 2, 5, 300]);
        let patch = mk_patch(spec, &c1);
        let pairs = vec![(&infos[0], &patch)];
        let dec = Scripted::new(None);
        let r = apply_gk(&font, &pairs, &dec);
        if target == 0 { gvar_case(s, &base, &r, &pairs); }
        cff_case(s, &base, &r, &pairs);
        if modelled(&base, &pairs) {
            s.case("glyph_keyed_hostile", gk_req(&dec, &pairs, &base), gk_resp(&r));
        }
        let input = || format!("hostile#{case_no} target {target}: gk n 1 {} {} | {}", infos[0].req(), hex(&patch.bytes).chars().take(600).collect::<String>(), font_req(&base).chars().take(1800).collect::<String>());
        match &r {
            Err(p) => s.oracle("hostile:no-panic", false, input, || p.clone()),
            Ok(Err(e)) => { s.oracle("hostile:no-panic", true, input, String::new); s.count(&format!("hostile:err:{}", perr(e).chars().take(44).collect::<String>())); }
            Ok(Ok(bytes)) => {
                s.oracle("hostile:no-panic", true, input, String::new);
                s.count("hostile:ok");
                match tables_of(bytes) {
                    None => s.oracle("hostile:output-readable", false, input, || "FontRef::new failed".into()),
                    Some(out) => for (tag, d) in &base {
                        if *tag == IFT_ || tabs.contains(tag) { continue; }
                        let same = get(&out, *tag).map(|o| canon_head(*tag, o) == canon_head(*tag, d)).unwrap_or(false);
                        s.oracle("gk:untouched-table-identical", same, input, || format!("table {}", hex(&tag.to_be_bytes())));
                    },
                }
            }
        }
    }
}

/// format-1 `IFT ` table (layout of font-test-data `simple_format1_with_one_charstrings_offset`): no glyph is
/// mapped (first mapped glyph = glyph count), so it contributes no PatchInfos; it only carries the optional
/// charstrings offsets.  `flags` is written as is (may disagree with the fields present).
fn ift_format1(compat: &[u8; 16], n_glyphs: u32, max_entry: u16, uri_len: usize, flags: u8, fields: &[u32]) -> Vec<u8> {
    let mut b: Vec<u8> = vec![1, 0, 0, 0, flags];
    b.extend_from_slice(compat);
    b.extend_from_slice(&max_entry.to_be_bytes());
    b.extend_from_slice(&0u16.to_be_bytes());
    b.extend_from_slice(&n_glyphs.to_be_bytes()[1..]);
    let bl = (max_entry as usize + 8) / 8;
    let map_off = (36 + bl + 2 + uri_len + 1 + 4 * fields.len()) as u32;
    b.extend_from_slice(&map_off.to_be_bytes());
    b.extend_from_slice(&0u32.to_be_bytes());
    b.extend(std::iter::repeat(0u8).take(bl));
    b.extend_from_slice(&(uri_len as u16).to_be_bytes());
    b.extend(std::iter::repeat(b'a').take(uri_len));
    b.push(3);
    for f in fields { b.extend_from_slice(&f.to_be_bytes()); }
    b.extend_from_slice(&(n_glyphs as u16).to_be_bytes()); // glyph map: nothing mapped
    b
}

/// CFF / CFF2 charstrings INDEXes with hand-set offset arrays (zero offsets, a last offset below the previous
/// ones, a gap before the first object, bytes after the last one, bad offSize / count), CFF / CFF2 headers that
/// stop `Cff::read` / `Cff2::read` at each of their steps, and `IFT ` tables in format 1 and 2 whose optional
/// charstrings-offset fields are present / absent / cut off.  PatchInfos come from a format-2 `IFTX`.
/// Every case goes to the model twice (`cff` = the arm, `gk` = the whole font); oracles: no panic, unnamed
/// tables untouched, and for a well-formed INDEX the per-glyph statement.
fn run_cff_index(s: &mut Session, rng: &mut Rng, n_cases: usize) {
    for case_no in 0..n_cases {
        let c1 = compat_id(rng);
        let mut c2 = compat_id(rng);
        c2[15] = c2[15].wrapping_add(9);
        let ents: Vec<MapEntry> = (0..3).map(|i| MapEntry { delta: if i == 0 { 50 } else { 0 }, format: 3, ignored: false }).collect();
        let v2 = rng.chance(1, 2);
        let tag = if v2 { CFF2 } else { CFF_ };
        let n = *rng.pick(&[1usize, 1, 2, 3, 4, 6]);
        let off_size = *rng.pick(&[1u8, 1, 2, 2, 3, 4]);
        let glyphs: Vec<Vec<u8>> = (0..n).map(|_| { let l = *rng.pick(&[0usize, 1, 2, 3, 7, 20]); rng.bytes(l) }).collect();
        // --- the table prefix (header + INDEXes before the charstrings) -------------------------------
        let hdr_kind = rng.below(24);
        let mut prefix: Vec<u8> = vec![];
        if v2 {
            let top = { let l_ = rng.below(4) as usize; rng.bytes(l_) };
            let hs: u8 = match hdr_kind { 0 => *rng.pick(&[0u8, 4, 6, 9, 200]), _ => 5 };
            prefix.extend_from_slice(&[2, 0, hs]);
            let tl: u16 = if hdr_kind == 1 { *rng.pick(&[0u16, 1, 40, 0xffff]) } else { top.len() as u16 };
            prefix.extend_from_slice(&tl.to_be_bytes());
            prefix.extend_from_slice(&top);
            match hdr_kind {
                2 => prefix.extend_from_slice(&[0, 0, 0, 0]),                 // empty global subrs without offSize
                3 => prefix.extend_from_slice(&[0, 0, 0, 9, 1, 1]),           // offsets cut off
                4 => { prefix.truncate(rng.below(5) as usize); }              // header cut off
                _ => prefix.extend_from_slice(&[0, 0, 0, 1, 1, 1, 2, 7]),
            }
        } else {
            let hs: u8 = match hdr_kind { 0 => *rng.pick(&[0u8, 3, 5, 7, 200]), _ => 4 };
            prefix.extend_from_slice(&[1, 0, hs, 1]);
            let bad_at = if (1..=4).contains(&hdr_kind) { (hdr_kind - 1) as usize } else { 9 };
            for k in 0..4 {
                if k == bad_at {
                    match rng.below(5) {
                        0 => prefix.extend_from_slice(&[0, 0]),                       // empty INDEX: count only
                        1 => prefix.extend_from_slice(&[0, 0, 1, 1]),                 // count 0 with offSize + one offset
                        2 => prefix.extend_from_slice(&[0, 1, 1, 1, 0, 7]),           // last offset 0
                        3 => prefix.extend_from_slice(&[0, 1, 5, 1, 2, 7]),           // offSize 5
                        _ => prefix.extend_from_slice(&[0, 2, 1, 1, 2, 200, 7]),      // object runs past the table
                    }
                } else {
                    prefix.extend_from_slice(&[0, 1, 1, 1, 2, rng.next() as u8]);
                }
            }
            if hdr_kind == 5 { prefix.truncate(rng.below(4) as usize); }
        }
        prefix.extend_from_slice(&{ let l_ = rng.below(5) as usize; rng.bytes(l_) });
        // --- the charstrings INDEX with a hand-made offset array --------------------------------------
        let mut raw: Vec<usize> = vec![1];
        for g in &glyphs { let l = *raw.last().unwrap() + g.len(); raw.push(l); }
        let mut data: Vec<u8> = glyphs.iter().flatten().cloned().collect();
        let idx_kind = rng.below(12);
        let mut well_formed = true;
        match idx_kind {
            0 => { let i = rng.below(n as u64 + 1) as usize; raw[i] = 0; well_formed = false; }          // unreadable entry
            1 => { raw[n] = 0; well_formed = false; }                                                    // unreadable LAST entry
            2 => { let lo = raw[0]; let hi = raw[n - 1].max(lo); raw[n] = rng.range(lo as i64, hi as i64) as usize; well_formed = raw[n] >= raw[n - 1] && n >= 1 && raw[n] == 1 + data.len(); } // last below previous
            3 => { if n >= 2 { let i = rng.range(1, n as i64 - 1) as usize; raw[i] = raw[i].saturating_sub(rng.range(1, 3) as usize).max(1); well_formed = false; } }  // dip in the middle
            4 => { let gap = rng.range(1, 3) as usize; for r in raw.iter_mut() { *r += gap; } let mut d = rng.bytes(gap); d.extend_from_slice(&data); data = d; well_formed = false; } // gap before object 0
            5 => { data.extend_from_slice(&{ let l_ = rng.range(1, 4) as usize; rng.bytes(l_) }); well_formed = false; } // bytes after the last object
            6 => { raw[n] += rng.range(1, 5) as usize; well_formed = false; }                            // last object runs past the table
            _ => {}
        }
        let count_written: usize = if idx_kind == 7 { (n as i64 + *rng.pick(&[-1i64, 1, 255])).max(0) as usize } else { n };
        let os_written: u8 = if idx_kind == 8 { *rng.pick(&[0u8, 5, 255]) } else { off_size };
        let at = prefix.len();
        let mut table = prefix.clone();
        if v2 { table.extend_from_slice(&(count_written as u32).to_be_bytes()); } else { table.extend_from_slice(&(count_written as u16).to_be_bytes()); }
        table.push(os_written);
        for r in &raw { table.extend_from_slice(&be_n(*r, off_size as usize)); }
        table.extend_from_slice(&data);
        if idx_kind == 9 { let k = table.len() - rng.below((table.len() - at.min(table.len())) as u64 + 1) as usize; table.truncate(k); well_formed = false; }
        if hdr_kind <= 5 || idx_kind == 7 || idx_kind == 8 { well_formed = false; }
        // --- the IFT table: format 1 or 2, optional fields present / absent / cut off -------------------
        let ift_kind = if rng.chance(1, 3) { rng.below(10) } else { *rng.pick(&[3u64, 4, 7, 8, 9]) };
        let at_written: u32 = match rng.below(12) { 0 => at as u32 + 1, 1 => (at as u32).saturating_sub(1), 2 => table.len() as u32, 3 => table.len() as u32 + 1, _ => at as u32 };
        if at_written as usize != at { well_formed = false; }
        let other: u32 = rng.next() as u32;
        // fields in table order (CFF first); the arm under test gets `at_written`
        let (flags, fields): (u8, Vec<u32>) = match (v2, rng.below(3)) {
            (false, 0) => (1, vec![at_written]),
            (false, _) => (3, vec![at_written, other]),
            (true, 0) => (2, vec![at_written]),
            (true, _) => (3, vec![other, at_written]),
        };
        let mut ift = if ift_kind < 5 {
            ift_format1(&c1, n as u32, *rng.pick(&[0u16, 6, 7, 8, 300]), rng.below(5) as usize, flags, &fields)
        } else {
            ift_format2_ext(&c1, 0, &[], if flags & 1 != 0 { Some(fields[0]) } else { None }, if flags & 2 != 0 { Some(*fields.last().unwrap()) } else { None })
        };
        match ift_kind {
            0 | 5 => { ift[4] = *rng.pick(&[0u8, 1, 2, 3, 0xfc]); if ift[4] != flags { well_formed = false; } }   // flags disagree with the fields written
            1 | 6 => { let keep = rng.range(4, ift.len() as i64) as usize; ift.truncate(keep); well_formed = false; } // cut off
            2 => { ift[0] = *rng.pick(&[0u8, 3, 255]); well_formed = false; }                                     // unknown format
            _ => {}
        }
        let mut tables: BTreeMap<u32, Vec<u8>> = BTreeMap::new();
        tables.insert(HEAD, head_table(false, rng));
        tables.insert(tg(b"maxp"), maxp_table(n as u16));
        tables.insert(tag, table.clone());
        tables.insert(IFT_, ift);
        tables.insert(IFTX, ift_format2(&c2, rng.below(3) as usize, &ents));
        if rng.chance(1, 2) { tables.insert(tg(b"tab1"), { let l_ = rng.below(9) as usize; rng.bytes(l_) }); }
        let font = build_font(&tables);
        let Some(base) = tables_of(&font) else { continue };
        let all_infos = infos_of(&font);
        let infos: Vec<&Info> = all_infos.iter().filter(|i| i.iftx).collect();
        if infos.is_empty() { s.count("cffindex:no-infos"); continue; }
        // --- patches: 1 or 2, the last glyph listed half of the time --------------------------------
        let n_p = rng.range(1, infos.len().min(2) as i64) as usize;
        let mut pools: HashMap<(u32, u32), Vec<u8>> = HashMap::new();
        let mut patches: Vec<GkPatch> = vec![];
        for _ in 0..n_p {
            let mut gids: Vec<u32> = (0..n as u32).filter(|g| if *g as usize == n - 1 { rng.chance(1, 2) } else { rng.chance(1, 3) }).collect();
            if gids.is_empty() && rng.chance(3, 4) { gids.push(rng.below(n as u64) as u32); }
            let per: Vec<Vec<u8>> = gids.iter().map(|g| { let l = *rng.pick(&[0usize, 1, 4, 9, 260]); let fresh = rng.bytes(l); pools.entry((tag, *g)).or_insert(fresh).clone() }).collect();
            let tabs = if rng.chance(1, 6) { vec![tg(b"AAAA"), tag] } else { vec![tag] };
            let data: Vec<Vec<Vec<u8>>> = tabs.iter().map(|t| if *t == tag { per.clone() } else { gids.iter().map(|_| vec![1]).collect() }).collect();
            patches.push(mk_patch(GkSpec { wide: rng.chance(1, 4), tables: tabs, gids, data }, &c2));
        }
        let pairs: Vec<(&Info, &GkPatch)> = (0..n_p).map(|pi| (infos[pi], &patches[pi])).collect();
        let dec = Scripted::new(None);
        let r = apply_gk(&font, &pairs, &dec);
        cff_case(s, &base, &r, &pairs);
        s.case("glyph_keyed_cffindex", gk_req(&dec, &pairs, &base), gk_resp(&r));
        let last_listed = pairs.iter().any(|(_, p)| p.spec.gids.contains(&(n as u32 - 1)));
        s.count(&format!("cffindex:hdr-{}", if hdr_kind <= 5 { format!("bad{hdr_kind}") } else { "ok".into() }));
        s.count(&format!("cffindex:idx{}", idx_kind.min(10)));
        s.count(&format!("cffindex:ift{} format {}", ift_kind.min(7), if ift_kind < 5 { 1 } else { 2 }));
        let input = || format!("cffindex#{case_no} v2={v2} hdr {hdr_kind} idx {idx_kind} ift {ift_kind} last-listed {last_listed}: gk n {} {} | {}", n_p,
            pairs.iter().map(|(i, p)| format!("{} {}", i.req(), hex(&p.bytes))).collect::<Vec<_>>().join(" ").chars().take(1200).collect::<String>(),
            font_req(&base).chars().take(1800).collect::<String>());
        match &r {
            Err(p) => s.oracle("cffindex:no-panic", false, input, || p.clone()),
            Ok(Err(e)) => {
                s.count(&format!("cffindex:err:{}{}", perr(e).chars().take(44).collect::<String>(), if last_listed { " last-listed" } else { "" }));
                s.oracle("cffindex:well-formed-font-applies", !well_formed, input, || perr(e));
            }
            Ok(Ok(bytes)) => {
                s.count(&format!("cffindex:ok idx{}{}", idx_kind.min(10), if last_listed { " last-listed" } else { "" }));
                match tables_of(bytes) {
                    None => s.oracle("cffindex:output-readable", false, input, || "FontRef::new failed".into()),
                    Some(out) => {
                        for (t, d) in &base {
                            if *t == IFTX || *t == tag { continue; }
                            let same = get(&out, *t).map(|o| canon_head(*t, o) == canon_head(*t, d)).unwrap_or(false);
                            s.oracle("gk:untouched-table-identical", same, input, || format!("table {}", hex(&t.to_be_bytes())));
                        }
                        if well_formed {
                            if let Some(o) = get(&out, tag) {
                                cff_oracles(s, &CffSpec { v2, off_size, prefix: prefix.clone(), glyphs: glyphs.clone() }, o, &pairs, &input);
                            }
                        }
                    }
                }
            }
        }
    }
}

// ------------------------------------------------------------------------------------------
// one application round of a PatchGroup
// ------------------------------------------------------------------------------------------

fn status_str(m: &HashMap<String, UriStatus>) -> String {
    let mut v: Vec<String> = m
        .iter()
        .map(|(k, st)| match st {
            UriStatus::Applied => format!("{k}=A"),
            UriStatus::Pending(d) => format!("{k}=P:{}:{}", d.len(), fnv(d)),
        })
        .collect();
    v.sort();
    v.join(" ")
}

fn run_round(s: &mut Session, rng: &mut Rng, n_cases: usize) {
    for case_no in 0..n_cases {
        let c1 = compat_id(rng);
        let mut c2 = compat_id(rng);
        c2[15] = c2[15].wrapping_add(7);
        // group flavour decides the formats present
        let flavour = rng.below(6);
        let fmts = |rng: &mut Rng, n: usize, fl: u64, iftx: bool| -> Vec<MapEntry> {
            (0..n)
                .map(|i| {
                    let format = match fl {
                        0 => 3,                                        // all glyph keyed
                        1 => if i == 0 && !iftx { 2 } else { 3 },      // partial in IFT, glyph keyed in IFTX
                        2 => if i == 0 { 2 } else { 3 },               // partial in both
                        3 => if i == 1 && iftx { 1 } else { 3 },       // a full invalidation in IFTX
                        4 => *rng.pick(&[1u8, 2, 3, 3, 3]),
                        _ => 3,
                    };
                    MapEntry { delta: if i == 0 && iftx { 100 } else { 0 }, format, ignored: rng.chance(1, 8) }
                })
                .collect()
        };
        let n1 = rng.range(1, 4) as usize;
        let n2 = rng.range(1, 4) as usize;
        let e1 = fmts(rng, n1, flavour, false);
        let e2 = fmts(rng, n2, flavour, true);
        let ift = ift_format2(&c1, rng.below(3) as usize, &e1);
        let with_iftx = rng.chance(3, 4);
        let iftx = if with_iftx { Some(ift_format2(&c2, 0, &e2)) } else { None };
        let f = gen_gk_font(rng, false, ift, iftx);
        let font = build_font(&f.tables);
        let Some(base) = tables_of(&font) else { continue };
        let infos = infos_of(&font);
        let fref = FontRef::new(&font).unwrap();
        let mut cps = IntSet::<u32>::empty();
        cps.insert(5);
        let sd = SubsetDefinition::codepoints(cps);
        // patch data for every uri
        let mut pool: HashMap<u32, Vec<u8>> = HashMap::new();
        let mut full: BTreeMap<String, Vec<u8>> = BTreeMap::new();
        for i in &infos {
            let compat: [u8; 16] = i.compat.clone().try_into().unwrap_or([0; 16]);
            let bytes = match i.format {
                PatchFormat::GlyphKeyed => {
                    let spec = gen_gk_spec(rng, f.glyphs.len(), false, &mut pool, true);
                    let payload = gk_payload(&spec);
                    let c = if rng.chance(1, 25) { compat_id(rng) } else { compat };
                    gk_patch(b"ifgk", spec.wide, &c, payload.len() as u32, &payload)
                }
                _ => {
                    let entries: Vec<TkEntry> = (0..rng.below(3) + 1)
                        .map(|_| {
                            let tag = *rng.pick(&[tg(b"tab1"), tg(b"tab2"), tg(b"zzzz"), tg(b"glyf")]);
                            let sl = rng.below(6) as usize;
                            let stream = rng.bytes(sl);
                            TkEntry { tag, flags: *rng.pick(&[1u8, 1, 2, 0]), max_len: 1000, stream }
                        })
                        .collect();
                    let c = if rng.chance(1, 25) { compat_id(rng) } else { compat };
                    tk_patch(b"iftk", &c, &entries).0
                }
            };
            full.insert(i.uri.clone(), bytes);
        }
        // the group's two iterators (selection is deterministic for font + subset definition)
        let (inv0, non0): (Vec<String>, Vec<String>) = match PatchGroup::select_next_patches(fref.clone(), &sd) {
            Ok(g) => {
                let uris: Vec<String> = g.uris().map(|u| u.to_string()).collect();
                let is_gk = |u: &String| infos.iter().find(|i| &i.uri == u).map(|i| matches!(i.format, PatchFormat::GlyphKeyed)).unwrap_or(false);
                (uris.iter().filter(|u| !is_gk(u)).cloned().collect(), uris.iter().filter(|u| is_gk(u)).cloned().collect())
            }
            Err(_) => (vec![], vec![]),
        };
        let n_variants = 5;
        for variant in 0..n_variants {
            // status map: mostly pending, some applied, some missing
            let mut st: HashMap<String, UriStatus> = HashMap::new();
            let mut later_missing: Option<String> = None;
            if variant >= 3 {
                // the glyph-keyed stage is reached (invalidating patches already applied), everything
                // pending; variant 3: the LAST (or a middle) non-invalidating URI is missing from the map
                for (u, b) in &full {
                    if inv0.contains(u) { st.insert(u.clone(), UriStatus::Applied); } else { st.insert(u.clone(), UriStatus::Pending(b.clone())); }
                }
                if variant == 3 {
                    if non0.len() < 2 { continue; }
                    let k = rng.range(1, non0.len() as i64 - 1) as usize;
                    st.remove(&non0[k]);
                    later_missing = Some(non0[k].clone());
                }
            } else {
            for (u, b) in &full {
                match rng.below(10) {
                    0 => {}
                    1 | 2 => { st.insert(u.clone(), UriStatus::Applied); }
                    _ => { st.insert(u.clone(), UriStatus::Pending(b.clone())); }
                }
            }
            }
            if rng.chance(1, 5) { st.insert("foo/other".into(), UriStatus::Pending(vec![1, 2, 3])); }
            let mut n_calls_ok = 0;
            let mut round = 0usize;
            loop {
                let fault = if round == 0 { None } else { Some((round - 1, KINDS[(case_no + round + variant) % KINDS.len()])) };
                let dec = Scripted::new(fault);
                let g = match PatchGroup::select_next_patches(fref.clone(), &sd) {
                    Ok(g) => g,
                    Err(_) => { s.count("round:select-error"); break; }
                };
                let uris: Vec<String> = g.uris().map(|u| u.to_string()).collect();
                // what the two iterators of the group yield: invalidating first, then non-invalidating
                let lookup = |u: &String| infos.iter().find(|i| &i.uri == u);
                let mut inv: Vec<&Info> = vec![];
                let mut non: Vec<&Info> = vec![];
                let mut consistent = true;
                for u in &uris {
                    match lookup(u) {
                        Some(i) => if matches!(i.format, PatchFormat::GlyphKeyed) { non.push(i) } else { inv.push(i) },
                        None => consistent = false,
                    }
                }
                if !consistent { s.count("round:uri-not-found"); break; }
                let mut before: HashMap<String, UriStatus> = HashMap::new();
                for (k, v) in &st {
                    before.insert(k.clone(), match v { UriStatus::Applied => UriStatus::Applied, UriStatus::Pending(d) => UriStatus::Pending(d.clone()) });
                }
                let mut work = before;
                let mut sorted: Vec<(&String, &UriStatus)> = st.iter().collect();
                sorted.sort_by(|a, b| a.0.cmp(b.0));
                let mut req = format!("round {} {}", dec.script(), inv.len());
                for i in &inv { req.push_str(&format!(" {}", i.req())); }
                req.push_str(&format!(" {}", non.len()));
                for i in &non { req.push_str(&format!(" {}", i.req())); }
                req.push_str(&format!(" {}", sorted.len()));
                for (k, v) in &sorted {
                    match v {
                        UriStatus::Applied => req.push_str(&format!(" {k} A")),
                        UriStatus::Pending(d) => req.push_str(&format!(" {k} P:{}", hex(d))),
                    }
                }
                req.push(' ');
                req.push_str(&font_req(&base));
                let r = catch(|| g.apply_next_patches_with_decoder(&mut work, &dec));
                let input = || format!("round#{case_no}.{variant} fault {:?}: {}", fault, req.chars().take(2500).collect::<String>());
                let resp = match &r {
                    Err(p) => { s.oracle("round:no-panic", false, input, || p.clone()); "panic".to_string() }
                    Ok(Err(e)) => format!("err {} | {}", perr(e), status_str(&work)),
                    Ok(Ok(bytes)) => match tables_of(bytes) { Some(t) => format!("ok {} | {}", tables_str(&t), status_str(&work)), None => "ok unreadable".into() },
                };
                s.case("round", req.clone(), resp.clone());
                if let Ok(res) = &r {
                    match res {
                        Err(e) => {
                            s.count(&format!("round:err:{}", perr(e).chars().take(40).collect::<String>()));
                            s.oracle("round:error-leaves-status-map-untouched", work == st, input, || format!("before {} after {}", status_str(&st), status_str(&work)));
                            if let Some((k, _)) = fault {
                                if dec.n_calls() > k {
                                    s.count("round:fault-hit");
                                    if variant >= 3 { s.count(&format!("round:glyph-keyed-stage-fault-at-call-{k}")); }
                                }
                            }
                            if let Some(u) = &later_missing {
                                s.count("round:later-uri-missing");
                                s.oracle("round:later-missing-uri-is-MissingPatches-before-any-decode",
                                    matches!(e, PatchingError::MissingPatches) && dec.n_calls() == 0, input, || format!("uri {u}: err {} after {} decoder calls", perr(e), dec.n_calls()));
                            }
                        }
                        Ok(_) => {
                            // exactly the applied uris flipped
                            let first_inv_pending = inv.first().map(|i| matches!(st.get(&i.uri), Some(UriStatus::Pending(_)))).unwrap_or(false);
                            let mut want: HashMap<String, UriStatus> = HashMap::new();
                            for (k, v) in &st {
                                want.insert(k.clone(), match v { UriStatus::Applied => UriStatus::Applied, UriStatus::Pending(d) => UriStatus::Pending(d.clone()) });
                            }
                            if first_inv_pending {
                                s.count("round:ok-invalidating");
                                want.insert(inv[0].uri.clone(), UriStatus::Applied);
                            } else {
                                s.count("round:ok-glyph-keyed");
                                for i in &non { if want.contains_key(&i.uri) { want.insert(i.uri.clone(), UriStatus::Applied); } }
                            }
                            s.oracle("round:success-flips-exactly-the-applied-uris", work == want, input, || format!("want {} got {}", status_str(&want), status_str(&work)));
                            if let Some((k, _)) = fault {
                                s.oracle("round:decoder-fault-is-error", dec.n_calls() <= k, input, || "fault hit but Ok".into());
                            }
                            if let Some(u) = &later_missing {
                                s.oracle("round:later-missing-uri-is-MissingPatches-before-any-decode", false, input, || format!("uri {u} missing but Ok"));
                            }
                        }
                    }
                }
                if round == 0 { n_calls_ok = dec.n_calls(); }
                round += 1;
                if round > n_calls_ok.min(4) { break; }
            }
        }
    }
}

fn main() {
    fv_harness::main_with("C18", run);
}

fn run(cfg: &Config, s: &mut Session) {
    if std::env::var("C18_DEBUG").is_ok() {
        std::panic::set_hook(Box::new(|i| eprintln!("panic: {i}")));
    }
    let mut rng = Rng::new(cfg.seed);
    let k = if cfg.thorough() { 10 } else { 1 };
    run_tk(s, &mut rng, 1500 * k);
    run_gk(s, &mut rng, 2500 * k, false);
    run_gk(s, &mut rng, 12 * k, true);
    run_gk_groups(s, &mut rng, 600 * k);
    run_boundary(s, &mut rng);
    run_cff_groups(s, &mut rng, 300 * k);
    run_hostile(s, &mut rng, 1500 * k);
    run_cff_index(s, &mut rng, 2500 * k);
    run_round(s, &mut rng, 500 * k);
}
