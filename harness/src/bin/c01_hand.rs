//! dev-only binary: runs just the `hand` part of C01 (same module files as bin `c01`).
use fv_harness::common::*;
#[path = "c01/hand/mod.rs"]
mod hand;
fn run(cfg: &Config, s: &mut Session) { hand::run(cfg, s) }
fn main() {
    if let Ok(group) = std::env::var("C01_HAND_CHILD") {
        hand::child_main(&group);
        return;
    }
    fv_harness::main_with("C01", run)
}
