//! Field-extremes family: numeric fields located SYSTEMATICALLY through read-fonts' generic traversal
//! (`experimental_traverse`, `SomeTable::get_field`), not per hand-picked table.
//!
//! For each base font (corpus + synthetic) every table `TableProvider` knows is walked in declaration
//! order; the byte position of each scalar / offset field is the running position of the sequential
//! layout (records inline, arrays element by element, sub-tables at `parent + offset`) and is VERIFIED
//! against the bytes: a field is used only if the big-endian bytes at the computed position decode to
//! the value the traversal reports (with a resynchronisation window of 8 bytes for fields the
//! traversal hides, e.g. reserved words).  A table whose layout is lost is abandoned from that field on
//! (counted), so a wrong guess can only waste a mutant, never fake one.
//!
//! Mutants: one located field at a time set to 0, 1, MAX-1, MAX, 0x7F.., 0x80.. of its width (plus 0x0F / 0xF0
//! for bytes and 0x00FF / 0xFF00 for 16-bit fields: bit-packed formats).  Quick
//! tier: a deterministic sample per top-level table that prefers count / size / index / format fields;
//! thorough tier: (nearly) all located fields.  Each mutant runs the consumers of its table
//! (`Groups::for_table`; all consumers in the thorough tier) through `explore::exercise_groups`.
//!
//! Replay: `font=<name> mut=field[<table path>.<field>@<abs byte offset>:u<bits>=<value>]`.
use crate::explore::{exercise_groups, parallel, worker_threads, Explorer, Groups};
use fv_harness::common::*;
use read_fonts::traversal::{FieldType, OffsetType, SomeArray, SomeTable};
use read_fonts::{FontRef, ReadError, TableProvider};
use std::collections::HashSet;

type BoxTable<'a> = Box<dyn SomeTable<'a> + 'a>;

pub fn known_tables<'a>(font: &FontRef<'a>) -> Vec<(&'static str, Result<BoxTable<'a>, ReadError>)> {
    let mut v: Vec<(&'static str, Result<BoxTable<'a>, ReadError>)> = Vec::with_capacity(48);
    macro_rules! t {
        ($name:literal, $e:expr) => {
            v.push(($name, $e.map(|x| Box::new(x) as BoxTable<'a>)));
        };
    }
    t!("head", font.head());
    t!("hhea", font.hhea());
    t!("vhea", font.vhea());
    t!("maxp", font.maxp());
    t!("OS/2", font.os2());
    t!("post", font.post());
    t!("name", font.name());
    t!("cmap", font.cmap());
    t!("hmtx", font.hmtx());
    t!("vmtx", font.vmtx());
    t!("hdmx", font.hdmx());
    t!("VORG", font.vorg());
    t!("gasp", font.gasp());
    t!("fvar", font.fvar());
    t!("avar", font.avar());
    t!("HVAR", font.hvar());
    t!("VVAR", font.vvar());
    t!("MVAR", font.mvar());
    t!("gvar", font.gvar());
    t!("cvar", font.cvar());
    t!("STAT", font.stat());
    t!("GDEF", font.gdef());
    t!("GSUB", font.gsub());
    t!("GPOS", font.gpos());
    t!("BASE", font.base());
    t!("COLR", font.colr());
    t!("CPAL", font.cpal());
    t!("CBLC", font.cblc());
    t!("EBLC", font.eblc());
    t!("sbix", font.sbix());
    t!("SVG ", font.svg());
    t!("CFF ", font.cff().map(|c| c.header()));
    t!("CFF2", font.cff2().map(|c| c.header().clone()));
    t!("meta", font.meta());
    t!("VARC", font.varc());
    t!("IFT ", font.ift());
    t!("IFTX", font.iftx());
    v
}

// ------------------------------------------------------------------------------- generic traversal

struct Budget(usize);

fn trav_value<'a>(v: &FieldType<'a>, b: &mut Budget, depth: u32) {
    if b.0 == 0 || depth > 24 {
        return;
    }
    b.0 -= 1;
    match v {
        FieldType::ResolvedOffset(r) => {
            if let Ok(t) = &r.target {
                trav_table(&**t, b, depth + 1);
            }
        }
        FieldType::StringOffset(so) => {
            if let Ok(st) = &so.target {
                let _ = st.iter_chars().take(256).count();
            }
        }
        FieldType::ArrayOffset(ao) => {
            if let Ok(a) = &ao.target {
                trav_array(&**a, b, depth + 1);
            }
        }
        FieldType::Record(r) => trav_table(r, b, depth + 1),
        FieldType::Array(a) => trav_array(&**a, b, depth + 1),
        _ => {}
    }
}

fn trav_table<'a>(t: &(dyn SomeTable<'a> + 'a), b: &mut Budget, depth: u32) {
    let _ = t.type_name();
    for i in 0..96 {
        if b.0 == 0 {
            return;
        }
        if let Some(f) = t.get_field(i) {
            trav_value(&f.value, b, depth);
        }
    }
}

fn trav_array<'a>(a: &(dyn SomeArray<'a> + 'a), b: &mut Budget, depth: u32) {
    let n = a.len();
    for i in 0..n.min(4096) {
        if b.0 == 0 {
            return;
        }
        if let Some(v) = a.get(i) {
            trav_value(&v, b, depth);
        }
    }
}

/// the consumer: walk every known table generically (node budget)
pub fn traverse_all(font: &FontRef, budget: usize) {
    for (_, t) in known_tables(font) {
        if let Ok(t) = t {
            let mut b = Budget(budget);
            trav_table(&*t, &mut b, 0);
        }
    }
}

// ---------------------------------------------------------------------------------- field locator

#[derive(Clone, Debug)]
pub struct FieldLoc {
    pub table: &'static str,
    pub path: String,
    pub pos: usize,
    pub width: usize,
    /// 0 = count / size / index / format like, 1 = other scalar, 2 = offset
    pub class: u8,
    /// the table instance this field belongs to (records in arrays belong to their table) and its parent
    pub inst: usize,
    pub parent: usize,
}

fn scalar_info(v: &FieldType) -> Option<(usize, u64, bool)> {
    Some(match v {
        FieldType::I8(x) => (1, *x as u8 as u64, false),
        FieldType::U8(x) => (1, *x as u64, false),
        FieldType::I16(x) => (2, *x as u16 as u64, false),
        FieldType::U16(x) => (2, *x as u64, false),
        FieldType::I32(x) => (4, *x as u32 as u64, false),
        FieldType::U32(x) => (4, *x as u64, false),
        FieldType::I24(x) => (3, (i32::from(*x) as u32 & 0xFF_FFFF) as u64, false),
        FieldType::U24(x) => (3, u32::from(*x) as u64, false),
        FieldType::Tag(x) => (4, u32::from_be_bytes(x.to_be_bytes()) as u64, false),
        FieldType::FWord(x) => (2, x.to_i16() as u16 as u64, false),
        FieldType::UfWord(x) => (2, x.to_u16() as u64, false),
        FieldType::MajorMinor(x) => (4, ((x.major as u64) << 16) | x.minor as u64, false),
        FieldType::Version16Dot16(x) => (4, u32::from_be_bytes(x.to_be_bytes()) as u64, false),
        FieldType::F2Dot14(x) => (2, x.to_bits() as u16 as u64, false),
        FieldType::Fixed(x) => (4, x.to_bits() as u32 as u64, false),
        FieldType::LongDateTime(x) => (8, x.as_secs() as u64, false),
        FieldType::GlyphId16(x) => (2, x.to_u16() as u64, false),
        FieldType::NameId(x) => (2, x.to_u16() as u64, false),
        FieldType::BareOffset(o) => off_info(o),
        FieldType::ResolvedOffset(r) => off_info(&r.offset),
        FieldType::StringOffset(r) => off_info(&r.offset),
        FieldType::ArrayOffset(r) => off_info(&r.offset),
        _ => return None,
    })
}

fn off_info(o: &OffsetType) -> (usize, u64, bool) {
    match o {
        OffsetType::Offset16(v) => (2, *v as u64, true),
        OffsetType::Offset24(v) => (3, u32::from(*v) as u64, true),
        OffsetType::Offset32(v) => (4, *v as u64, true),
    }
}

fn countish(name: &str) -> bool {
    const KEYS: [&str; 22] = [
        "count", "num", "length", "len", "size", "index", "format", "shift", "range", "selector", "units_per_em", "entry", "version", "first", "last", "start", "end", "flags", "max", "min", "ppem", "bit",
    ];
    KEYS.iter().any(|k| name.contains(k))
}

struct Locator<'b> {
    bytes: &'b [u8],
    table: &'static str,
    lo: usize,
    hi: usize,
    out: Vec<FieldLoc>,
    nodes: usize,
    lost_tables: usize,
    lost_at: Vec<String>,
    resyncs: usize,
    visited: HashSet<(usize, String)>,
    next_inst: usize,
    inst_stack: Vec<usize>,
}

impl<'b> Locator<'b> {
    fn read(&self, pos: usize, w: usize) -> Option<u64> {
        if pos < self.lo || pos + w > self.hi.min(self.bytes.len()) {
            return None;
        }
        let mut v = 0u64;
        for b in &self.bytes[pos..pos + w] {
            v = (v << 8) | *b as u64;
        }
        Some(v)
    }

    /// position at which a `w`-byte field of value `val` expected at `pos` actually is
    fn verify(&mut self, pos: usize, w: usize, val: u64) -> Option<usize> {
        if self.read(pos, w) == Some(val) {
            return Some(pos);
        }
        if val != 0 && w >= 2 {
            for d in 1..=8 {
                if self.read(pos + d, w) == Some(val) {
                    self.resyncs += 1;
                    return Some(pos + d);
                }
            }
        }
        None
    }

    fn value<'a>(&mut self, v: &FieldType<'a>, name: &str, pos: &mut usize, lost: &mut bool, base: usize, path: &str, depth: u32) {
        if self.nodes > 400_000 || depth > 16 {
            *lost = true;
            return;
        }
        self.nodes += 1;
        if let Some((w, val, is_off)) = scalar_info(v) {
            if !*lost {
                match self.verify(*pos, w, val) {
                    Some(p) => {
                        let class = if is_off { 2 } else if countish(name) { 0 } else { 1 };
                        self.out.push(FieldLoc { table: self.table, path: format!("{path}.{name}"), pos: p, width: w, class, inst: *self.inst_stack.last().unwrap_or(&0), parent: if self.inst_stack.len() >= 2 { self.inst_stack[self.inst_stack.len() - 2] } else { 0 } });
                        *pos = p + w;
                    }
                    None => {
                        *lost = true;
                        self.lost_tables += 1;
                        self.lost_at.push(format!("{path}.{name}"));
                    }
                }
            }
            if let FieldType::ResolvedOffset(r) = v {
                let off = r.offset.to_u32() as usize;
                if let (Ok(t), true) = (&r.target, off != 0) {
                    let child = base + off;
                    if child < self.hi {
                        let p = format!("{path}.{name}");
                        self.table_at(&**t, child, &p, depth + 1);
                    }
                }
            }
            return;
        }
        match v {
            FieldType::Record(r) => {
                for i in 0..64 {
                    if let Some(f) = r.get_field(i) {
                        self.value(&f.value, f.name, pos, lost, base, path, depth + 1);
                    }
                }
            }
            FieldType::Array(a) => {
                let n = a.len();
                let start = *pos;
                let mut elem_size: Option<usize> = None;
                let mut i = 0usize;
                // only arrays of plain scalars are sampled; arrays of offsets / records are walked
                // completely (their elements lead to sub-tables), within the node budget
                let plain = n > 0 && matches!(a.get(0).as_ref().and_then(scalar_info), Some((_, _, false)));
                while i < n {
                    let sampled = !plain || i < 3 || i + 1 == n || i % 97 == 0;
                    if !sampled {
                        if let Some(sz) = elem_size {
                            // constant-size elements: jump to the next sampled one
                            let next = ((i / 97 + 1) * 97).min(n - 1);
                            *pos = start + next * sz;
                            i = next;
                            continue;
                        }
                    }
                    let before = *pos;
                    match a.get(i) {
                        Some(e) => {
                            let nm = format!("{name}[{i}]");
                            self.value(&e, &nm, pos, lost, base, path, depth + 1);
                        }
                        None => {
                            *lost = true;
                        }
                    }
                    if *lost {
                        break;
                    }
                    if i == 0 {
                        elem_size = Some(*pos - before);
                    } else if elem_size != Some(*pos - before) {
                        elem_size = None; // variable-size elements: walk them all
                    }
                    i += 1;
                }
            }
            _ => {
                // Unknown / unsupported: the layout after this field is unknown
                *lost = true;
            }
        }
    }

    fn table_at<'a>(&mut self, t: &(dyn SomeTable<'a> + 'a), base: usize, path: &str, depth: u32) {
        if !self.visited.insert((base, t.type_name().to_string())) {
            return;
        }
        let mut pos = base;
        let mut lost = false;
        let p = format!("{path}/{}", t.type_name());
        self.next_inst += 1;
        self.inst_stack.push(self.next_inst);
        for i in 0..128 {
            if let Some(f) = t.get_field(i) {
                self.value(&f.value, f.name, &mut pos, &mut lost, base, &p, depth);
            }
        }
        self.inst_stack.pop();
    }
}

/// every verified numeric field of every known table of `bytes`
pub fn locate(bytes: &[u8]) -> (Vec<FieldLoc>, Vec<String>, usize) {
    let Ok(font) = FontRef::new(bytes) else { return (vec![], vec![], 0) };
    let dir = crate::explore::tables(bytes);
    let mut all = vec![];
    let (mut lost, mut resyncs) = (vec![], 0);
    for (tag, t) in known_tables(&font) {
        let Ok(t) = t else { continue };
        let Some((_, off, len)) = dir.iter().find(|(g, _, _)| g == tag) else { continue };
        let mut l = Locator { bytes, table: tag, lo: *off, hi: off + len, out: vec![], nodes: 0, lost_tables: 0, lost_at: vec![], resyncs: 0, visited: HashSet::new(), next_inst: 0, inst_stack: vec![] };
        l.table_at(&*t, *off, tag, 0);
        lost.extend(l.lost_at);
        resyncs += l.resyncs;
        all.extend(l.out);
    }
    // the same byte can be reached twice (shared sub-tables): keep the first
    let mut seen = HashSet::new();
    all.retain(|f| seen.insert((f.pos, f.width)));
    (all, lost, resyncs)
}

fn extremes(width: usize) -> Vec<u64> {
    let bits = 8 * width as u32;
    let max = if bits == 64 { u64::MAX } else { (1u64 << bits) - 1 };
    let mid = max >> 1;
    let mut v = vec![0, 1, max - 1, max, mid, mid + 1];
    // bit-packed fields (entry formats, flag bytes): the extremes of each nibble / byte lane
    match width {
        1 => v.extend([0x0F, 0xF0]),
        2 => v.extend([0x00FF, 0xFF00]),
        _ => {}
    }
    v
}

struct Job<'a> {
    font: &'a str,
    base: &'a [u8],
    f: FieldLoc,
    val: u64,
    /// second field of a pair mutant (adjacent array elements)
    f2: Option<(FieldLoc, u64)>,
    all_groups: bool,
}

pub fn run(cfg: &Config, ex: &mut Explorer, corpus: &[(String, Vec<u8>)], synth: &[(String, Vec<u8>)]) -> String {
    let thorough = cfg.thorough();
    let mut rng = Rng::new(cfg.seed ^ 0xF1E1D);
    // per top-level table: (class 0, class 1, class 2) sample sizes
    let caps: [usize; 3] = if thorough { [400, 160, 60] } else { [14, 3, 2] };
    let mut jobs: Vec<Job> = vec![];
    let (mut located, mut lost, mut resyncs, mut by_class) = (0usize, 0usize, 0usize, [0usize; 3]);
    let mut n_pairs = 0usize;
    let mut n_kinds = 0usize;
    for (name, bytes) in corpus.iter().chain(synth.iter()) {
        let (fields, l, r) = match catch(|| locate(bytes)) {
            Ok(x) => x,
            Err(_) => {
                ex.count("fields: locator panicked on a base font");
                continue;
            }
        };
        located += fields.len();
        lost += l.len();
        for x in l {
            // strip indices: one counter per field path
            let key: String = x.chars().filter(|c| !c.is_ascii_digit()).collect();
            ex.count(&format!("fields-layout-lost:{key}"));
        }
        resyncs += r;
        // group by top-level table and class
        let mut tags: Vec<&'static str> = fields.iter().map(|f| f.table).collect();
        tags.dedup();
        tags.sort();
        tags.dedup();
        for tag in tags {
            for class in 0u8..3 {
                let mut fs: Vec<&FieldLoc> = fields.iter().filter(|f| f.table == tag && f.class == class).collect();
                by_class[class as usize] += fs.len();
                let cap = caps[class as usize];
                // deterministic sample, stratified by field KIND (the path with array indices removed):
                // every kind of field of the table is mutated at least `per_kind` times, whatever the
                // size of the table; then the first `cap/2` fields (headers) and a seeded choice of the rest
                let mut chosen: Vec<&FieldLoc> = vec![];
                let per_kind = if thorough { 12 } else { 1 };
                let mut seen_kind: std::collections::BTreeMap<String, usize> = Default::default();
                let mut rest: Vec<&FieldLoc> = vec![];
                for f in fs.drain(..) {
                    let kind: String = f.path.chars().filter(|c| !c.is_ascii_digit()).collect();
                    let k = seen_kind.entry(kind).or_insert(0);
                    if *k < per_kind {
                        *k += 1;
                        chosen.push(f);
                    } else {
                        rest.push(f);
                    }
                }
                n_kinds += seen_kind.len();
                let mut fs = rest;
                let head = (cap / 2).max(1).min(fs.len());
                let target = chosen.len() + cap;
                chosen.extend(fs.drain(..head));
                while chosen.len() < target && !fs.is_empty() {
                    let i = rng.below(fs.len() as u64) as usize;
                    chosen.push(fs.swap_remove(i));
                }
                for f in chosen {
                    for v in extremes(f.width) {
                        jobs.push(Job { font: name, base: bytes, f: f.clone(), val: v, f2: None, all_groups: thorough });
                    }
                }
            }
            // pairs of adjacent array elements (offset / index arrays): both near the top of their range,
            // ascending and descending, and straddling the sign bit
            let mut pairs: Vec<(&FieldLoc, &FieldLoc)> = fields
                .windows(2)
                .filter(|w| w[0].table == tag && w[1].table == tag && w[0].width == w[1].width && w[1].pos == w[0].pos + w[0].width && w[0].path.ends_with(']') && w[1].path.ends_with(']') && w[0].width >= 2)
                .map(|w| (&w[0], &w[1]))
                .collect();
            n_pairs += pairs.len();
            let cap = if thorough { 120 } else { 4 };
            let mut chosen = vec![];
            while chosen.len() < cap && !pairs.is_empty() {
                let i = rng.below(pairs.len() as u64) as usize;
                chosen.push(pairs.swap_remove(i));
            }
            for (a, b) in chosen {
                let bits = 8 * a.width as u32;
                let max = if bits == 64 { u64::MAX } else { (1u64 << bits) - 1 };
                for (va, vb) in [(max - 0x10, max), (max, max - 0x10), (max >> 1, (max >> 1) + 1), (1, 0)] {
                    jobs.push(Job { font: name, base: bytes, f: a.clone(), val: va, f2: Some((b.clone(), vb)), all_groups: thorough });
                }
            }
            // pairs of adjacent header fields, at least one count-like: (start, count), (first, last),
            // (count, size) ... jointly at the ends of their ranges
            let mut pairs: Vec<(&FieldLoc, &FieldLoc)> = fields
                .windows(2)
                .filter(|w| w[0].table == tag && w[1].table == tag && w[1].pos == w[0].pos + w[0].width && !(w[0].path.ends_with(']') && w[1].path.ends_with(']')) && (w[0].class == 0 || w[1].class == 0) && w[0].width <= 4 && w[1].width <= 4)
                .map(|w| (&w[0], &w[1]))
                .collect();
            n_pairs += pairs.len();
            let cap = if thorough { 150 } else { 6 };
            let mut chosen = vec![];
            let head = (cap / 2).min(pairs.len());
            chosen.extend(pairs.drain(..head));
            while chosen.len() < cap && !pairs.is_empty() {
                let i = rng.below(pairs.len() as u64) as usize;
                chosen.push(pairs.swap_remove(i));
            }
            for (a, b) in chosen {
                let ma = (1u64 << (8 * a.width as u32)) - 1;
                let mb = (1u64 << (8 * b.width as u32)) - 1;
                for (va, vb) in [(0, 0), (ma, mb), (ma, 1), (1, mb), (0, mb), (ma, 0)] {
                    jobs.push(Job { font: name, base: bytes, f: a.clone(), val: va, f2: Some((b.clone(), vb)), all_groups: thorough });
                }
            }
        }
    }
    let n_jobs = jobs.len();
    let done = parallel(&jobs, worker_threads(), |job, ex| {
        let f = &job.f;
        let mut b = job.base.to_vec();
        let mut v = job.val;
        let mut unchanged = true;
        for k in (0..f.width).rev() {
            let nb = (v & 0xFF) as u8;
            if b[f.pos + k] != nb {
                unchanged = false;
            }
            b[f.pos + k] = nb;
            v >>= 8;
        }
        let mut second = String::new();
        if let Some((f2, v2)) = &job.f2 {
            let mut v = *v2;
            for k in (0..f2.width).rev() {
                let nb = (v & 0xFF) as u8;
                if b[f2.pos + k] != nb {
                    unchanged = false;
                }
                b[f2.pos + k] = nb;
                v >>= 8;
            }
            second = format!(" field[{}@{}:u{}={:#x}]", f2.path, f2.pos, 8 * f2.width, v2);
        }
        if unchanged {
            ex.count("fields: mutant equals base (skipped)");
            return;
        }
        ex.count(&format!("fields-mutants:{}", f.table));
        let label = || format!("font={} mut=field[{}@{}:u{}={:#x}]{second}", job.font, f.path, f.pos, 8 * f.width, job.val);
        let g = if job.all_groups { Groups::ALL } else { Groups::for_table(f.table) };
        // thorough tier: count-like fields run the full size / location grid
        exercise_groups(ex, &label, &b, !(job.all_groups && f.class == 0 && job.f2.is_none()), g);
    });
    ex.absorb(done);
    format!(
        "field extremes: {located} verified numeric fields located by traversal in {} base fonts (count-like {}, other scalars {}, offsets {}; {lost} tables abandoned after a layout mismatch, {resyncs} resynchronisations), {n_jobs} single-field / adjacent-pair mutants ({n_kinds} field kinds, each mutated at least once; {n_pairs} adjacent element / header-field pairs available)",
        corpus.len() + synth.len(),
        by_class[0],
        by_class[1],
        by_class[2]
    )
}

/// every located numeric field of an IFT patch (header; for glyph keyed patches also the pass-through
/// GlyphPatches payload) set to its extremes: (field path, value, mutated patch)
pub fn patch_mutants(p: &[u8]) -> Vec<(String, u64, Vec<u8>)> {
    use read_fonts::tables::ift::{GlyphKeyedPatch, GlyphPatches, TableKeyedPatch};
    use read_fonts::{FontData, FontRead, FontReadWithArgs};
    let mut l = Locator { bytes: p, table: "patch", lo: 0, hi: p.len(), out: vec![], nodes: 0, lost_tables: 0, lost_at: vec![], resyncs: 0, visited: HashSet::new(), next_inst: 0, inst_stack: vec![] };
    if p.starts_with(b"ifgk") {
        if let Ok(t) = GlyphKeyedPatch::read(FontData::new(p)) {
            let flags = t.flags();
            l.table_at(&t, 0, "ifgk", 0);
            let start = p.len() - t.brotli_stream().len();
            if let Ok(g) = GlyphPatches::read_with_args(FontData::new(&p[start..]), &flags) {
                l.table_at(&g, start, "ifgk.payload", 0);
            }
        }
    } else if let Ok(t) = TableKeyedPatch::read(FontData::new(p)) {
        l.table_at(&t, 0, "iftk", 0);
    }
    let mut seen = HashSet::new();
    let mut out = vec![];
    for f in l.out {
        if !seen.insert((f.pos, f.width)) || f.path.ends_with(".format") {
            continue;
        }
        for v in extremes(f.width) {
            let mut b = p.to_vec();
            let mut x = v;
            for k in (0..f.width).rev() {
                b[f.pos + k] = (x & 0xFF) as u8;
                x >>= 8;
            }
            if b != p {
                out.push((format!("{}@{}:u{}", f.path, f.pos, 8 * f.width), v, b));
            }
        }
    }
    out
}


// ------------------------------------------------------------- enum field x degenerate geometry (COLR / CPAL)

fn last_name(path: &str) -> &str {
    let n = path.rsplit('.').next().unwrap_or(path);
    n.split('[').next().unwrap_or(n)
}

fn enum_like(f: &FieldLoc) -> bool {
    let n = last_name(&f.path);
    f.width <= 2 && f.class != 2 && (n.ends_with("extend") || n.contains("mode") || n.ends_with("format") || n.ends_with("type") || n.ends_with("types"))
}

fn put(b: &mut [u8], f: &FieldLoc, v: u64) {
    let mut v = v;
    for k in (0..f.width).rev() {
        b[f.pos + k] = (v & 0xFF) as u8;
        v >>= 8;
    }
}

/// degenerate shapes of the numeric neighbours of an enum field: applied to the fields of one table instance
const SHAPES: [&str; 9] = ["none", "zero", "equal-0x4000", "max", "0x7f..", "0x80..", "descending", "counts=0", "counts=1"];

fn apply_shape(b: &mut [u8], fields: &[&FieldLoc], shape: &str) {
    let mut k = 0u64;
    for f in fields {
        let n = last_name(&f.path);
        let count_like = n.contains("count") || n.starts_with("num");
        let bits = 8 * f.width as u32;
        let max = if bits == 64 { u64::MAX } else { (1u64 << bits) - 1 };
        match shape {
            "counts=0" | "counts=1" => {
                if count_like {
                    put(b, f, if shape == "counts=0" { 0 } else { 1 });
                }
            }
            _ if count_like => {}
            "zero" => put(b, f, 0),
            "equal-0x4000" => put(b, f, 0x4000 & max),
            "max" => put(b, f, max),
            "0x7f.." => put(b, f, max >> 1),
            "0x80.." => put(b, f, (max >> 1) + 1),
            "descending" => {
                put(b, f, (0x7000u64.saturating_sub(k * 0x100)) & max);
                k += 1;
            }
            _ => {}
        }
    }
}

struct EnumJob<'a> {
    font: &'a str,
    base: &'a [u8],
    e: FieldLoc,
    val: u64,
    own: Vec<FieldLoc>,
    parent: Vec<FieldLoc>,
    own_shape: &'static str,
    parent_shape: &'static str,
}

/// every enum-like byte / short field of COLR and CPAL swept over all its values IN COMBINATION with degenerate
/// shapes of the numeric fields of the same table instance (colour stops all equal / descending / at +-2 /
/// counts 0, 1 ...) and of the parent instance (gradient geometry, transforms, clip boxes), painted and
/// bounding-boxed at default and non-default locations
pub fn enum_geometry(cfg: &Config, ex: &mut Explorer, bases: &[(String, Vec<u8>)]) -> String {
    let thorough = cfg.thorough();
    let per_kind = if thorough { 6 } else { 1 };
    let mut jobs: Vec<EnumJob> = vec![];
    let (mut n_enum, mut n_kinds) = (0usize, 0usize);
    for (name, bytes) in bases {
        let Ok(font) = FontRef::new(bytes) else { continue };
        if font.colr().is_err() {
            continue;
        }
        let (fields, _, _) = match catch(|| locate(bytes)) {
            Ok(x) => x,
            Err(_) => continue,
        };
        let fields: Vec<FieldLoc> = fields.into_iter().filter(|f| f.table == "COLR" || f.table == "CPAL").collect();
        let mut seen: std::collections::BTreeMap<String, usize> = Default::default();
        for e in fields.iter().filter(|f| enum_like(f)) {
            n_enum += 1;
            let kind: String = e.path.chars().filter(|c| !c.is_ascii_digit()).collect();
            let k = seen.entry(kind).or_insert(0);
            if *k >= per_kind {
                continue;
            }
            *k += 1;
            let neighbours = |inst: usize| -> Vec<FieldLoc> { fields.iter().filter(|f| f.inst == inst && f.class != 2 && !enum_like(f) && f.pos != e.pos).take(64).cloned().collect() };
            let own = neighbours(e.inst);
            let parent = if e.parent != 0 { neighbours(e.parent) } else { vec![] };
            let top: u64 = if e.width == 1 { 255 } else { 40 };
            let mut all_vals: Vec<u64> = (0..=top).collect();
            if e.width == 2 {
                all_vals.extend([0x7FFF, 0x8000, 0xFFFE, 0xFFFF, 0x00FF, 0x0100]);
            }
            let few: Vec<u64> = all_vals.iter().copied().filter(|v| *v <= 12 || [31, 32, 33, 127, 128, 254, 255, 0x7FFF, 0x8000, 0xFFFF].contains(v)).collect();
            for (oi, own_shape) in SHAPES.iter().enumerate() {
                for parent_shape in ["none", "zero", "equal-0x4000", "max", "0x80.."] {
                    if parent_shape != "none" && (parent.is_empty() || !(oi <= 2)) {
                        continue;
                    }
                    // all values with the three most telling shapes, a reduced set with the others
                    let full = parent_shape == "none" && oi <= 2;
                    for v in if full { &all_vals } else { &few } {
                        jobs.push(EnumJob { font: name, base: bytes, e: e.clone(), val: *v, own: own.clone(), parent: parent.clone(), own_shape, parent_shape });
                    }
                }
            }
        }
        n_kinds += seen.len();
    }
    let n_jobs = jobs.len();
    let done = parallel(&jobs, worker_threads(), |job, ex| {
        let mut b = job.base.to_vec();
        apply_shape(&mut b, &job.parent.iter().collect::<Vec<_>>(), job.parent_shape);
        apply_shape(&mut b, &job.own.iter().collect::<Vec<_>>(), job.own_shape);
        put(&mut b, &job.e, job.val);
        if b == job.base {
            return;
        }
        ex.count("enum-geometry:mutants");
        let label = || format!("font={} mut=enum[{}@{}:u{}={}] own-fields({})={} parent-fields({})={}", job.font, job.e.path, job.e.pos, 8 * job.e.width, job.val, job.own.len(), job.own_shape, job.parent.len(), job.parent_shape);
        exercise_groups(ex, &label, &b, true, Groups { color: true, ..Groups::NONE });
    });
    ex.absorb(done);
    format!("enum x degenerate geometry (COLR/CPAL): {n_enum} enum-like fields of {n_kinds} kinds, {n_jobs} (value, own shape, parent shape) mutants")
}
