//! Hostile glyf byte streams (built by hand, no write-fonts validation) through EVERY scaler configuration.
//!
//! Glyph records with contour end points, flag repeats, coordinate sizes, instruction lengths and
//! component records at and beyond their limits:
//!  * big simple glyphs (run-length flags, zero deltas: 40000 points are ~330 bytes) and composites whose
//!    components total 65530 .. 65537, 70000 and 200000 points (the u16 point-index limit and the phantom
//!    points around it), composites totalling > 65535 contours;
//!  * simple glyphs whose end points are descending / equal / 0xFFFF / beyond the data, whose flag repeats
//!    end one short of, exactly at and 1 .. 255 beyond the point count (first / middle / last flag byte),
//!    whose coordinate arrays are truncated, whose instruction length exceeds the data or is 0xFFFF;
//!  * composites with truncated records, every argument / scale form, MORE_COMPONENTS on the last record,
//!    component ids beyond numGlyphs, self reference, deep nesting, point-matching anchors beyond the
//!    point arrays, WE_HAVE_INSTRUCTIONS with huge lengths.
//! Consumers per glyph: read-fonts (`points()`, `read_points_fast`, components, bbox), glyph metrics,
//! and drawing with both `PathStyle`s x {unhinted, interpreter mono / smooth, autohinter} x {library
//! memory, caller memory of the advertised size, of 64 bytes, of 0 bytes} x sizes {unscaled, 16, 1000}.
//!
//! Replay: `synth=glyf-hostile font=<family> gid=<n> (<what>) record=<hex or summary>`.
use crate::explore::{parallel, worker_threads, Explorer};
use crate::synth::{build_records, Spec};
use fv_harness::common::*;
use read_fonts::tables::glyf::{Glyph as RGlyph, PointFlags};
use read_fonts::types::{GlyphId, Point};
use read_fonts::{FontRef, TableProvider};
use skrifa::{
    instance::{Location, Size},
    outline::{pen::PathStyle, DrawSettings, Engine, HintingInstance, HintingOptions, OutlinePen, SmoothMode, Target},
    MetadataProvider,
};

struct NullPen;
impl OutlinePen for NullPen {
    fn move_to(&mut self, _x: f32, _y: f32) {}
    fn line_to(&mut self, _x: f32, _y: f32) {}
    fn quad_to(&mut self, _a: f32, _b: f32, _x: f32, _y: f32) {}
    fn curve_to(&mut self, _a: f32, _b: f32, _c: f32, _d: f32, _x: f32, _y: f32) {}
    fn close(&mut self) {}
}

fn header(n_contours: i16) -> Vec<u8> {
    let mut b = n_contours.to_be_bytes().to_vec();
    for v in [-100i16, -100, 1000, 1000] {
        b.extend_from_slice(&v.to_be_bytes());
    }
    b
}

/// simple glyph: explicit end points, declared instruction length, instruction bytes, flag + coordinate bytes
pub fn simple(ends: &[u16], instr_len: u16, instr: &[u8], tail: &[u8]) -> Vec<u8> {
    let mut b = header(ends.len() as i16);
    for e in ends {
        b.extend_from_slice(&e.to_be_bytes());
    }
    b.extend_from_slice(&instr_len.to_be_bytes());
    b.extend_from_slice(instr);
    b.extend_from_slice(tail);
    b
}

/// `n` on-curve points at the origin (flag 0x31 = on curve, x same, y same: no coordinate bytes),
/// run-length encoded; `contours` contours of equal size
pub fn big(n: u32, contours: u32) -> Vec<u8> {
    if n == 0 {
        return vec![];
    }
    let contours = contours.clamp(1, n);
    let ends: Vec<u16> = (1..=contours).map(|c| ((n as u64 * c as u64 / contours as u64) - 1) as u16).collect();
    let mut flags = vec![];
    let mut left = n;
    while left > 0 {
        let run = left.min(256);
        if run == 1 {
            flags.push(0x31);
        } else {
            flags.push(0x39);
            flags.push((run - 1) as u8);
        }
        left -= run;
    }
    simple(&ends, 0, &[], &flags)
}

pub const ARGS_WORDS: u16 = 0x0001;
pub const ARGS_XY: u16 = 0x0002;
pub const MORE: u16 = 0x0020;

/// composite glyph from (flags, gid, argument bytes + transform bytes) records; MORE_COMPONENTS is set on
/// all but the last record unless the caller put it into the flags
pub fn composite(parts: &[(u16, u16, Vec<u8>)], tail: &[u8]) -> Vec<u8> {
    let mut b = header(-1);
    for (i, (flags, gid, rest)) in parts.iter().enumerate() {
        let f = if i + 1 < parts.len() { flags | MORE } else { *flags };
        b.extend_from_slice(&f.to_be_bytes());
        b.extend_from_slice(&gid.to_be_bytes());
        b.extend_from_slice(rest);
    }
    b.extend_from_slice(tail);
    b
}

fn xy(gid: u16) -> (u16, u16, Vec<u8>) {
    (ARGS_XY, gid, vec![0, 0])
}

struct Case {
    family: &'static str,
    what: String,
    records: Vec<Vec<u8>>,
    /// glyph ids to exercise
    gids: Vec<u32>,
}

fn font_of(records: &[Vec<u8>]) -> Vec<u8> {
    let spec = Spec { upem: 1000, advances: (0..records.len()).map(|_| (500u16, 0i16)).collect(), glyphs: vec![], cvt: vec![0, 64], fpgm: vec![0xB0, 0, 0x2C, 0x21, 0x2D], prep: vec![0xB0, 0, 0x21], ascender: 800, descender: -200 };
    build_records(&spec, records, 0xFFFF, 0xFFFF, 0xFFFF, (0xFFFF, 0xFFFF, 64, 16))
}

fn cases(thorough: bool) -> Vec<Case> {
    let mut out = vec![];
    // ---- point totals around the u16 limit
    {
        // 0: empty, 1: 65530 points, 2..=9: 0..=7 points, 10: 40000, 11: 30000, 12: 65535, 13: 65536 (wraps), 14: 1 point
        let mut recs: Vec<Vec<u8>> = vec![vec![], big(65530, 3)];
        for k in 0..=7u32 {
            recs.push(big(k, 1));
        }
        recs.push(big(40000, 2));
        recs.push(big(30000, 1));
        recs.push(big(65535, 1));
        recs.push(big(40000, 40000));
        recs.push(big(1, 1));
        let first_comp = recs.len() as u32;
        for k in 0..=7u16 {
            recs.push(composite(&[xy(1), xy(2 + k)], &[])); // 65530 + k
        }
        recs.push(composite(&[xy(10), xy(11)], &[])); // 70000
        recs.push(composite(&[xy(10), xy(10), xy(10), xy(10), xy(10)], &[])); // 200000
        recs.push(composite(&[xy(12), xy(14)], &[])); // 65536
        recs.push(composite(&[xy(13), xy(13)], &[])); // 80000 contours
        recs.push(composite(&[xy(12)], &[])); // 65535 + phantoms
        let n = recs.len() as u32;
        // nested: composite of composites
        recs.push(composite(&[xy((first_comp + 3) as u16), xy((first_comp + 3) as u16)], &[]));
        let mut gids: Vec<u32> = vec![1, 10, 12, 13];
        gids.extend(first_comp..=n);
        out.push(Case { family: "point-totals", what: "simple 65530/40000/30000/65535 points, composites totalling 65530..65537, 70000, 200000 points, 80000 contours".into(), records: recs, gids });
    }
    // ---- hostile simple glyphs
    {
        let mut recs: Vec<Vec<u8>> = vec![vec![]];
        let mut what = vec!["empty".to_string()];
        let mut add = |w: String, r: Vec<u8>| {
            what.push(w);
            recs.push(r);
        };
        let pad = vec![0u8; 600];
        // end points
        for ends in [vec![5u16, 3], vec![3, 3], vec![0xFFFF], vec![0xFFFE], vec![0, 0xFFFF], vec![10, 5, 0xFFFF], vec![0x7FFF, 0x8000], vec![1000], vec![0xFFFF, 3], vec![0xFFFE, 0], vec![25536, 3], vec![3, 0xFFFF, 5], vec![0x8000, 0x7FFF, 9]] {
            add(format!("ends={ends:?} zero flags"), simple(&ends, 0, &[], &pad));
            add(format!("ends={ends:?} no data"), simple(&ends, 0, &[], &[]));
        }
        // flag repeats around the point count: total points `t`, prefix of k plain flags, then a repeat
        for t in [1u16, 2, 10, 300] {
            for k in [0u16, 1, t.saturating_sub(2)] {
                if k >= t {
                    continue;
                }
                let left = (t - k) as i32;
                for over in [-1i32, 0, 1, 2, 100, 255 - left + 1, 255] {
                    let rep = left + over - 1; // repeat byte: covers rep + 1 flags
                    if !(0..=255).contains(&rep) {
                        continue;
                    }
                    for flag in [0x09u8, 0x3F, 0x08] {
                        let mut tail: Vec<u8> = vec![0x01; k as usize];
                        tail.push(flag);
                        tail.push(rep as u8);
                        tail.extend_from_slice(&[0x01, 0x09, 0xFF, 0x01]);
                        tail.extend_from_slice(&pad);
                        add(format!("points={t} prefix={k} repeat={rep} (ends {over:+} past the point count) flag={flag:#x}"), simple(&[t - 1], 0, &[], &tail));
                    }
                }
            }
        }
        // truncated coordinates
        for flag in [0x02u8, 0x04, 0x06, 0x00, 0x16, 0x36] {
            for have in [0usize, 1, 3] {
                let mut tail = vec![flag; 4];
                tail.extend(std::iter::repeat(0x7F).take(have));
                add(format!("4 points flag={flag:#x} coordinate bytes={have}"), simple(&[3], 0, &[], &tail));
            }
        }
        // instruction lengths
        for (decl, have) in [(0xFFFFu16, 0usize), (0xFFFF, 10), (10, 0), (10, 9), (10, 10), (0x8000, 0x8000), (0xFFFF, 0xFFFF)] {
            let ins = vec![0x21u8; have];
            add(format!("instruction length declared={decl} present={have}"), simple(&[1], decl, &ins, &[1, 1, 0, 0]));
        }
        // contour counts
        for nc in [0i16, 0x7FFF, 0x4000, -2, -32768] {
            let mut r = header(nc);
            r.extend_from_slice(&[0, 0, 0, 0, 1, 1, 0, 0]);
            add(format!("numberOfContours={nc} with 8 bytes"), r);
        }
        // every hostile simple glyph again as the NON-first component of a composite, behind a first
        // component of 1, 4 and 40000 points (contour end points are shifted by the points loaded so far)
        let n_simple = recs.len() as u16;
        let firsts: Vec<u16> = [big(1, 1), big(4, 2), big(40000, 3)]
            .into_iter()
            .map(|r| {
                recs.push(r);
                recs.len() as u16 - 1
            })
            .collect();
        for g in 1..n_simple {
            for f in &firsts {
                recs.push(composite(&[xy(*f), xy(g)], &[]));
            }
        }
        what.push(format!("each of the {} simple glyphs as second component behind 1 / 4 / 40000 points", n_simple - 1));
        let gids = (1..recs.len() as u32).collect();
        out.push(Case { family: "hostile-simple", what: what.join(" | "), records: recs, gids });
    }
    // ---- hostile composites
    {
        // 1: triangle-ish simple (4 points), 2: one point
        let tri = simple(&[3], 0, &[], &[1, 1, 1, 1, 0, 10, 0, 10, 0, 10, 0, 10, 0, 10, 0, 10, 0, 10, 0, 10]);
        let mut recs: Vec<Vec<u8>> = vec![vec![], tri, big(1, 1)];
        let first = recs.len() as u32;
        let words = |a: i16, b: i16| [a.to_be_bytes(), b.to_be_bytes()].concat();
        // argument forms
        for (flags, rest) in [
            (ARGS_XY, vec![0x7F, 0x80]),
            (ARGS_XY | ARGS_WORDS, words(i16::MAX, i16::MIN)),
            (ARGS_XY | ARGS_WORDS | 0x0800, words(i16::MIN, i16::MIN)), // SCALED_COMPONENT_OFFSET
            (0, vec![0xFF, 0xFF]),                                       // point matching, indices 255
            (ARGS_WORDS, words(-1, -1)),                                 // point matching 0xFFFF
            (ARGS_WORDS, words(3, 0)),
            (ARGS_XY | 0x0008, [vec![0, 0], (i16::MIN).to_be_bytes().to_vec()].concat()), // scale
            (ARGS_XY | 0x0040, [vec![0, 0], words(i16::MAX, i16::MIN)].concat()),          // x/y scale
            (ARGS_XY | 0x0080, [vec![0, 0], words(i16::MIN, i16::MAX), words(i16::MAX, i16::MIN)].concat()), // 2x2
            (ARGS_XY | 0x0008 | 0x0040 | 0x0080, vec![0, 0]),                               // contradictory, truncated
            (ARGS_XY | 0x0004, vec![1, 1]),                                                  // ROUND_XY_TO_GRID
            (ARGS_XY | 0x0200, vec![0, 0]),                                                  // USE_MY_METRICS
        ] {
            recs.push(composite(&[(flags, 1, rest.clone()), (flags, 2, rest.clone())], &[]));
            recs.push(composite(&[(flags, 1, rest[..rest.len() / 2].to_vec())], &[])); // truncated
        }
        // MORE_COMPONENTS on the last record, gid beyond numGlyphs, instructions
        recs.push(composite(&[(ARGS_XY | MORE, 1, vec![0, 0])], &[]));
        recs.push(composite(&[(ARGS_XY, 0xFFFF, vec![0, 0])], &[]));
        recs.push(composite(&[(ARGS_XY, 5000, vec![0, 0])], &[]));
        for (decl, have) in [(0xFFFFu16, 0usize), (4, 4), (4, 3), (0xFFFF, 0xFFFF)] {
            let mut tail = decl.to_be_bytes().to_vec();
            tail.extend(std::iter::repeat(0x21u8).take(have));
            recs.push(composite(&[(ARGS_XY | 0x0100, 1, vec![0, 0])], &tail));
        }
        // self reference and deep nesting
        let me = recs.len() as u16;
        recs.push(composite(&[xy(me)], &[]));
        let chain_start = recs.len() as u16;
        let depth = if thorough { 200 } else { 70 };
        for d in 0..depth {
            recs.push(composite(&[xy(if d + 1 < depth { chain_start + d + 1 } else { 1 })], &[]));
        }
        // wide: 5000 components of one point
        recs.push(composite(&(0..5000).map(|_| xy(2)).collect::<Vec<_>>(), &[]));
        let gids = (first..recs.len() as u32).collect();
        out.push(Case { family: "hostile-composite", what: "argument / scale forms, truncations, MORE on the last record, gids beyond numGlyphs, instruction lengths, self reference, nesting chain, 5000 components".into(), records: recs, gids });
    }
    out
}

/// every reader / scaler configuration on one glyph
pub fn exercise_glyph(ex: &mut Explorer, label: &dyn Fn() -> String, font: &FontRef, gid: u32) {
    let g = GlyphId::new(gid);
    ex.op(label, "read-fonts glyph", &mut || {
        let (Ok(loca), Ok(glyf)) = (font.loca(None), font.glyf()) else { return };
        let Ok(Some(glyph)) = loca.get_glyf(g, &glyf) else { return };
        match glyph {
            RGlyph::Simple(s) => {
                let n = s.num_points();
                let _ = s.points().take(70_000).count();
                let _ = s.has_overlapping_contours();
                let _ = s.instructions().len();
                if n <= 70_000 {
                    let mut pts = vec![Point::<i32>::default(); n];
                    let mut fl = vec![PointFlags::default(); n];
                    let _ = s.read_points_fast(&mut pts, &mut fl);
                    let mut ptf = vec![Point::<f32>::default(); n];
                    let _ = s.read_points_fast(&mut ptf, &mut fl);
                }
                let _ = (s.x_min(), s.y_max());
            }
            RGlyph::Composite(c) => {
                let _ = c.components().take(70_000).map(|c| c.glyph.to_u32() as u64).sum::<u64>();
                let _ = c.count_and_instructions();
                let _ = c.instructions();
                let _ = c.component_glyphs_and_flags().take(70_000).count();
            }
        }
    });
    ex.op(label, "glyph metrics", &mut || {
        let dloc = Location::default();
        for size in [Size::unscaled(), Size::new(16.0)] {
            let gm = font.glyph_metrics(size, &dloc);
            let _ = (gm.advance_width(g), gm.left_side_bearing(g), gm.bounds(g));
        }
    });
    let outlines = font.outline_glyphs();
    let Some(glyph) = outlines.get(g) else { return };
    let loc = Location::default();
    let mems: [Option<usize>; 4] = [None, Some(usize::MAX), Some(64), Some(0)];
    for style in [PathStyle::FreeType, PathStyle::HarfBuzz] {
        for (sn, size) in [("unscaled", Size::unscaled()), ("16", Size::new(16.0)), ("1000", Size::new(1000.0))] {
            for mem in mems {
                let name = format!("draw-unhinted style={style:?} size={sn} memory={mem:?}");
                ex.op(label, &name, &mut || {
                    let need = glyph.draw_memory_size(skrifa::outline::Hinting::None);
                    let mut buf: Vec<u8> = vec![0; mem.map(|m| m.min(need)).unwrap_or(0)];
                    let settings = DrawSettings::unhinted(size, &loc).with_path_style(style);
                    let settings = if mem.is_some() { settings.with_memory(Some(&mut buf)) } else { settings };
                    let _ = glyph.draw(settings, &mut NullPen);
                });
            }
        }
    }
    for (en, engine) in [("interp", Engine::Interpreter), ("auto", Engine::Auto(None))] {
        for (tn, target) in [("mono", Target::Mono), ("smooth", Target::Smooth { mode: SmoothMode::Normal, symmetric_rendering: true, preserve_linear_metrics: false })] {
            for (sn, size) in [("16", Size::new(16.0)), ("1000", Size::new(1000.0))] {
                let mut inst = None;
                ex.op(label, &format!("HintingInstance::new engine={en} target={tn} size={sn}"), &mut || {
                    inst = HintingInstance::new(&outlines, size, &loc, HintingOptions { engine: engine.clone(), target }).ok();
                });
                let Some(inst) = inst else { continue };
                for style in [PathStyle::FreeType, PathStyle::HarfBuzz] {
                    for mem in mems {
                        for pedantic in [false, true] {
                            let name = format!("draw-hinted engine={en} target={tn} size={sn} style={style:?} memory={mem:?} pedantic={pedantic}");
                            ex.op(label, &name, &mut || {
                                let need = glyph.draw_memory_size(skrifa::outline::Hinting::Embedded);
                                let mut buf: Vec<u8> = vec![0; mem.map(|m| m.min(need)).unwrap_or(0)];
                                let settings = DrawSettings::hinted(&inst, pedantic).with_path_style(style);
                                let settings = if mem.is_some() { settings.with_memory(Some(&mut buf)) } else { settings };
                                let _ = glyph.draw(settings, &mut NullPen);
                            });
                        }
                    }
                }
            }
        }
    }
}

pub fn run(cfg: &Config, ex: &mut Explorer) {
    let cs = cases(cfg.thorough());
    let fonts: Vec<(usize, Vec<u8>)> = cs.iter().enumerate().map(|(i, c)| (i, font_of(&c.records))).collect();
    let mut jobs: Vec<(usize, u32)> = vec![];
    for (i, c) in cs.iter().enumerate() {
        for g in &c.gids {
            jobs.push((i, *g));
        }
    }
    let n_jobs = jobs.len();
    let done = parallel(&jobs, worker_threads(), |(i, gid), ex| {
        let c = &cs[*i];
        let Ok(font) = FontRef::new(&fonts[*i].1) else { return };
        let rec = &c.records[*gid as usize];
        let label = || format!("synth=glyf-hostile font={} gid={gid} record={}", c.family, if rec.len() <= 120 { hex(rec) } else { format!("{}..({} bytes)", hex(&rec[..48]), rec.len()) });
        exercise_glyph(ex, &label, &font, *gid);
        ex.count(&format!("glyf-hostile:{}", c.family));
    });
    ex.absorb(done);
    ex.notes.push(format!("hostile glyf streams: {} fonts, {n_jobs} glyphs x every scaler configuration ({})", cs.len(), cs.iter().map(|c| format!("{}: {}", c.family, c.what.chars().take(160).collect::<String>())).collect::<Vec<_>>().join("; ")));
}
