//! CFF / CFF2 charstring and DICT OPERAND SWEEPS.
//!
//! Every charstring operator (one byte 0..=31, escape 12 x for x in 0..=38) with operands from VALUES
//! (i16 extremes, -1, 0, 1, 2, 47, 48, 49, 512, 513, the subroutine-bias boundaries, 16.16 extremes) as
//! all / top / bottom operand at several arities, plus the count-taking operators with NEGATIVE and oversized
//! counts: `blend n` (with and without enough operands), `vsindex` out of range, `callsubr` / `callgsubr`
//! indices against subroutine INDEXes of every bias class (0, 1, 1239, 1240, 33899, 33900 entries),
//! `hintmask` / `cntrmask` with 0 / 1 / 47 / 95 / 96 / 97 / 200 stems and short masks, the flex operators.
//! Each program runs through `charstring::evaluate` with no blend state and with variation stores of
//! 0, 1, 2 and 200 active regions, and (a reduced set) patched over the start of a glyph's charstring in
//! the CFF / CFF2 corpus fonts and drawn through skrifa unhinted and hinted at two sizes and locations.
//! DICT operators likewise through `dict::entries` (with the same blend states) and patched over the start
//! of the Private DICT of the CFF / CFF2 fonts (hinted draws read BlueValues, StemSnap, blend ...).
//!
//! Replay: `ps=<charstring|dict> regions=<n> prog=<hex>` / `ps=font-<charstring|private-dict> font=<name>
//! gid=<n> prog=<hex>`.
use crate::explore::{parallel, worker_threads, Explorer};
use fv_harness::common::*;
use read_fonts::tables::postscript::{
    charstring::{self, CommandSink},
    dict, BlendState, Index,
};
use read_fonts::tables::variations::ItemVariationStore;
use read_fonts::types::{F2Dot14, Fixed, GlyphId};
use read_fonts::{FontData, FontRead, FontRef, TableProvider};
use skrifa::{
    instance::{Location, Size},
    outline::{DrawSettings, Engine, HintingInstance, HintingOptions, OutlinePen, SmoothMode, Target},
    MetadataProvider,
};

struct NopSink;
impl CommandSink for NopSink {
    fn move_to(&mut self, _x: Fixed, _y: Fixed) {}
    fn line_to(&mut self, _x: Fixed, _y: Fixed) {}
    fn curve_to(&mut self, _: Fixed, _: Fixed, _: Fixed, _: Fixed, _: Fixed, _: Fixed) {}
    fn close(&mut self) {}
}
struct NopPen;
impl OutlinePen for NopPen {
    fn move_to(&mut self, _x: f32, _y: f32) {}
    fn line_to(&mut self, _x: f32, _y: f32) {}
    fn quad_to(&mut self, _: f32, _: f32, _: f32, _: f32) {}
    fn curve_to(&mut self, _: f32, _: f32, _: f32, _: f32, _: f32, _: f32) {}
    fn close(&mut self) {}
}

#[derive(Clone, Copy, Debug)]
pub enum Num {
    Int(i32),
    /// 16.16 bits (charstring operand 255) / BCD real index (DICT operand 30)
    Fixed(u32),
}

pub const VALUES: [Num; 26] = [
    Num::Int(-32768),
    Num::Int(32767),
    Num::Int(-1),
    Num::Int(0),
    Num::Int(1),
    Num::Int(2),
    Num::Int(47),
    Num::Int(48),
    Num::Int(49),
    Num::Int(512),
    Num::Int(513),
    Num::Int(-107),
    Num::Int(-108),
    Num::Int(107),
    Num::Int(108),
    Num::Int(-1131),
    Num::Int(-1132),
    Num::Int(1131),
    Num::Int(1132),
    Num::Int(-32767),
    Num::Int(95),
    Num::Fixed(0x8000_0000),
    Num::Fixed(0x7FFF_FFFF),
    Num::Fixed(0xFFFF_FFFF),
    Num::Fixed(0x0001_0000),
    Num::Fixed(0x7FFF_0000),
];

fn enc_int(out: &mut Vec<u8>, v: i32, dict: bool) {
    match v {
        -107..=107 => out.push((v + 139) as u8),
        108..=1131 => {
            let w = v - 108;
            out.push((w >> 8) as u8 + 247);
            out.push(w as u8);
        }
        -1131..=-108 => {
            let w = -v - 108;
            out.push((w >> 8) as u8 + 251);
            out.push(w as u8);
        }
        -32768..=32767 => {
            out.push(28);
            out.extend_from_slice(&(v as i16).to_be_bytes());
        }
        _ if dict => {
            out.push(29);
            out.extend_from_slice(&v.to_be_bytes());
        }
        _ => {
            out.push(255);
            out.extend_from_slice(&v.to_be_bytes());
        }
    }
}

/// BCD reals for DICT data
const REALS: [&[u8]; 5] = [&[0x0a, 0x5f], &[0xe1, 0xb3, 0x0f], &[0x1c, 0x30, 0xff], &[0x99, 0x99, 0x99, 0x99, 0x9b, 0x99, 0xff], &[0xff]];

fn enc(out: &mut Vec<u8>, n: Num, dict: bool) {
    match n {
        Num::Int(v) => enc_int(out, v, dict),
        Num::Fixed(bits) => {
            if dict {
                // i32 operand and a BCD real alternately
                if bits & 1 == 0 {
                    out.push(29);
                    out.extend_from_slice(&bits.to_be_bytes());
                } else {
                    out.push(30);
                    out.extend_from_slice(REALS[(bits >> 16) as usize % REALS.len()]);
                }
            } else {
                out.push(255);
                out.extend_from_slice(&bits.to_be_bytes());
            }
        }
    }
}

fn op_bytes(op: u16) -> Vec<u8> {
    if op >= 0x100 {
        vec![12, (op & 0xFF) as u8]
    } else {
        vec![op as u8]
    }
}

/// operand sweep programs for one operator
fn sweep(op: u16, arities: &[usize], dict: bool, out: &mut Vec<Vec<u8>>) {
    for &n in arities {
        for v in VALUES {
            for form in 0..3 {
                let mut p = vec![];
                for i in 0..n {
                    let x = match form {
                        0 => v,
                        1 if i + 1 == n => v,
                        2 if i == 0 => v,
                        _ => Num::Int(1),
                    };
                    enc(&mut p, x, dict);
                }
                p.extend(op_bytes(op));
                out.push(p);
                if n == 1 {
                    break;
                }
            }
        }
    }
}

fn charstring_programs(thorough: bool) -> Vec<Vec<u8>> {
    let mut out = vec![];
    let arities: &[usize] = if thorough { &[0, 1, 2, 3, 4, 5, 6, 7, 8, 11, 13, 48] } else { &[1, 2, 4, 6, 7, 13] };
    let mut ops: Vec<u16> = (0u16..=31).filter(|o| *o != 28 && *o != 12).collect();
    ops.extend((0u16..=38).map(|x| 0x100 | x));
    ops.push(0x1FF);
    for op in ops {
        sweep(op, arities, false, &mut out);
    }
    let ints = |v: &[i32]| {
        let mut p = vec![];
        for x in v {
            enc_int(&mut p, *x, false);
        }
        p
    };
    // blend: n target values with (regions) deltas each, for the region counts the stores below have
    for n in [-32768i32, -32767, -2, -1, 0, 1, 2, 47, 48, 49, 512, 513, 32767] {
        for regions in [0usize, 1, 2, 200] {
            for supplied in [0usize, 1, (n.clamp(0, 20) as usize) * (regions.min(20) + 1), 40] {
                let mut p = ints(&vec![3; supplied.min(400)]);
                enc_int(&mut p, n, false);
                p.push(16);
                p.extend_from_slice(&[21]); // rmoveto on what is left
                out.push(p);
            }
        }
    }
    // vsindex then blend
    for v in VALUES {
        let mut p = vec![];
        enc(&mut p, v, false);
        p.push(15);
        p.extend(ints(&[1, 2, 1]));
        p.push(16);
        out.push(p);
    }
    // subroutine calls
    for v in VALUES {
        for op in [10u8, 29] {
            let mut p = vec![];
            enc(&mut p, v, false);
            p.push(op);
            out.push(p.clone());
            // with operands below the index
            let mut q = ints(&[1, 2, 3]);
            q.extend(p);
            out.push(q);
        }
    }
    // stems and masks
    for stems in [0usize, 1, 8, 47, 48, 95, 96, 97, 200] {
        let mut p = vec![];
        let mut left = stems;
        while left > 0 {
            let k = left.min(20);
            p.extend(ints(&vec![1; 2 * k]));
            p.push(if left % 2 == 0 { 18 } else { 23 }); // hstemhm / vstemhm
            left -= k;
        }
        for mask_op in [19u8, 20] {
            for mask_len in [0usize, stems / 8, stems.div_ceil(8), stems.div_ceil(8) + 1] {
                let mut q = p.clone();
                q.push(mask_op);
                q.extend(std::iter::repeat(0xFF).take(mask_len));
                q.extend(ints(&[10, 10]));
                q.push(21);
                out.push(q);
            }
            // implicit vstem operands before the mask
            let mut q = p.clone();
            q.extend(ints(&[5, 5, 5, 5]));
            q.push(mask_op);
            q.extend_from_slice(&[0xAA; 13]);
            out.push(q);
        }
    }
    out
}

fn dict_programs(thorough: bool) -> Vec<Vec<u8>> {
    let mut out = vec![];
    let arities: &[usize] = if thorough { &[0, 1, 2, 3, 4, 6, 7, 13, 14, 15, 48, 49, 513] } else { &[1, 2, 4, 6, 14, 15, 49] };
    let mut ops: Vec<u16> = (0u16..=27).filter(|o| *o != 12).collect();
    ops.extend((0u16..=41).map(|x| 0x100 | x));
    for op in ops {
        sweep(op, arities, true, &mut out);
    }
    // blend inside a DICT: counts incl. negative, then an operator that consumes the result
    for n in [-32768i32, -1, 0, 1, 2, 7, 13, 14, 48, 513, 32767] {
        for supplied in [0usize, 1, 4, 14, 60] {
            for consumer in [6u16, 7, 10, 11, 0x10C, 0x109] {
                let mut p = vec![];
                for _ in 0..supplied {
                    enc_int(&mut p, 5, true);
                }
                enc_int(&mut p, n, true);
                p.push(23);
                p.extend(op_bytes(consumer));
                out.push(p);
            }
        }
    }
    for v in VALUES {
        let mut p = vec![];
        enc(&mut p, v, true);
        p.push(22); // vsindex
        enc_int(&mut p, 1, true);
        enc_int(&mut p, 1, true);
        enc_int(&mut p, 1, true);
        p.push(23);
        p.push(6);
        out.push(p);
    }
    out
}

/// CFF-style INDEX of `count` one-byte subroutines (`body`), `is_cff2` selects the count width
fn index_bytes(count: usize, body: u8, is_cff2: bool) -> Vec<u8> {
    let mut b = vec![];
    if is_cff2 {
        b.extend_from_slice(&(count as u32).to_be_bytes());
    } else {
        b.extend_from_slice(&(count as u16).to_be_bytes());
    }
    if count == 0 {
        return b;
    }
    b.push(3);
    for i in 0..=count {
        b.extend_from_slice(&((i + 1) as u32).to_be_bytes()[1..]);
    }
    b.extend(std::iter::repeat(body).take(count));
    b
}

/// variation stores with `regions` regions, all active at coordinate 0.5
fn stores() -> Vec<(usize, Vec<u8>)> {
    [0usize, 1, 2, 200]
        .iter()
        .map(|&r| {
            let regions: Vec<Vec<(i16, i16, i16)>> = (0..r).map(|_| vec![(0i16, 16384i16, 16384i16)]).collect();
            let cols: Vec<(u16, i32)> = (0..r).map(|i| (i as u16, 1)).collect();
            (r, crate::kernels::ivs_bytes(1, &regions, &cols).0)
        })
        .collect()
}

fn patch_targets(bytes: &[u8]) -> Option<(bool, Vec<(u32, usize, usize)>, Option<(usize, usize)>)> {
    // (is_cff2, [(gid, absolute position, length) of charstrings], private dict (position, length))
    let font = FontRef::new(bytes).ok()?;
    let (table, top, is_cff2): (&[u8], &[u8], bool) = if let Ok(c2) = font.cff2() {
        (c2.offset_data().as_bytes(), c2.top_dict_data(), true)
    } else {
        let c = font.cff().ok()?;
        (c.offset_data().as_bytes(), c.top_dicts().get(0).ok()?, false)
    };
    let base = table.as_ptr() as usize - bytes.as_ptr() as usize;
    let (mut cs_off, mut private, mut fd_array) = (None, None, None);
    for e in dict::entries(top, None).flatten() {
        match e {
            dict::Entry::CharstringsOffset(o) => cs_off = Some(o),
            dict::Entry::PrivateDictRange(r) => private = Some(r),
            dict::Entry::FdArrayOffset(o) => fd_array = Some(o),
            _ => {}
        }
    }
    if private.is_none() {
        if let Some(o) = fd_array {
            if let Ok(ix) = Index::new(table.get(o..)?, is_cff2) {
                if let Ok(fd) = ix.get(0) {
                    for e in dict::entries(fd, None).flatten() {
                        if let dict::Entry::PrivateDictRange(r) = e {
                            private = Some(r);
                        }
                    }
                }
            }
        }
    }
    let cs = Index::new(table.get(cs_off?..)?, is_cff2).ok()?;
    let mut glyphs = vec![];
    for gid in 0..cs.count().min(40) {
        if let Ok(d) = cs.get(gid as usize) {
            if d.len() >= 24 {
                glyphs.push((gid, d.as_ptr() as usize - bytes.as_ptr() as usize, d.len()));
            }
        }
    }
    let private = private.and_then(|r| if r.end <= table.len() && r.end > r.start { Some((base + r.start, r.end - r.start)) } else { None });
    Some((is_cff2, glyphs, private))
}

fn draw_glyph(ex: &mut Explorer, label: &dyn Fn() -> String, bytes: &[u8], gid: u32) {
    let Ok(font) = FontRef::new(bytes) else { return };
    let outlines = font.outline_glyphs();
    let axes = font.axes();
    let locs = [Location::default(), axes.location(axes.iter().map(|a| (a.tag(), a.max_value())).collect::<Vec<_>>())];
    for (li, loc) in locs.iter().enumerate() {
        for (sn, size) in [("16", Size::new(16.0)), ("1000", Size::new(1000.0))] {
            ex.op(label, &format!("draw-unhinted size={sn} loc={li}"), &mut || {
                if let Some(g) = outlines.get(GlyphId::new(gid)) {
                    let _ = g.draw(DrawSettings::unhinted(size, loc), &mut NopPen);
                }
            });
            for (en, engine) in [("interp", Engine::Interpreter), ("auto", Engine::Auto(None))] {
                ex.op(label, &format!("draw-hinted engine={en} size={sn} loc={li}"), &mut || {
                    let opts = HintingOptions { engine: engine.clone(), target: Target::Smooth { mode: SmoothMode::Normal, symmetric_rendering: true, preserve_linear_metrics: false } };
                    if let Ok(inst) = HintingInstance::new(&outlines, size, loc, opts) {
                        if let Some(g) = outlines.get(GlyphId::new(gid)) {
                            let _ = g.draw(DrawSettings::hinted(&inst, false), &mut NopPen);
                            let _ = g.draw(DrawSettings::hinted(&inst, true), &mut NopPen);
                        }
                    }
                });
            }
        }
    }
}

// ---------------------------------------------------------------- CFF / CFF2 outlines at the u16 point-index limit

fn dict_int(out: &mut Vec<u8>, v: u32) {
    out.push(29);
    out.extend_from_slice(&v.to_be_bytes());
}

fn index_of(items: &[Vec<u8>], is_cff2: bool) -> Vec<u8> {
    let mut out = vec![];
    if is_cff2 {
        out.extend_from_slice(&(items.len() as u32).to_be_bytes());
    } else {
        out.extend_from_slice(&(items.len() as u16).to_be_bytes());
    }
    if items.is_empty() {
        return out;
    }
    out.push(4);
    let mut off = 1u32;
    out.extend_from_slice(&off.to_be_bytes());
    for it in items {
        off += it.len() as u32;
        out.extend_from_slice(&off.to_be_bytes());
    }
    for it in items {
        out.extend_from_slice(it);
    }
    out
}

/// a two-glyph CFF (version 1) or CFF2 font whose glyph 1 has the given charstring; Private DICT with
/// BlueValues so that the hinters have zones
pub fn cff_font(cs: &[u8], is_cff2: bool) -> Vec<u8> {
    let private: Vec<u8> = {
        let mut p = vec![];
        for v in [-15i32, 15, 685, 15] {
            enc_int(&mut p, v, true);
        }
        p.push(6);
        p
    };
    let gsubrs = index_of(&[vec![11]], is_cff2);
    let table = if is_cff2 {
        let top_len = 5 + 1 + 5 + 2;
        let mut t: Vec<u8> = vec![2, 0, 5];
        t.extend_from_slice(&(top_len as u16).to_be_bytes());
        let charstrings = index_of(&[vec![], cs.to_vec()], true);
        let cs_off = 5 + top_len + gsubrs.len();
        let fd_off = cs_off + charstrings.len();
        let mut font_dict = vec![];
        let fd_index_len = 4 + 1 + 8 + 11;
        let priv_off = fd_off + fd_index_len;
        dict_int(&mut font_dict, private.len() as u32);
        dict_int(&mut font_dict, priv_off as u32);
        font_dict.push(18);
        dict_int(&mut t, cs_off as u32);
        t.push(17);
        dict_int(&mut t, fd_off as u32);
        t.extend_from_slice(&[12, 36]);
        t.extend_from_slice(&gsubrs);
        t.extend_from_slice(&charstrings);
        t.extend_from_slice(&index_of(&[font_dict], true));
        t.extend_from_slice(&private);
        t
    } else {
        let mut t: Vec<u8> = vec![1, 0, 4, 4];
        t.extend_from_slice(&index_of(&[b"A".to_vec()], false));
        let top_len = 5 + 1 + 5 + 5 + 1;
        let top_index_len = 2 + 1 + 8 + top_len;
        let strings = index_of(&[], false);
        let charstrings = index_of(&[vec![14], cs.to_vec()], false);
        let cs_off = t.len() + top_index_len + strings.len() + gsubrs.len();
        let priv_off = cs_off + charstrings.len();
        let mut top = vec![];
        dict_int(&mut top, cs_off as u32);
        top.push(17);
        dict_int(&mut top, private.len() as u32);
        dict_int(&mut top, priv_off as u32);
        top.push(18);
        t.extend_from_slice(&index_of(&[top], false));
        t.extend_from_slice(&strings);
        t.extend_from_slice(&gsubrs);
        t.extend_from_slice(&charstrings);
        t.extend_from_slice(&private);
        t
    };
    use write_fonts::tables::{head::Head, hhea::Hhea, hmtx::Hmtx, hmtx::LongMetric, maxp::Maxp};
    let mut fb = write_fonts::FontBuilder::new();
    let _ = fb.add_table(&Head { units_per_em: 1000, ..Default::default() });
    let _ = fb.add_table(&Maxp { num_glyphs: 2, ..Default::default() });
    let _ = fb.add_table(&Hhea { number_of_h_metrics: 2, ..Default::default() });
    let _ = fb.add_table(&Hmtx::new(vec![LongMetric::new(500, 0), LongMetric::new(500, 0)], vec![]));
    fb.add_raw(read_fonts::types::Tag::new(if is_cff2 { b"CFF2" } else { b"CFF " }), table);
    fb.build()
}

/// charstring drawing `n` points in `contours` contours (rmoveto + zigzag rlineto batches), optionally
/// with curves (3 points each) at the end
fn points_charstring(n: usize, contours: usize, curves: bool, is_cff2: bool) -> Vec<u8> {
    let mut cs = vec![];
    let contours = contours.max(1);
    let per = n / contours;
    let mut left = n;
    let mut i = 0usize;
    for c in 0..contours {
        let k = if c + 1 == contours { left } else { per };
        left -= k;
        if k == 0 {
            continue;
        }
        enc_int(&mut cs, 3, false);
        enc_int(&mut cs, 2, false);
        cs.push(21);
        let mut todo = k - 1;
        while todo > 0 {
            if curves && todo >= 3 && todo % 7 == 3 {
                for v in [5, 3, -4, 3, 5, -3] {
                    enc_int(&mut cs, v, false);
                }
                cs.push(8); // rrcurveto: 3 points
                todo -= 3;
                continue;
            }
            let b = todo.min(20);
            for _ in 0..b {
                enc_int(&mut cs, if i % 2 == 0 { 5 } else { -4 }, false);
                enc_int(&mut cs, if i % 4 < 2 { 3 } else { -3 }, false);
                i += 1;
            }
            cs.push(5);
            todo -= b;
        }
    }
    if !is_cff2 {
        cs.push(14);
    }
    cs
}

/// CFF / CFF2 glyphs with 65534 .. 65537, 70000 and 131072 points (the autohinter and the CFF scaler index
/// outline points with u16) in 1 / 2 / 300 contours, lines only and with curves, through every engine
pub fn cff_point_totals(cfg: &Config, ex: &mut Explorer) {
    let mut jobs: Vec<(usize, usize, bool, bool)> = vec![];
    for n in [65_534usize, 65_535, 65_536, 65_537, 70_000, 131_072] {
        for contours in [1usize, 2, 300] {
            for curves in [false, true] {
                for is_cff2 in [false, true] {
                    if !cfg.thorough() && curves && contours == 300 {
                        continue;
                    }
                    jobs.push((n, contours, curves, is_cff2));
                }
            }
        }
    }
    let n_jobs = jobs.len();
    let done = parallel(&jobs, worker_threads(), |(n, contours, curves, is_cff2), ex| {
        let cs = points_charstring(*n, *contours, *curves, *is_cff2);
        let bytes = cff_font(&cs, *is_cff2);
        let label = || format!("ps=cff-point-totals points={n} contours={contours} curves={curves} cff2={is_cff2} (charstring: rmoveto + rlineto batches of 20{})", if *curves { " + rrcurveto" } else { "" });
        ex.op(&label, "charstring::evaluate", &mut || {
            let _ = charstring::evaluate(&cs, Index::Empty, None, None, &mut NopSink);
        });
        draw_glyph(ex, &label, &bytes, 1);
        ex.count("cff-point-totals");
    });
    ex.absorb(done);
    ex.notes.push(format!("CFF / CFF2 point totals at the u16 limit: {n_jobs} fonts through unhinted / CFF hinter / autohinter draws"));
}

pub fn run(cfg: &Config, ex: &mut Explorer, corpus: &[(String, Vec<u8>)]) {
    cff_point_totals(cfg, ex);
    let thorough = cfg.thorough();
    let cs_progs = charstring_programs(thorough);
    let dict_progs = dict_programs(thorough);
    let stores = stores();
    let coords = [F2Dot14::from_f32(0.5)];
    // subroutine INDEXes of every bias class; bodies: return (11) and endchar (14)
    let subr_sets: Vec<(usize, Vec<u8>, Vec<u8>)> = [0usize, 1, 1239, 1240, 33899, 33900].iter().map(|&c| (c, index_bytes(c, 11, false), index_bytes(c, 11, true))).collect();

    // ---- charstring::evaluate
    #[derive(Clone, Copy)]
    struct EvalJob {
        prog: usize,
        store: usize, // stores.len() = no blend state
        subrs: usize,
    }
    let mut jobs = vec![];
    for p in 0..cs_progs.len() {
        for st in 0..=stores.len() {
            // the subroutine classes matter for the call operators only
            let calls = cs_progs[p].iter().any(|b| *b == 10 || *b == 29);
            for su in 0..subr_sets.len() {
                if su > 0 && !calls {
                    break;
                }
                jobs.push(EvalJob { prog: p, store: st, subrs: su });
            }
        }
    }
    let n_eval = jobs.len();
    let done = parallel(&jobs, worker_threads(), |j, ex| {
        let prog = &cs_progs[j.prog];
        let (count, cff, cff2) = &subr_sets[j.subrs];
        let regions = if j.store < stores.len() { stores[j.store].0 as i64 } else { -1 };
        let label = || format!("ps=charstring regions={regions} subrs={count} prog={}", hex(prog));
        for is_cff2 in [false, true] {
            ex.op(&label, if is_cff2 { "charstring::evaluate cff2" } else { "charstring::evaluate cff" }, &mut || {
                let ix = Index::new(if is_cff2 { cff2 } else { cff }, is_cff2).unwrap_or(Index::Empty);
                let blend = if j.store < stores.len() { ItemVariationStore::read(FontData::new(&stores[j.store].1)).ok().and_then(|s| BlendState::new(s, &coords, 0).ok()) } else { None };
                let mut full = prog.clone();
                if !is_cff2 {
                    full.push(14);
                }
                let _ = charstring::evaluate(&full, ix.clone(), Some(ix), blend, &mut NopSink);
            });
        }
    });
    ex.absorb(done);

    // ---- dict::entries
    let djobs: Vec<(usize, usize)> = (0..dict_progs.len()).flat_map(|p| (0..=stores.len()).map(move |s| (p, s))).collect();
    let n_dict = djobs.len();
    let done = parallel(&djobs, worker_threads(), |(p, st), ex| {
        let prog = &dict_progs[*p];
        let regions = if *st < stores.len() { stores[*st].0 as i64 } else { -1 };
        let label = || format!("ps=dict regions={regions} prog={}", hex(prog));
        ex.op(&label, "dict::entries", &mut || {
            let blend = if *st < stores.len() { ItemVariationStore::read(FontData::new(&stores[*st].1)).ok().and_then(|s| BlendState::new(s, &coords, 0).ok()) } else { None };
            let _ = dict::entries(prog, blend).take(64).count();
        });
    });
    ex.absorb(done);

    // ---- patched into the CFF / CFF2 corpus fonts and drawn
    let mut fjobs: Vec<(usize, bool, usize, u32, usize)> = vec![]; // (font, is_dict, program, gid, position)
    let fonts: Vec<&(String, Vec<u8>)> = corpus.iter().filter(|(n, _)| n.ends_with(".otf") || n.contains("cantarell")).collect();
    for (fi, (_, bytes)) in fonts.iter().enumerate() {
        let Some((_, glyphs, private)) = patch_targets(bytes) else { continue };
        let step = if thorough { 1 } else { 7 };
        for (k, p) in cs_progs.iter().enumerate() {
            // all special programs (they come last) and every `step`-th sweep program
            let special = p.len() > 8 || p.contains(&16) || p.contains(&15) || p.contains(&10) || p.contains(&29) || p.contains(&19) || p.contains(&20);
            if !special && k % step != 0 {
                continue;
            }
            if let Some((gid, pos, len)) = glyphs.iter().find(|g| g.2 >= p.len() + 1) {
                let _ = len;
                fjobs.push((fi, false, k, *gid, *pos));
            }
        }
        if let Some((pos, len)) = private {
            for (k, p) in dict_progs.iter().enumerate() {
                let special = p.contains(&23) || p.contains(&22);
                if (special || k % step == 0) && p.len() <= len {
                    fjobs.push((fi, true, k, glyphs.first().map(|g| g.0).unwrap_or(1), pos));
                }
            }
        }
    }
    let n_font = fjobs.len();
    let done = parallel(&fjobs, worker_threads(), |(fi, is_dict, k, gid, pos), ex| {
        let (name, bytes) = fonts[*fi];
        let prog = if *is_dict { &dict_progs[*k] } else { &cs_progs[*k] };
        let mut b = bytes.clone();
        b[*pos..*pos + prog.len()].copy_from_slice(prog);
        let label = || format!("ps=font-{} font={name} gid={gid} at={pos} prog={}", if *is_dict { "private-dict" } else { "charstring" }, hex(prog));
        draw_glyph(ex, &label, &b, *gid);
    });
    ex.absorb(done);
    ex.notes.push(format!(
        "postscript operand sweeps: {} charstring programs ({n_eval} evaluations: no blend / 0 / 1 / 2 / 200 regions, CFF and CFF2, six subroutine bias classes), {} DICT programs ({n_dict} evaluations), {n_font} programs patched into {} CFF / CFF2 fonts and drawn hinted + unhinted",
        cs_progs.len(),
        dict_progs.len(),
        fonts.len()
    ));
}
