//! Exploration oracle on the real code (support, not proof): drive metric / charmap / drawing /
//! hinting / colour / bitmap / subsetting operations over the corpus, over numeric-field
//! corruptions of it (boundary values written into 16/32-bit fields of arithmetic-heavy tables)
//! and over boundary-valued synthetic fonts, each operation under catch_unwind.
//! A panic payload that is an overflow / assertion trap is a C20 oracle failure whose oracle name
//! carries the panic site and whose input string replays it; any other panic is counted only.
use crate::{run_catch, Outcome};
use fv_harness::common::*;
use read_fonts::{collections::IntSet, types::Tag, FontRef, TableProvider};
use skrifa::{
    color::{Brush, ColorPainter, CompositeMode, Transform},
    instance::{Location, Size},
    outline::{DrawSettings, Engine, HintingInstance, HintingOptions, OutlinePen, SmoothMode, Target},
    raw::types::{BoundingBox, GlyphId},
    MetadataProvider,
};

struct NullPen(u64);
impl OutlinePen for NullPen {
    fn move_to(&mut self, _x: f32, _y: f32) {
        self.0 += 1;
    }
    fn line_to(&mut self, _x: f32, _y: f32) {
        self.0 += 1;
    }
    fn quad_to(&mut self, _a: f32, _b: f32, _x: f32, _y: f32) {
        self.0 += 1;
    }
    fn curve_to(&mut self, _a: f32, _b: f32, _c: f32, _d: f32, _x: f32, _y: f32) {
        self.0 += 1;
    }
    fn close(&mut self) {
        self.0 += 1;
    }
}

struct NullPainter(u64);
impl ColorPainter for NullPainter {
    fn push_transform(&mut self, _t: Transform) {
        self.0 += 1;
    }
    fn pop_transform(&mut self) {}
    fn push_clip_glyph(&mut self, _g: GlyphId) {
        self.0 += 1;
    }
    fn push_clip_box(&mut self, _b: BoundingBox<f32>) {
        self.0 += 1;
    }
    fn pop_clip(&mut self) {}
    fn fill(&mut self, _b: Brush<'_>) {
        self.0 += 1;
    }
    fn push_layer(&mut self, _m: CompositeMode) {
        self.0 += 1;
    }
}

pub struct Explorer<'s> {
    pub s: &'s mut Session,
    pub other_panics: u64,
    pub ops: u64,
}

impl Explorer<'_> {
    /// run one operation; classify its panic (if any)
    pub fn op(&mut self, input: &dyn Fn() -> String, name: &str, f: &mut dyn FnMut()) {
        self.ops += 1;
        match run_catch(|| f()) {
            Outcome::Ok(()) => {
                self.s.oracle("explore:no-trap", true, String::new, String::new);
            }
            Outcome::Trap(m) => {
                let site = m.rsplit(" @ ").next().unwrap_or("?").to_string();
                self.s.count(&format!("explore-trap@{site}"));
                let oname = format!("explore:no-trap@{site}");
                crate::capped_oracle(self.s, &oname, false, &format!("{} op={name}", input()), &m);
            }
            Outcome::Other(m) => {
                self.other_panics += 1;
                let site = m.rsplit(" @ ").next().unwrap_or("?").to_string();
                self.s.count(&format!("other-panic(C01/C02)@{site}"));
            }
        }
    }
}

fn sizes() -> Vec<(String, Size)> {
    let mut v = vec![("unscaled".to_string(), Size::unscaled())];
    for p in [0.0f32, 0.5, 1.0, 7.0, 16.0, 100.0, 1000.0, 65535.0, 1.0e7, 3.0e9, f32::MAX, -16.0, f32::NEG_INFINITY, f32::NAN] {
        v.push((format!("{p}"), Size::new(p)));
    }
    v
}

fn sample_gids(n: u32) -> Vec<u32> {
    let mut v: Vec<u32> = vec![0, 1, 2, 3, 4, 5, 7, 10, 20, 36, 50, n / 2, n.wrapping_sub(2), n.wrapping_sub(1), n, 0xFFFF, 0x10000, u32::MAX];
    v.retain(|g| *g <= n.saturating_add(1) || *g >= 0xFFFF);
    v.sort();
    v.dedup();
    v
}

fn locations(font: &FontRef) -> Vec<(String, Location)> {
    let axes = font.axes();
    let mut out = vec![("default".to_string(), Location::default())];
    if axes.len() == 0 {
        return out;
    }
    for (name, v) in [("min", -1.0e9f32), ("max", 1.0e9), ("mid+", 150.0), ("mid-", -0.3), ("nan", f32::NAN), ("inf", f32::INFINITY)] {
        let settings: Vec<(Tag, f32)> = axes.iter().map(|a| (a.tag(), v)).collect();
        out.push((name.to_string(), axes.location(settings)));
    }
    // per-axis user values between min and default / default and max
    let settings: Vec<(Tag, f32)> = axes.iter().map(|a| (a.tag(), (a.min_value() + a.default_value()) / 2.0)).collect();
    out.push(("lo-half".into(), axes.location(settings)));
    let settings: Vec<(Tag, f32)> = axes.iter().map(|a| (a.tag(), (a.max_value() + a.default_value()) / 2.0)).collect();
    out.push(("hi-half".into(), axes.location(settings)));
    out
}

/// Every operation family on one font image.  `light` restricts sizes/locations (corruptions).
pub fn exercise(ex: &mut Explorer, label: &dyn Fn() -> String, bytes: &[u8], light: bool) {
    let font = match run_catch(|| FontRef::new(bytes)) {
        Outcome::Ok(Ok(f)) => f,
        Outcome::Ok(Err(_)) => return,
        Outcome::Trap(m) => {
            ex.op(label, "FontRef::new", &mut || panic!("{}", m));
            return;
        }
        Outcome::Other(_) => {
            ex.other_panics += 1;
            return;
        }
    };
    let num_glyphs = font.maxp().map(|m| m.num_glyphs() as u32).unwrap_or(0);
    let gids = sample_gids(num_glyphs);
    let all_sizes = sizes();
    let szs: Vec<&(String, Size)> = if light { all_sizes.iter().filter(|(n, _)| ["unscaled", "16", "65535", "3000000000", "-inf"].contains(&n.as_str())).collect() } else { all_sizes.iter().collect() };
    let mut locs = Vec::new();
    ex.op(label, "axes.location", &mut || {
        locs = locations(&font);
    });
    if locs.is_empty() {
        locs.push(("default".into(), Location::default()));
    }
    if light && locs.len() > 3 {
        locs = vec![locs[0].clone(), locs[1].clone(), locs[2].clone(), locs[3].clone()];
    }

    // --- attributes, names, charmap
    ex.op(label, "attributes+names", &mut || {
        let _ = font.attributes();
        for s in font.localized_strings(skrifa::string::StringId::FAMILY_NAME) {
            let _ = s.chars().count();
        }
        for inst in font.named_instances().iter().take(16) {
            let _ = inst.location();
        }
    });
    ex.op(label, "charmap", &mut || {
        let cm = font.charmap();
        for c in [0u32, 0x20, 0x41, 0x7F, 0xFF, 0x100, 0x7FFF, 0x8000, 0xFFFE, 0xFFFF, 0x10000, 0x1F600, 0x10FFFF, 0x110000, u32::MAX] {
            let _ = cm.map(c);
        }
        let _ = cm.mappings().take(20_000).count();
        let _ = cm.variant_mappings().take(5_000).count();
    });

    // --- metrics
    for (sn, size) in &szs {
        for (ln, loc) in &locs {
            let name = format!("metrics size={sn} loc={ln}");
            ex.op(label, &name, &mut || {
                let _ = font.metrics(*size, loc);
                let gm = font.glyph_metrics(*size, loc);
                for g in &gids {
                    let g = GlyphId::new(*g);
                    let _ = gm.advance_width(g);
                    let _ = gm.left_side_bearing(g);
                    let _ = gm.bounds(g);
                }
            });
        }
    }

    // --- outlines: unhinted, interpreter, autohinter
    let outlines = font.outline_glyphs();
    for (sn, size) in &szs {
        for (ln, loc) in &locs {
            let name = format!("draw-unhinted size={sn} loc={ln}");
            ex.op(label, &name, &mut || {
                for g in &gids {
                    if let Some(glyph) = outlines.get(GlyphId::new(*g)) {
                        let mut pen = NullPen(0);
                        let _ = glyph.draw(DrawSettings::unhinted(*size, loc), &mut pen);
                    }
                }
            });
            for (en, engine) in [("interp", Engine::Interpreter), ("auto", Engine::Auto(None))] {
                for (tn, target) in [("mono", Target::Mono), ("smooth", Target::Smooth { mode: SmoothMode::Normal, symmetric_rendering: true, preserve_linear_metrics: false })] {
                    if light && tn == "mono" && en == "auto" {
                        continue;
                    }
                    let name = format!("draw-hinted engine={en} target={tn} size={sn} loc={ln}");
                    ex.op(label, &name, &mut || {
                        let opts = HintingOptions { engine: engine.clone(), target };
                        if let Ok(inst) = HintingInstance::new(&outlines, *size, loc, opts) {
                            for g in &gids {
                                if let Some(glyph) = outlines.get(GlyphId::new(*g)) {
                                    let mut pen = NullPen(0);
                                    let _ = glyph.draw(DrawSettings::hinted(&inst, false), &mut pen);
                                    let mut pen = NullPen(0);
                                    let _ = glyph.draw(DrawSettings::hinted(&inst, true), &mut pen);
                                }
                            }
                        }
                    });
                }
            }
        }
    }

    // --- colour glyphs
    let colors = font.color_glyphs();
    for (ln, loc) in &locs {
        let name = format!("paint loc={ln}");
        ex.op(label, &name, &mut || {
            for g in &gids {
                if let Some(cg) = colors.get(GlyphId::new(*g)) {
                    let mut p = NullPainter(0);
                    let _ = cg.paint(loc, &mut p);
                    let _ = cg.bounding_box(loc, Size::new(16.0));
                }
            }
        });
    }

    // --- subsetting plan + subset
    for (pn, keep) in [("first", 0u32..=num_glyphs.min(40)), ("tail", num_glyphs.saturating_sub(10)..=num_glyphs)] {
        let name = format!("klippa plan+subset keep={pn}");
        ex.op(label, &name, &mut || {
            let mut gs: IntSet<GlyphId> = IntSet::empty();
            for g in keep.clone() {
                gs.insert(GlyphId::new(g));
            }
            let mut unicodes: IntSet<u32> = IntSet::empty();
            for c in [0x20u32, 0x41, 0x61, 0x3A9, 0xFFFF, 0x1F600] {
                unicodes.insert(c);
            }
            let empty_tags: IntSet<Tag> = IntSet::empty();
            let mut all_tags: IntSet<Tag> = IntSet::empty();
            all_tags.invert();
            let mut name_ids = IntSet::empty();
            name_ids.insert_range(read_fonts::types::NameId::new(0)..=read_fonts::types::NameId::new(6));
            let mut langs: IntSet<u16> = IntSet::empty();
            langs.insert(0x409);
            let plan = klippa::Plan::new(&gs, &unicodes, &font, klippa::SubsetFlags::default(), &empty_tags, &all_tags, &all_tags, &name_ids, &langs);
            let _ = klippa::subset_font(&font, &plan);
        });
    }
}

// ---------------------------------------------------------------------------------------------

fn corpus() -> Vec<(String, Vec<u8>)> {
    let mut v = vec![];
    let dir = "/repo/font-test-data/test_data/ttf";
    if let Ok(rd) = std::fs::read_dir(dir) {
        for e in rd.flatten() {
            let p = e.path();
            if p.extension().map(|x| x == "ttf" || x == "otf").unwrap_or(false) {
                if let Ok(b) = std::fs::read(&p) {
                    v.push((p.file_name().unwrap().to_string_lossy().to_string(), b));
                }
            }
        }
    }
    v.sort_by(|a, b| a.0.cmp(&b.0));
    v
}

fn be16(b: &[u8], o: usize) -> u16 {
    u16::from_be_bytes([b[o], b[o + 1]])
}
fn be32(b: &[u8], o: usize) -> u32 {
    u32::from_be_bytes([b[o], b[o + 1], b[o + 2], b[o + 3]])
}

/// (tag, offset, length) of each table of a single-font sfnt
fn tables(b: &[u8]) -> Vec<(String, usize, usize)> {
    let mut v = vec![];
    if b.len() < 12 {
        return v;
    }
    let n = be16(b, 4) as usize;
    for i in 0..n {
        let r = 12 + 16 * i;
        if r + 16 > b.len() {
            break;
        }
        let tag = String::from_utf8_lossy(&b[r..r + 4]).to_string();
        let off = be32(b, r + 8) as usize;
        let len = be32(b, r + 12) as usize;
        if off <= b.len() && len <= b.len() - off {
            v.push((tag, off, len));
        }
    }
    v
}

const V16: [u16; 10] = [0x0000, 0x0001, 0x0010, 0x3FFF, 0x4000, 0x7FFF, 0x8000, 0x8001, 0xC000, 0xFFFF];
const V32: [u32; 8] = [0, 1, 0x7FFF_FFFF, 0x8000_0000, 0x8000_0001, 0xFFFF_FFFF, 0x0001_0000, 0xFFFF_0000];

/// tables whose fields feed the arithmetic kernels
const NUMERIC_TABLES: [&str; 30] = [
    "head", "hhea", "vhea", "maxp", "hmtx", "vmtx", "OS/2", "post", "loca", "glyf", "cmap", "fvar", "avar", "gvar", "HVAR", "VVAR", "MVAR", "cvar", "cvt ", "fpgm", "prep", "COLR", "CPAL", "CFF ", "CFF2",
    "EBLC", "CBLC", "sbix", "VORG", "hdmx",
];

/// one structured corruption: boundary values written into `k` aligned fields of one table
fn corrupt(base: &[u8], rng: &mut Rng) -> Option<(String, Vec<u8>)> {
    let tabs: Vec<(String, usize, usize)> = tables(base).into_iter().filter(|(t, _, l)| NUMERIC_TABLES.contains(&t.as_str()) && *l >= 4).collect();
    if tabs.is_empty() {
        return None;
    }
    let (tag, off, len) = rng.pick(&tabs).clone();
    let mut b = base.to_vec();
    let k = 1 + rng.below(3);
    let mut desc = format!("table={tag}");
    for _ in 0..k {
        // bias towards the head of the table (headers hold the counts/scales)
        let span = if rng.chance(1, 2) { len.min(64) } else { len };
        if rng.chance(2, 3) || span < 4 {
            let o = (rng.below((span / 2) as u64) as usize) * 2;
            let v = *rng.pick(&V16);
            b[off + o..off + o + 2].copy_from_slice(&v.to_be_bytes());
            desc.push_str(&format!(" +{o}:u16={v:#x}"));
        } else {
            let o = (rng.below((span / 2 - 1) as u64) as usize) * 2;
            let v = *rng.pick(&V32);
            b[off + o..off + o + 4].copy_from_slice(&v.to_be_bytes());
            desc.push_str(&format!(" +{o}:u32={v:#x}"));
        }
    }
    Some((desc, b))
}

pub fn run(cfg: &Config, s: &mut Session) {
    let t0 = std::time::Instant::now();
    let mut rng = Rng::new(cfg.seed ^ 0xE20);
    let fonts = corpus();
    s.notes.push(format!("exploration corpus: {} fonts", fonts.len()));
    let mut ex = Explorer { s, other_panics: 0, ops: 0 };
    for (name, bytes) in &fonts {
        let label = || format!("font={name} mut=none");
        exercise(&mut ex, &label, bytes, false);
    }
    let per_font = if cfg.thorough() { 400 } else { 12 };
    for (name, bytes) in &fonts {
        for _ in 0..per_font {
            if let Some((desc, b)) = corrupt(bytes, &mut rng) {
                let label = || format!("font={name} mut=[{desc}]");
                exercise(&mut ex, &label, &b, true);
            }
        }
    }
    crate::synth::run(cfg, &mut ex, &mut rng);
    let (ops, other) = (ex.ops, ex.other_panics);
    s.notes.push(format!("exploration phase: {:.1}s", t0.elapsed().as_secs_f64()));
    s.notes.push(format!("exploration: {ops} operations, {other} non-arithmetic panics (C01/C02 territory, not reported here)"));
}
