//! Exploration oracle on the real code (support, not proof): drive metric / charmap / drawing /
//! hinting / colour / bitmap / subsetting operations over the corpus, over numeric-field
//! corruptions of it (boundary values written into 16/32-bit fields of arithmetic-heavy tables)
//! and over boundary-valued synthetic fonts, each operation under catch_unwind.
//! A panic payload that is an overflow / assertion trap is a C20 oracle failure whose oracle name
//! carries the panic site and whose input string replays it; any other panic is counted only.
use crate::{run_catch, Outcome};
use fv_harness::common::*;
use read_fonts::{collections::IntSet, types::Tag, FontRef, TableProvider};
use skrifa::{
    color::{Brush, ColorPainter, CompositeMode, Transform},
    instance::{Location, Size},
    outline::{DrawSettings, Engine, HintingInstance, HintingOptions, OutlinePen, SmoothMode, Target},
    raw::types::{BoundingBox, GlyphId},
    MetadataProvider,
};

struct NullPen(u64);
impl OutlinePen for NullPen {
    fn move_to(&mut self, _x: f32, _y: f32) {
        self.0 += 1;
    }
    fn line_to(&mut self, _x: f32, _y: f32) {
        self.0 += 1;
    }
    fn quad_to(&mut self, _a: f32, _b: f32, _x: f32, _y: f32) {
        self.0 += 1;
    }
    fn curve_to(&mut self, _a: f32, _b: f32, _c: f32, _d: f32, _x: f32, _y: f32) {
        self.0 += 1;
    }
    fn close(&mut self) {
        self.0 += 1;
    }
}

struct NullPainter(u64);
impl ColorPainter for NullPainter {
    fn push_transform(&mut self, _t: Transform) {
        self.0 += 1;
    }
    fn pop_transform(&mut self) {}
    fn push_clip_glyph(&mut self, _g: GlyphId) {
        self.0 += 1;
    }
    fn push_clip_box(&mut self, _b: BoundingBox<f32>) {
        self.0 += 1;
    }
    fn pop_clip(&mut self) {}
    fn fill(&mut self, _b: Brush<'_>) {
        self.0 += 1;
    }
    fn push_layer(&mut self, _m: CompositeMode) {
        self.0 += 1;
    }
}

/// Recorder of one exploration run (thread-local: the matrix / field families run on worker threads and
/// are merged into the session in job order, so the result is independent of the thread schedule).
#[derive(Default)]
pub struct Explorer {
    pub ops: u64,
    pub ok: u64,
    pub other_panics: u64,
    /// (site, input, detail) of every overflow / assertion trap
    pub traps: Vec<(String, String, String)>,
    pub counts: std::collections::BTreeMap<String, u64>,
    pub notes: Vec<String>,
}

impl Explorer {
    pub fn count(&mut self, key: &str) {
        *self.counts.entry(key.to_string()).or_insert(0) += 1;
    }
    pub fn count_n(&mut self, key: &str, n: u64) {
        *self.counts.entry(key.to_string()).or_insert(0) += n;
    }

    /// run one operation; classify its panic (if any)
    pub fn op(&mut self, input: &dyn Fn() -> String, name: &str, f: &mut dyn FnMut()) {
        self.ops += 1;
        match run_catch(|| f()) {
            Outcome::Ok(()) => self.ok += 1,
            Outcome::Trap(m) => {
                let site = m.rsplit(" @ ").next().unwrap_or("?").to_string();
                self.count(&format!("explore-trap@{site}"));
                // keep at most 6 inputs per site in the recorder
                if self.traps.iter().filter(|t| t.0 == site).count() < 6 {
                    self.traps.push((site, format!("{} op={name}", input()), m));
                }
            }
            Outcome::Other(m) => {
                self.other_panics += 1;
                let site = m.rsplit(" @ ").next().unwrap_or("?").to_string();
                self.count(&format!("other-panic(C01/C02)@{site}"));
            }
        }
    }

    pub fn absorb(&mut self, o: Explorer) {
        self.ops += o.ops;
        self.ok += o.ok;
        self.other_panics += o.other_panics;
        for t in o.traps {
            if self.traps.iter().filter(|x| x.0 == t.0).count() < 6 {
                self.traps.push(t);
            }
        }
        for (k, v) in o.counts {
            *self.counts.entry(k).or_insert(0) += v;
        }
    }

    /// the oracle: one check per operation; every trap is a failure named by its panic site
    pub fn merge_into(self, s: &mut Session) {
        s.oracle_checks += self.ok;
        for (site, input, detail) in &self.traps {
            crate::capped_oracle(s, &format!("explore:no-trap@{site}"), false, input, detail);
        }
        let recorded = self.traps.len() as u64;
        let total: u64 = self.counts.iter().filter(|(k, _)| k.starts_with("explore-trap@")).map(|(_, v)| *v).sum();
        s.oracle_checks += total.saturating_sub(recorded);
        for (k, v) in self.counts {
            *s.dist.entry(k).or_insert(0) += v;
        }
    }
}

/// run `jobs` on up to `threads` worker threads; results are returned in job order
pub fn parallel<J: Sync, F: Fn(&J, &mut Explorer) + Sync>(jobs: &[J], threads: usize, f: F) -> Explorer {
    let n = jobs.len();
    let threads = threads.max(1).min(n.max(1));
    let next = std::sync::atomic::AtomicUsize::new(0);
    let chunk = 16usize;
    let mut parts: Vec<(usize, Explorer)> = vec![];
    std::thread::scope(|sc| {
        let mut hs = vec![];
        for _ in 0..threads {
            hs.push(sc.spawn(|| {
                let mut out: Vec<(usize, Explorer)> = vec![];
                loop {
                    let start = next.fetch_add(chunk, std::sync::atomic::Ordering::Relaxed);
                    if start >= n {
                        break;
                    }
                    let mut ex = Explorer::default();
                    for j in start..(start + chunk).min(n) {
                        f(&jobs[j], &mut ex);
                    }
                    out.push((start, ex));
                }
                out
            }));
        }
        for h in hs {
            parts.extend(h.join().expect("worker thread"));
        }
    });
    parts.sort_by_key(|p| p.0);
    let mut all = Explorer::default();
    for (_, ex) in parts {
        all.absorb(ex);
    }
    all
}

pub fn worker_threads() -> usize {
    std::thread::available_parallelism().map(|n| n.get()).unwrap_or(4).min(6)
}

fn sizes() -> Vec<(String, Size)> {
    let mut v = vec![("unscaled".to_string(), Size::unscaled())];
    for p in [0.0f32, 0.5, 1.0, 7.0, 16.0, 100.0, 1000.0, 65535.0, 1.0e7, 3.0e9, f32::MAX, -16.0, f32::NEG_INFINITY, f32::NAN] {
        v.push((format!("{p}"), Size::new(p)));
    }
    v
}

fn sample_gids(n: u32) -> Vec<u32> {
    let mut v: Vec<u32> = vec![0, 1, 2, 3, 4, 5, 7, 10, 20, 36, 50, n / 2, n.wrapping_sub(2), n.wrapping_sub(1), n, 0xFFFF, 0x10000, u32::MAX];
    v.retain(|g| *g <= n.saturating_add(1) || *g >= 0xFFFF);
    v.sort();
    v.dedup();
    v
}

fn locations(font: &FontRef) -> Vec<(String, Location)> {
    let axes = font.axes();
    let mut out = vec![("default".to_string(), Location::default())];
    if axes.len() == 0 {
        return out;
    }
    for (name, v) in [("min", -1.0e9f32), ("max", 1.0e9), ("mid+", 150.0), ("mid-", -0.3), ("nan", f32::NAN), ("inf", f32::INFINITY)] {
        let settings: Vec<(Tag, f32)> = axes.iter().map(|a| (a.tag(), v)).collect();
        out.push((name.to_string(), axes.location(settings)));
    }
    // per-axis user values between min and default / default and max
    let settings: Vec<(Tag, f32)> = axes.iter().map(|a| (a.tag(), (a.min_value() + a.default_value()) / 2.0)).collect();
    out.push(("lo-half".into(), axes.location(settings)));
    let settings: Vec<(Tag, f32)> = axes.iter().map(|a| (a.tag(), (a.max_value() + a.default_value()) / 2.0)).collect();
    out.push(("hi-half".into(), axes.location(settings)));
    out
}

/// consumer groups of `exercise_groups`
#[derive(Clone, Copy, Debug)]
pub struct Groups {
    pub names: bool,
    pub charmap: bool,
    pub metrics: bool,
    pub outlines: bool,
    pub color: bool,
    pub klippa: bool,
    pub vars: bool,
    pub ift: bool,
    pub traverse: bool,
}

impl Groups {
    pub const ALL: Groups = Groups { names: true, charmap: true, metrics: true, outlines: true, color: true, klippa: true, vars: true, ift: true, traverse: true };
    pub const NONE: Groups = Groups { names: false, charmap: false, metrics: false, outlines: false, color: false, klippa: false, vars: false, ift: false, traverse: false };
    /// the consumers that read table `tag` (klippa and the generic traversal read every table)
    pub fn for_table(tag: &str) -> Groups {
        let mut g = Groups { klippa: true, traverse: true, ..Groups::NONE };
        match tag {
            "head" | "maxp" => return Groups::ALL,
            "hhea" | "vhea" | "hmtx" | "vmtx" | "OS/2" | "post" | "MVAR" | "VORG" | "hdmx" => {
                g.metrics = true;
                g.vars = true;
                if tag == "hmtx" || tag == "hhea" {
                    g.outlines = true;
                }
            }
            "HVAR" | "VVAR" => {
                g.metrics = true;
                g.vars = true;
                g.outlines = true;
            }
            "fvar" | "avar" | "STAT" => {
                g.metrics = true;
                g.vars = true;
                g.outlines = true;
                g.color = true;
                g.names = true;
            }
            "glyf" | "loca" | "gvar" | "cvar" | "cvt " | "fpgm" | "prep" | "CFF " | "CFF2" | "VARC" | "gasp" => {
                g.outlines = true;
                g.metrics = true;
            }
            "COLR" | "CPAL" => g.color = true,
            "cmap" => g.charmap = true,
            "name" => g.names = true,
            "IFT " | "IFTX" => g.ift = true,
            "GSUB" | "GPOS" | "GDEF" | "BASE" => g.outlines = true, // the autohinter's shaper reads GSUB
            _ => {}
        }
        g
    }
}

/// Every operation family on one font image.  `light` restricts sizes/locations (corruptions).
pub fn exercise(ex: &mut Explorer, label: &dyn Fn() -> String, bytes: &[u8], light: bool) {
    exercise_groups(ex, label, bytes, light, Groups::ALL)
}

pub fn exercise_groups(ex: &mut Explorer, label: &dyn Fn() -> String, bytes: &[u8], light: bool, grp: Groups) {
    let font = match run_catch(|| FontRef::new(bytes)) {
        Outcome::Ok(Ok(f)) => f,
        Outcome::Ok(Err(_)) => return,
        Outcome::Trap(m) => {
            ex.op(label, "FontRef::new", &mut || panic!("{}", m));
            return;
        }
        Outcome::Other(_) => {
            ex.other_panics += 1;
            return;
        }
    };
    let num_glyphs = font.maxp().map(|m| m.num_glyphs() as u32).unwrap_or(0);
    let gids = sample_gids(num_glyphs);
    let all_sizes = sizes();
    let szs: Vec<&(String, Size)> = if light { all_sizes.iter().filter(|(n, _)| ["unscaled", "16", "65535", "3000000000", "-inf"].contains(&n.as_str())).collect() } else { all_sizes.iter().collect() };
    let mut locs = Vec::new();
    ex.op(label, "axes.location", &mut || {
        locs = locations(&font);
    });
    if locs.is_empty() {
        locs.push(("default".into(), Location::default()));
    }
    if light && locs.len() > 3 {
        locs = vec![locs[0].clone(), locs[1].clone(), locs[2].clone(), locs[3].clone()];
    }

    // --- attributes, names, charmap
    if grp.names {
    ex.op(label, "attributes+names", &mut || {
        let _ = font.attributes();
        for s in font.localized_strings(skrifa::string::StringId::FAMILY_NAME) {
            let _ = s.chars().count();
        }
        for inst in font.named_instances().iter().take(16) {
            let _ = inst.location();
        }
    });
    }
    if grp.charmap {
    ex.op(label, "charmap", &mut || {
        let cm = font.charmap();
        for c in [0u32, 0x20, 0x41, 0x7F, 0xFF, 0x100, 0x7FFF, 0x8000, 0xFFFE, 0xFFFF, 0x10000, 0x1F600, 0x10FFFF, 0x110000, u32::MAX] {
            let _ = cm.map(c);
        }
        let _ = cm.mappings().take(20_000).count();
        let _ = cm.variant_mappings().take(5_000).count();
    });
    }

    // --- metrics
    for (sn, size) in szs.iter().filter(|_| grp.metrics) {
        for (ln, loc) in &locs {
            let name = format!("metrics size={sn} loc={ln}");
            ex.op(label, &name, &mut || {
                let _ = font.metrics(*size, loc);
                let gm = font.glyph_metrics(*size, loc);
                for g in &gids {
                    let g = GlyphId::new(*g);
                    let _ = gm.advance_width(g);
                    let _ = gm.left_side_bearing(g);
                    let _ = gm.bounds(g);
                }
            });
        }
    }

    // --- outlines: unhinted, interpreter, autohinter
    let outlines = font.outline_glyphs();
    for (sn, size) in szs.iter().filter(|_| grp.outlines) {
        for (ln, loc) in &locs {
            let name = format!("draw-unhinted size={sn} loc={ln}");
            ex.op(label, &name, &mut || {
                for g in &gids {
                    if let Some(glyph) = outlines.get(GlyphId::new(*g)) {
                        let mut pen = NullPen(0);
                        let _ = glyph.draw(DrawSettings::unhinted(*size, loc), &mut pen);
                    }
                }
            });
            for (en, engine) in [("interp", Engine::Interpreter), ("auto", Engine::Auto(None))] {
                for (tn, target) in [("mono", Target::Mono), ("smooth", Target::Smooth { mode: SmoothMode::Normal, symmetric_rendering: true, preserve_linear_metrics: false })] {
                    if light && tn == "mono" && en == "auto" {
                        continue;
                    }
                    let name = format!("draw-hinted engine={en} target={tn} size={sn} loc={ln}");
                    ex.op(label, &name, &mut || {
                        let opts = HintingOptions { engine: engine.clone(), target };
                        if let Ok(inst) = HintingInstance::new(&outlines, *size, loc, opts) {
                            for g in &gids {
                                if let Some(glyph) = outlines.get(GlyphId::new(*g)) {
                                    let mut pen = NullPen(0);
                                    let _ = glyph.draw(DrawSettings::hinted(&inst, false), &mut pen);
                                    let mut pen = NullPen(0);
                                    let _ = glyph.draw(DrawSettings::hinted(&inst, true), &mut pen);
                                }
                            }
                        }
                    });
                }
            }
        }
    }

    // --- colour glyphs
    let colors = font.color_glyphs();
    // every glyph of small fonts: a mutated paint belongs to one particular colour glyph
    let color_gids: Vec<u32> = if num_glyphs <= 1000 { (0..=num_glyphs).collect() } else { gids.clone() };
    for (ln, loc) in locs.iter().filter(|_| grp.color) {
        let name = format!("paint loc={ln}");
        ex.op(label, &name, &mut || {
            for g in &color_gids {
                if let Some(cg) = colors.get(GlyphId::new(*g)) {
                    let mut p = NullPainter(0);
                    let _ = cg.paint(loc, &mut p);
                    let _ = cg.bounding_box(loc, Size::new(16.0));
                }
            }
        });
    }

    // --- raw variation accessors of read-fonts at every location (HVAR/VVAR side bearings, MVAR, avar 2)
    for (ln, loc) in locs.iter().filter(|_| grp.vars) {
        let name = format!("var-accessors loc={ln}");
        ex.op(label, &name, &mut || var_accessors(&font, loc.coords(), &gids));
    }

    // --- generic traversal of every known table (the walk the project's own tooling uses)
    if grp.traverse {
        ex.op(label, "traverse", &mut || crate::fields::traverse_all(&font, if light { 3_000 } else { 20_000 }));
    }

    // --- IFT patch map intersection and patch application (fonts carrying `IFT `/`IFTX`)
    if grp.ift && (font.table_data(Tag::new(b"IFT ")).is_some() || font.table_data(Tag::new(b"IFTX")).is_some()) {
        crate::ift::exercise_ift_font(ex, label, &font);
    }

    // --- subsetting plan + subset
    for (pn, keep) in [("first", 0u32..=num_glyphs.min(40)), ("tail", num_glyphs.saturating_sub(10)..=num_glyphs), ("all", 0u32..=num_glyphs.min(3000))].into_iter().filter(|_| grp.klippa) {
        let name = format!("klippa plan+subset keep={pn}");
        ex.op(label, &name, &mut || {
            let mut gs: IntSet<GlyphId> = IntSet::empty();
            for g in keep.clone() {
                gs.insert(GlyphId::new(g));
            }
            let mut unicodes: IntSet<u32> = IntSet::empty();
            for c in [0x20u32, 0x41, 0x61, 0x3A9, 0xFFFF, 0x1F600] {
                unicodes.insert(c);
            }
            // plus code points the font itself maps, incl. variation sequences (selector and base), so
            // that the cmap 4 / 12 / 14 writers and the closures run on real content
            let cm = font.charmap();
            for (c, _) in cm.mappings().take(48) {
                unicodes.insert(c);
            }
            for (c, sel, _) in cm.variant_mappings().take(24) {
                unicodes.insert(c);
                unicodes.insert(sel);
            }
            let empty_tags: IntSet<Tag> = IntSet::empty();
            let mut all_tags: IntSet<Tag> = IntSet::empty();
            all_tags.invert();
            let mut name_ids = IntSet::empty();
            name_ids.insert_range(read_fonts::types::NameId::new(0)..=read_fonts::types::NameId::new(6));
            let mut langs: IntSet<u16> = IntSet::empty();
            langs.insert(0x409);
            let plan = klippa::Plan::new(&gs, &unicodes, &font, klippa::SubsetFlags::default(), &empty_tags, &all_tags, &all_tags, &name_ids, &langs);
            let _ = klippa::subset_font(&font, &plan);
        });
    }
}

/// HVAR / VVAR / MVAR / avar-2 / COLR accessors that skrifa's metrics do not (all) call
fn var_accessors(font: &FontRef, coords: &[read_fonts::types::F2Dot14], gids: &[u32]) {
    use read_fonts::tables::variations::{DeltaSetIndex, FloatItemDeltaTarget};
    let mut sink = 0i64;
    if let Ok(hvar) = font.hvar() {
        for g in gids {
            let g = GlyphId::new(*g);
            sink += hvar.advance_width_delta(g, coords).map(|d| d.to_bits() as i64).unwrap_or(0);
            sink += hvar.lsb_delta(g, coords).map(|d| d.to_bits() as i64).unwrap_or(0);
            sink += hvar.rsb_delta(g, coords).map(|d| d.to_bits() as i64).unwrap_or(0);
        }
    }
    if let Ok(vvar) = font.vvar() {
        for g in gids {
            let g = GlyphId::new(*g);
            sink += vvar.advance_height_delta(g, coords).map(|d| d.to_bits() as i64).unwrap_or(0);
            sink += vvar.tsb_delta(g, coords).map(|d| d.to_bits() as i64).unwrap_or(0);
            sink += vvar.bsb_delta(g, coords).map(|d| d.to_bits() as i64).unwrap_or(0);
            sink += vvar.v_org_delta(g, coords).map(|d| d.to_bits() as i64).unwrap_or(0);
        }
    }
    if let Ok(mvar) = font.mvar() {
        for rec in mvar.value_records().iter().take(64) {
            sink += mvar.metric_delta(rec.value_tag(), coords).map(|d| d.to_bits() as i64).unwrap_or(0);
        }
        for t in [b"hasc", b"hdsc", b"xhgt", b"undo", b"zzzz"] {
            sink += mvar.metric_delta(Tag::new(t), coords).map(|d| d.to_bits() as i64).unwrap_or(0);
        }
    }
    if let Ok(avar) = font.avar() {
        for m in avar.axis_segment_maps().iter().take(64).flatten() {
            for c in coords.iter().take(8) {
                sink += m.apply(c.to_fixed()).to_bits() as i64;
            }
            for c in [-0x10000i32, -1, 0, 1, 0x8000, 0x10000, i32::MAX, i32::MIN] {
                sink += m.apply(read_fonts::types::Fixed::from_bits(c)).to_bits() as i64;
            }
        }
        let map = avar.axis_index_map().and_then(|m| m.ok());
        let store = avar.var_store().and_then(|m| m.ok());
        for i in [0u32, 1, 2, 7, 0xFFFF, u32::MAX] {
            let ix = match &map {
                Some(m) => m.get(i).ok(),
                None => Some(DeltaSetIndex { outer: (i >> 16) as u16, inner: i as u16 }),
            };
            if let (Some(ix), Some(st)) = (ix, &store) {
                sink += st.compute_delta(ix, coords).unwrap_or(0) as i64;
            }
        }
    }
    if let Ok(colr) = font.colr() {
        let map = colr.var_index_map().and_then(|m| m.ok());
        let store = colr.item_variation_store().and_then(|m| m.ok());
        for i in [0u32, 1, 2, 50, 0xFFFF, 0x10000, u32::MAX] {
            let ix = match &map {
                Some(m) => m.get(i).ok(),
                None => Some(DeltaSetIndex { outer: (i >> 16) as u16, inner: i as u16 }),
            };
            if let (Some(ix), Some(st)) = (ix, &store) {
                sink += st.compute_delta(ix, coords).unwrap_or(0) as i64;
                sink += st.compute_float_delta(ix, coords).map(|d| read_fonts::types::Fixed::ZERO.apply_float_delta(d) as i64).unwrap_or(0);
            }
        }
    }
    std::hint::black_box(sink);
}

// ---------------------------------------------------------------------------------------------

pub fn corpus() -> Vec<(String, Vec<u8>)> {
    let mut v = vec![];
    let dir = "/repo/font-test-data/test_data/ttf";
    if let Ok(rd) = std::fs::read_dir(dir) {
        for e in rd.flatten() {
            let p = e.path();
            if p.extension().map(|x| x == "ttf" || x == "otf").unwrap_or(false) {
                if let Ok(b) = std::fs::read(&p) {
                    v.push((p.file_name().unwrap().to_string_lossy().to_string(), b));
                }
            }
        }
    }
    v.sort_by(|a, b| a.0.cmp(&b.0));
    v
}

/// `bytes` rebuilt with a one-group format 12 cmap ('A' -> glyph 1) when it has no cmap table
pub fn with_cmap(bytes: &[u8]) -> Option<Vec<u8>> {
    let font = FontRef::new(bytes).ok()?;
    if font.table_data(Tag::new(b"cmap")).is_some() {
        return None;
    }
    let mut fb = write_fonts::FontBuilder::new();
    for rec in font.table_directory.table_records() {
        if let Some(d) = font.table_data(rec.tag()) {
            fb.add_raw(rec.tag(), d.as_bytes().to_vec());
        }
    }
    let mut cmap: Vec<u8> = vec![0, 0, 0, 1, 0, 3, 0, 10, 0, 0, 0, 12, 0, 12, 0, 0, 0, 0, 0, 28, 0, 0, 0, 0, 0, 0, 0, 1];
    cmap.extend_from_slice(&0x41u32.to_be_bytes());
    cmap.extend_from_slice(&0x42u32.to_be_bytes());
    cmap.extend_from_slice(&1u32.to_be_bytes());
    fb.add_raw(Tag::new(b"cmap"), cmap);
    Some(fb.build())
}

fn be16(b: &[u8], o: usize) -> u16 {
    u16::from_be_bytes([b[o], b[o + 1]])
}
fn be32(b: &[u8], o: usize) -> u32 {
    u32::from_be_bytes([b[o], b[o + 1], b[o + 2], b[o + 3]])
}

/// (tag, offset, length) of each table of a single-font sfnt
pub fn tables(b: &[u8]) -> Vec<(String, usize, usize)> {
    let mut v = vec![];
    if b.len() < 12 {
        return v;
    }
    let n = be16(b, 4) as usize;
    for i in 0..n {
        let r = 12 + 16 * i;
        if r + 16 > b.len() {
            break;
        }
        let tag = String::from_utf8_lossy(&b[r..r + 4]).to_string();
        let off = be32(b, r + 8) as usize;
        let len = be32(b, r + 12) as usize;
        if off <= b.len() && len <= b.len() - off {
            v.push((tag, off, len));
        }
    }
    v
}

const V16: [u16; 10] = [0x0000, 0x0001, 0x0010, 0x3FFF, 0x4000, 0x7FFF, 0x8000, 0x8001, 0xC000, 0xFFFF];
const V32: [u32; 8] = [0, 1, 0x7FFF_FFFF, 0x8000_0000, 0x8000_0001, 0xFFFF_FFFF, 0x0001_0000, 0xFFFF_0000];

/// tables whose fields feed the arithmetic kernels
const NUMERIC_TABLES: [&str; 30] = [
    "head", "hhea", "vhea", "maxp", "hmtx", "vmtx", "OS/2", "post", "loca", "glyf", "cmap", "fvar", "avar", "gvar", "HVAR", "VVAR", "MVAR", "cvar", "cvt ", "fpgm", "prep", "COLR", "CPAL", "CFF ", "CFF2",
    "EBLC", "CBLC", "sbix", "VORG", "hdmx",
];

/// one structured corruption: boundary values written into `k` aligned fields of one table
fn corrupt(base: &[u8], rng: &mut Rng) -> Option<(String, Vec<u8>)> {
    let tabs: Vec<(String, usize, usize)> = tables(base).into_iter().filter(|(t, _, l)| NUMERIC_TABLES.contains(&t.as_str()) && *l >= 4).collect();
    if tabs.is_empty() {
        return None;
    }
    let (tag, off, len) = rng.pick(&tabs).clone();
    let mut b = base.to_vec();
    let k = 1 + rng.below(3);
    let mut desc = format!("table={tag}");
    for _ in 0..k {
        // bias towards the head of the table (headers hold the counts/scales)
        let span = if rng.chance(1, 2) { len.min(64) } else { len };
        if rng.chance(2, 3) || span < 4 {
            let o = (rng.below((span / 2) as u64) as usize) * 2;
            let v = *rng.pick(&V16);
            b[off + o..off + o + 2].copy_from_slice(&v.to_be_bytes());
            desc.push_str(&format!(" +{o}:u16={v:#x}"));
        } else {
            let o = (rng.below((span / 2 - 1) as u64) as usize) * 2;
            let v = *rng.pick(&V32);
            b[off + o..off + o + 4].copy_from_slice(&v.to_be_bytes());
            desc.push_str(&format!(" +{o}:u32={v:#x}"));
        }
    }
    Some((desc, b))
}

/// debugging / replay aid: `C20_PROBE="<corpus font name>|<abs byte offset>|<width>|<value>"` runs every
/// consumer on that single-field mutant and prints the traps (see the `mut=field[..@off:uN=val]` replays)
fn probe() {
    let Ok(spec) = std::env::var("C20_PROBE") else { return };
    let parts: Vec<&str> = spec.split('|').collect();
    if parts[0] == "list" {
        // `list|<substring>`: located fields of every corpus font whose path contains the substring
        for (n, b) in corpus() {
            let (fields, _, _) = crate::fields::locate(&b);
            for f in fields.iter().filter(|f| f.path.contains(parts[1])) {
                let mut v = 0u64;
                for k in 0..f.width {
                    v = (v << 8) | b[f.pos + k] as u64;
                }
                eprintln!("{n} {} @{} u{} = {v}", f.path, f.pos, 8 * f.width);
            }
        }
        std::process::exit(0);
    }
    let parse = |x: &str| if let Some(h) = x.strip_prefix("0x") { u64::from_str_radix(h, 16).unwrap() } else { x.parse::<u64>().unwrap() };
    let name = parts[0];
    let (pos, width, val) = (parse(parts[1]) as usize, parse(parts[2]) as usize, parse(parts[3]));
    let fonts = corpus();
    let base = fonts.iter().find(|(n, _)| n == name.trim_end_matches("+cmap")).map(|(_, b)| b.clone()).or_else(|| std::fs::read(name).ok()).expect("font");
    let mut b = if name.ends_with("+cmap") { with_cmap(&base).unwrap_or(base) } else { base };
    let mut v = val;
    for k in (0..width).rev() {
        b[pos + k] = (v & 0xFF) as u8;
        v >>= 8;
    }
    if let Ok(font) = FontRef::new(&b) {
        let n = font.maxp().map(|m| m.num_glyphs() as u32).unwrap_or(0);
        let mut gs: IntSet<GlyphId> = IntSet::empty();
        for g in 0..=n {
            gs.insert(GlyphId::new(g));
        }
        let unicodes: IntSet<u32> = IntSet::empty();
        let empty_tags: IntSet<Tag> = IntSet::empty();
        let mut all_tags: IntSet<Tag> = IntSet::empty();
        all_tags.invert();
        let name_ids = IntSet::empty();
        let langs: IntSet<u16> = IntSet::empty();
        let r = run_catch(|| {
            let plan = klippa::Plan::new(&gs, &unicodes, &font, klippa::SubsetFlags::default(), &empty_tags, &all_tags, &all_tags, &name_ids, &langs);
            klippa::subset_font(&font, &plan).map(|v| v.len()).map_err(|e| format!("{e:?}"))
        });
        eprintln!("probe: klippa keep=all -> {r:?}");
    }
    let mut ex = Explorer::default();
    let label = || format!("probe {spec}");
    exercise(&mut ex, &label, &b, false);
    eprintln!("probe: {} ops, {} traps, {} other panics", ex.ops, ex.traps.len(), ex.other_panics);
    for t in &ex.traps {
        eprintln!("  TRAP {} | {} | {}", t.0, t.1, t.2);
    }
    for (k, v) in &ex.counts {
        eprintln!("  {k} {v}");
    }
    std::process::exit(0);
}

pub fn run(cfg: &Config, s: &mut Session) {
    probe();
    let t0 = std::time::Instant::now();
    let mut rng = Rng::new(cfg.seed ^ 0xE20);
    let fonts = corpus();
    s.notes.push(format!("exploration corpus: {} fonts", fonts.len()));
    let mut ex = Explorer::default();
    for (name, bytes) in &fonts {
        let label = || format!("font={name} mut=none");
        exercise(&mut ex, &label, bytes, false);
    }
    let per_font = if cfg.thorough() { 400 } else { 12 };
    for (name, bytes) in &fonts {
        for _ in 0..per_font {
            if let Some((desc, b)) = corrupt(bytes, &mut rng) {
                let label = || format!("font={name} mut=[{desc}]");
                exercise(&mut ex, &label, &b, true);
            }
        }
    }
    crate::synth::run(cfg, &mut ex, &mut rng);
    let t1 = std::time::Instant::now();
    crate::matrix::run(cfg, &mut ex);
    s.notes.push(format!("bytecode setter x consumer matrix: {:.1}s", t1.elapsed().as_secs_f64()));
    let t1 = std::time::Instant::now();
    crate::glyfhostile::run(cfg, &mut ex);
    s.notes.push(format!("hostile glyf family: {:.1}s", t1.elapsed().as_secs_f64()));
    let t1 = std::time::Instant::now();
    crate::psweep::run(cfg, &mut ex, &fonts);
    s.notes.push(format!("postscript operand sweeps: {:.1}s", t1.elapsed().as_secs_f64()));
    let t1 = std::time::Instant::now();
    crate::ift::run(cfg, &mut ex);
    s.notes.push(format!("IFT families: {:.1}s", t1.elapsed().as_secs_f64()));
    let t1 = std::time::Instant::now();
    let mut synth_fonts = crate::synth::field_bases();
    synth_fonts.extend(crate::ift::base_fonts_for_fields());
    // klippa's plan panics (expect) without a cmap: corpus fonts that lack one get a minimal cmap so that
    // their mutants reach the subsetter
    let field_corpus: Vec<(String, Vec<u8>)> = fonts.iter().map(|(n, b)| match with_cmap(b) { Some(b2) => (format!("{n}+cmap"), b2), None => (n.clone(), b.clone()) }).collect();
    let note = crate::fields::run(cfg, &mut ex, &field_corpus, &synth_fonts);
    s.notes.push(format!("{note} ({:.1}s)", t1.elapsed().as_secs_f64()));
    let t1 = std::time::Instant::now();
    let note = crate::fields::enum_geometry(cfg, &mut ex, &field_corpus);
    s.notes.push(format!("{note} ({:.1}s)", t1.elapsed().as_secs_f64()));
    let (ops, other) = (ex.ops, ex.other_panics);
    let notes = std::mem::take(&mut ex.notes);
    ex.merge_into(s);
    s.notes.extend(notes);
    s.notes.push(format!("exploration phase: {:.1}s", t0.elapsed().as_secs_f64()));
    s.notes.push(format!("exploration: {ops} operations, {other} non-arithmetic panics (C01/C02 territory, not reported here)"));
}
