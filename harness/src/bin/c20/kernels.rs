//! Kernel correspondence: real function vs Model/Checked.lean, `trap` ⇔ overflow/assertion panic.
use crate::{run_catch, Outcome};
use font_types::{F26Dot6, F2Dot14, Fixed, GlyphId};
use fv_harness::common::*;
use read_fonts::{
    tables::{
        avar::SegmentMaps,
        cvar::Cvar,
        hvar::Hvar,
        variations::{DeltaSetIndex, ItemVariationStore, VariationRegionList},
    },
    FontData, FontRead,
};
use skrifa::outline::verif_hooks::hint_arith as ha;

/// canonical response + the no-trap oracle
fn k<T: std::fmt::Display>(s: &mut Session, group: &'static str, req: String, f: impl FnOnce() -> T) {
    k2(s, group, req, true, f)
}

/// `reachable = false`: arguments no caller in /repo can pass (model fidelity only, no oracle)
fn k2<T: std::fmt::Display>(s: &mut Session, group: &'static str, req: String, reachable: bool, f: impl FnOnce() -> T) {
    let (resp, detail) = match run_catch(f) {
        Outcome::Ok(v) => (v.to_string(), String::new()),
        Outcome::Trap(m) => ("trap".to_string(), m),
        Outcome::Other(m) => (format!("panic:{m}"), m),
    };
    if resp == "trap" {
        s.count(&format!("trap:{group}"));
    }
    if reachable {
        let ok = detail.is_empty();
        let name = format!("no-trap:{group}");
        crate::capped_oracle(s, &name, ok, &req, &detail);
    }
    s.case(group, req, resp);
}

pub fn boundary_i16() -> Vec<i16> {
    let mut v: Vec<i32> = vec![];
    for b in [0i32, 1, 2, 3, 63, 64, 255, 256, 0x1FFF, 0x2000, 0x3FFF, 0x4000, 0x4001, 0x5555, 0x7FFE, 0x7FFF, 0x8000] {
        for d in [-1, 0, 1] {
            v.push(b + d);
            v.push(-(b + d));
        }
    }
    let mut out: Vec<i16> = v.into_iter().filter(|x| *x >= -32768 && *x <= 32767).map(|x| x as i16).collect();
    out.sort();
    out.dedup();
    out
}

fn opt_fixed(o: Option<Fixed>) -> String {
    match o {
        Some(v) => v.to_bits().to_string(),
        None => "none".into(),
    }
}

// ---------------------------------------------------------------- font-types fixed.rs

fn fixed_unary(s: &mut Session, a: i32) {
    let f = Fixed::from_bits(a);
    let g = F26Dot6::from_bits(a);
    k(s, "fx.round", format!("fx.round 32 16 {a}"), || f.round().to_bits());
    k(s, "fx.floor", format!("fx.floor 32 16 {a}"), || f.floor().to_bits());
    k(s, "fx.fract", format!("fx.fract 32 16 {a}"), || f.fract().to_bits());
    k(s, "fx.abs", format!("fx.abs 32 {a}"), || f.abs().to_bits());
    k(s, "fx.neg", format!("fx.neg {a}"), || (-f).to_bits());
    k(s, "f26.round", format!("fx.round 32 6 {a}"), || g.round().to_bits());
    k(s, "f26.floor", format!("fx.floor 32 6 {a}"), || g.floor().to_bits());
    k(s, "f26.fract", format!("fx.fract 32 6 {a}"), || g.fract().to_bits());
    k(s, "f26.abs", format!("fx.abs 32 {a}"), || g.abs().to_bits());
    k(s, "f26.neg", format!("fx.neg {a}"), || (-g).to_bits());
    k(s, "fx.fromi32", format!("fx.fromi32 {a}"), || Fixed::from_i32(a).to_bits());
    k(s, "fx.toi32", format!("fx.toi32 {a}"), || f.to_i32());
    k(s, "fx.tof26", format!("fx.tof26 {a}"), || f.to_f26dot6().to_bits());
    k(s, "fx.tof2", format!("fx.tof2 {a}"), || f.to_f2dot14().to_bits());
    k(s, "f26.fromi32", format!("f26.fromi32 {a}"), || F26Dot6::from_i32(a).to_bits());
    k(s, "f26.toi32", format!("f26.toi32 {a}"), || g.to_i32());
}

fn f2dot14_unary(s: &mut Session, a: i16) {
    let f = F2Dot14::from_bits(a);
    k(s, "f2.round", format!("fx.round 16 14 {a}"), || f.round().to_bits());
    k(s, "f2.floor", format!("fx.floor 16 14 {a}"), || f.floor().to_bits());
    k(s, "f2.fract", format!("fx.fract 16 14 {a}"), || f.fract().to_bits());
    k(s, "f2.abs", format!("fx.abs 16 {a}"), || f.abs().to_bits());
    k(s, "f2.tofixed", format!("f2.tofixed {a}"), || f.to_fixed().to_bits());
}

fn fixed_binary(s: &mut Session, a: i32, b: i32) {
    let (fa, fb) = (Fixed::from_bits(a), Fixed::from_bits(b));
    k(s, "fx.mul", format!("fx.mul {a} {b}"), || (fa * fb).to_bits());
    k(s, "fx.div", format!("fx.div {a} {b}"), || (fa / fb).to_bits());
    k(s, "fx.add", format!("fx.add {a} {b}"), || (fa + fb).to_bits());
    k(s, "fx.sub", format!("fx.sub {a} {b}"), || (fa - fb).to_bits());
    let (ga, gb) = (F26Dot6::from_bits(a), F26Dot6::from_bits(b));
    k(s, "f26.mul", format!("fx.mul {a} {b}"), || (ga * gb).to_bits());
    k(s, "f26.div", format!("fx.div {a} {b}"), || (ga / gb).to_bits());
    k(s, "h.mul", format!("h.mul {a} {b}"), || ha::mul(a, b));
    k(s, "h.div", format!("h.div {a} {b}"), || ha::div(a, b));
    k(s, "h.mul14", format!("h.mul14 {a} {b}"), || ha::mul14(a, b));
}

fn ternary(s: &mut Session, x: i32, a: i32, b: i32) {
    k(s, "fx.muldiv", format!("fx.muldiv {x} {a} {b}"), || {
        Fixed::from_bits(x).mul_div(Fixed::from_bits(a), Fixed::from_bits(b)).to_bits()
    });
    k(s, "h.muldiv", format!("h.muldiv {x} {a} {b}"), || ha::mul_div(x, a, b));
    k(s, "h.mdnr", format!("h.mdnr {x} {a} {b}"), || ha::mul_div_no_round(x, a, b));
}

// ---------------------------------------------------------------- hint math / round

fn hint_unary(s: &mut Session, a: i32) {
    k(s, "h.floor", format!("h.floor {a}"), || ha::floor(a));
    k(s, "h.round", format!("h.round {a}"), || ha::round(a));
    k(s, "h.ceil", format!("h.ceil {a}"), || ha::ceil(a));
}

/// `Engine::super_round(grid_period, selector)` (hint/engine/graphics.rs) — harness-side copy, used
/// only to enumerate the (threshold, phase, period) triples a font program can install.
pub fn super_round(grid_period: i32, selector: i32) -> (i32, i32, i32) {
    let period = match selector & 0xC0 {
        0 => grid_period / 2,
        0x40 => grid_period,
        0x80 => grid_period * 2,
        _ => grid_period,
    };
    let phase = match selector & 0x30 {
        0 => 0,
        0x10 => period / 4,
        0x20 => period / 2,
        _ => period * 3 / 4,
    };
    let threshold = if (selector & 0x0F) == 0 { period - 1 } else { ((selector & 0x0F) - 4) * period / 8 };
    (threshold >> 8, phase >> 8, period >> 8)
}

fn round_state(s: &mut Session, mode: u8, thr: i32, ph: i32, per: i32, d: i32, reachable: bool) {
    let req = format!("rs.round {mode} {thr} {ph} {per} {d}");
    let out = run_catch(|| ha::round_state_round(mode, thr, ph, per, d).unwrap());
    let (resp, detail) = match out {
        Outcome::Ok(v) => (v.to_string(), String::new()),
        Outcome::Trap(m) => ("trap".to_string(), m),
        Outcome::Other(m) => (format!("panic:{m}"), m),
    };
    if resp == "trap" {
        s.count(&format!("trap:rs.round.mode{mode}"));
    }
    if reachable {
        // (threshold, phase, period) installable by a font program: the trap is font-reachable
        let ok = detail.is_empty();
        crate::capped_oracle(s, "no-trap:rs.round", ok, &req, &detail);
    }
    s.case("rs.round", req, resp);
}

// ---------------------------------------------------------------- avar

fn avar_bytes(maps: &[(i16, i16)]) -> Vec<u8> {
    let mut b = vec![];
    b.extend_from_slice(&(maps.len() as u16).to_be_bytes());
    for (f, t) in maps {
        b.extend_from_slice(&f.to_be_bytes());
        b.extend_from_slice(&t.to_be_bytes());
    }
    b
}

fn avar_case(s: &mut Session, maps: &[(i16, i16)], coord: i32) {
    let bytes = avar_bytes(maps);
    let mut req = format!("avar.apply {coord}");
    for (f, t) in maps {
        req.push_str(&format!(" {f} {t}"));
    }
    k(s, "avar.apply", req, || {
        let sm = SegmentMaps::read(FontData::new(&bytes)).unwrap();
        sm.apply(Fixed::from_bits(coord)).to_bits()
    });
}

// ---------------------------------------------------------------- variations

type Axis = (i16, i16, i16);

fn region_list_bytes(axis_count: u16, regions: &[Vec<Axis>]) -> Vec<u8> {
    let mut b = vec![];
    b.extend_from_slice(&axis_count.to_be_bytes());
    b.extend_from_slice(&(regions.len() as u16).to_be_bytes());
    for r in regions {
        assert_eq!(r.len(), axis_count as usize);
        for (st, pk, en) in r {
            b.extend_from_slice(&st.to_be_bytes());
            b.extend_from_slice(&pk.to_be_bytes());
            b.extend_from_slice(&en.to_be_bytes());
        }
    }
    b
}

fn region_case(s: &mut Session, axes: &[Axis], coords: &[i16]) {
    let bytes = region_list_bytes(axes.len() as u16, &[axes.to_vec()]);
    let mut req = format!("region.scalar {}", axes.len());
    for (a, b, c) in axes {
        req.push_str(&format!(" {a} {b} {c}"));
    }
    for c in coords {
        req.push_str(&format!(" {c}"));
    }
    let cs: Vec<F2Dot14> = coords.iter().map(|c| F2Dot14::from_bits(*c)).collect();
    k(s, "region.scalar", req, || {
        let l = VariationRegionList::read(FontData::new(&bytes)).unwrap();
        let r = l.variation_regions().get(0).unwrap();
        r.compute_scalar(&cs).to_bits()
    });
}

/// a `cvar` table holding one tuple variation header with an embedded peak (and optional
/// intermediate) tuple and no deltas
fn cvar_bytes(peaks: &[i16], inter: Option<(&[i16], &[i16])>) -> Vec<u8> {
    let mut h = vec![];
    h.extend_from_slice(&0u16.to_be_bytes()); // variationDataSize
    let idx: u16 = 0x8000 | if inter.is_some() { 0x4000 } else { 0 };
    h.extend_from_slice(&idx.to_be_bytes());
    for p in peaks {
        h.extend_from_slice(&p.to_be_bytes());
    }
    if let Some((st, en)) = inter {
        for p in st {
            h.extend_from_slice(&p.to_be_bytes());
        }
        for p in en {
            h.extend_from_slice(&p.to_be_bytes());
        }
    }
    let mut b = vec![0, 1, 0, 0, 0, 1];
    b.extend_from_slice(&((8 + h.len()) as u16).to_be_bytes());
    b.extend_from_slice(&h);
    b.extend_from_slice(&[0, 0, 0, 0]);
    b
}

fn tuple_case(s: &mut Session, peaks: &[i16], inter: Option<(&[i16], &[i16])>, coords: &[i16]) {
    let bytes = cvar_bytes(peaks, inter);
    let mut req = format!("tuple.scalar {}", peaks.len());
    for p in peaks {
        req.push_str(&format!(" {p}"));
    }
    match inter {
        None => req.push_str(" 0"),
        Some((st, en)) => {
            req.push_str(" 1");
            for p in st.iter().chain(en.iter()) {
                req.push_str(&format!(" {p}"));
            }
        }
    }
    for c in coords {
        req.push_str(&format!(" {c}"));
    }
    let cs: Vec<F2Dot14> = coords.iter().map(|c| F2Dot14::from_bits(*c)).collect();
    let n = peaks.len() as u16;
    k(s, "tuple.scalar", req, || {
        let cvar = Cvar::read(FontData::new(&bytes)).unwrap();
        let data = cvar.variation_data(n).unwrap();
        let t = data.tuples().next().expect("one tuple");
        opt_fixed(t.compute_scalar(&cs))
    });
}

/// ItemVariationStore with one ItemVariationData of one row of `cols.len()` deltas; column `i`
/// uses region `cols[i].0`.  Long-word rows: the first `min(len, 0x7FFF)` columns are 32-bit
/// (wordDeltaCount has 15 bits), the rest 16-bit.  Returns the bytes and the deltas as stored.
pub fn ivs_bytes(axis_count: u16, regions: &[Vec<Axis>], cols: &[(u16, i32)]) -> (Vec<u8>, Vec<(u16, i32)>) {
    let rl = region_list_bytes(axis_count, regions);
    let wide = cols.len().min(0x7FFF);
    let mut b = vec![];
    b.extend_from_slice(&1u16.to_be_bytes()); // format
    b.extend_from_slice(&12u32.to_be_bytes()); // region list offset
    b.extend_from_slice(&1u16.to_be_bytes()); // data count
    b.extend_from_slice(&((12 + rl.len()) as u32).to_be_bytes());
    b.extend_from_slice(&rl);
    // ItemVariationData
    b.extend_from_slice(&1u16.to_be_bytes()); // item count
    b.extend_from_slice(&(0x8000u16 | wide as u16).to_be_bytes());
    b.extend_from_slice(&(cols.len() as u16).to_be_bytes());
    for (r, _) in cols {
        b.extend_from_slice(&r.to_be_bytes());
    }
    let mut stored = vec![];
    for (i, (r, d)) in cols.iter().enumerate() {
        if i < wide {
            b.extend_from_slice(&d.to_be_bytes());
            stored.push((*r, *d));
        } else {
            let d16 = *d as i16;
            b.extend_from_slice(&d16.to_be_bytes());
            stored.push((*r, d16 as i32));
        }
    }
    (b, stored)
}

fn ivs_req(cmd: &str, regions: &[Vec<Axis>], cols: &[(u16, i32)], coords: &[i16]) -> String {
    let mut req = format!("{cmd} {}", coords.len());
    for c in coords {
        req.push_str(&format!(" {c}"));
    }
    req.push_str(&format!(" {}", cols.len()));
    for (r, d) in cols {
        let axes = &regions[*r as usize];
        req.push_str(&format!(" {}", axes.len()));
        for (a, b, c) in axes {
            req.push_str(&format!(" {a} {b} {c}"));
        }
        req.push_str(&format!(" {d}"));
    }
    req
}

fn ivs_case(s: &mut Session, axis_count: u16, regions: &[Vec<Axis>], cols: &[(u16, i32)], coords: &[i16]) {
    let (bytes, stored) = ivs_bytes(axis_count, regions, cols);
    let cols = &stored[..];
    let cs: Vec<F2Dot14> = coords.iter().map(|c| F2Dot14::from_bits(*c)).collect();
    k(s, "ivs.delta", ivs_req("ivs.delta", regions, cols, coords), || {
        let ivs = ItemVariationStore::read(FontData::new(&bytes)).unwrap();
        ivs.compute_delta(DeltaSetIndex { outer: 0, inner: 0 }, &cs).unwrap()
    });
    // through HVAR: advance_delta = Fixed::from_i32(compute_delta)
    let mut hv = vec![0, 1, 0, 0, 0, 0, 0, 20, 0, 0, 0, 0, 0, 0, 0, 0, 0, 0, 0, 0];
    hv.extend_from_slice(&bytes);
    k(s, "ivs.itemdelta", ivs_req("ivs.itemdelta", regions, cols, coords), || {
        let hvar = Hvar::read(FontData::new(&hv)).unwrap();
        hvar.advance_width_delta(GlyphId::new(0), &cs).unwrap().to_bits()
    });
}

// ---------------------------------------------------------------- batch 2: fvar normalize, cmap4, glyf, cvar

fn fvar_bytes(min: i32, def: i32, max: i32) -> Vec<u8> {
    let mut b = vec![0, 1, 0, 0];
    b.extend_from_slice(&16u16.to_be_bytes()); // axesArrayOffset
    b.extend_from_slice(&2u16.to_be_bytes()); // reserved
    b.extend_from_slice(&1u16.to_be_bytes()); // axisCount
    b.extend_from_slice(&20u16.to_be_bytes()); // axisSize
    b.extend_from_slice(&0u16.to_be_bytes()); // instanceCount
    b.extend_from_slice(&4u16.to_be_bytes()); // instanceSize
    b.extend_from_slice(b"wght");
    b.extend_from_slice(&min.to_be_bytes());
    b.extend_from_slice(&def.to_be_bytes());
    b.extend_from_slice(&max.to_be_bytes());
    b.extend_from_slice(&0u16.to_be_bytes());
    b.extend_from_slice(&256u16.to_be_bytes());
    b
}

fn normalize_case(s: &mut Session, min: i32, def: i32, max: i32, v: i32) {
    let bytes = fvar_bytes(min, def, max);
    k(s, "norm.axis", format!("norm.axis {min} {def} {max} {v}"), || {
        let fvar = read_fonts::tables::fvar::Fvar::read(FontData::new(&bytes)).unwrap();
        fvar.axes().unwrap()[0].normalize(Fixed::from_bits(v)).to_bits()
    });
    k(s, "norm.f2", format!("norm.f2 {min} {def} {max} {v}"), || {
        let fvar = read_fonts::tables::fvar::Fvar::read(FontData::new(&bytes)).unwrap();
        fvar.axes().unwrap()[0].normalize(Fixed::from_bits(v)).to_f2dot14().to_bits()
    });
}

struct Cmap4Spec {
    seg_count_x2: u16,
    starts: Vec<u16>,
    ends: Vec<u16>,
    deltas: Vec<i16>,
    range_offsets: Vec<u16>,
    glyph_ids: Vec<u16>,
}

fn cmap4_bytes(c: &Cmap4Spec) -> Vec<u8> {
    let n = c.starts.len();
    let mut b = vec![];
    b.extend_from_slice(&4u16.to_be_bytes());
    let len = 16 + 8 * n + 2 * c.glyph_ids.len();
    b.extend_from_slice(&(len as u16).to_be_bytes());
    b.extend_from_slice(&0u16.to_be_bytes());
    b.extend_from_slice(&c.seg_count_x2.to_be_bytes());
    b.extend_from_slice(&[0; 6]);
    for v in &c.ends {
        b.extend_from_slice(&v.to_be_bytes());
    }
    b.extend_from_slice(&[0, 0]);
    for v in &c.starts {
        b.extend_from_slice(&v.to_be_bytes());
    }
    for v in &c.deltas {
        b.extend_from_slice(&v.to_be_bytes());
    }
    for v in &c.range_offsets {
        b.extend_from_slice(&v.to_be_bytes());
    }
    for v in &c.glyph_ids {
        b.extend_from_slice(&v.to_be_bytes());
    }
    b
}

fn cmap4_case(s: &mut Session, c: &Cmap4Spec, cp: u32) {
    let bytes = cmap4_bytes(c);
    // the request carries the arrays as the parsed table exposes them
    let Ok(t) = read_fonts::tables::cmap::Cmap4::read(FontData::new(&bytes)) else {
        s.count("cmap4: unreadable subtable skipped");
        return;
    };
    let n = t.start_code().len();
    if t.end_code().len() != n || t.id_delta().len() != n || t.id_range_offsets().len() != n {
        s.count("cmap4: uneven arrays skipped");
        return;
    }
    let mut req = format!("cmap4.map {cp} {} {n}", t.seg_count_x2());
    for v in t.start_code() {
        req.push_str(&format!(" {}", v.get()));
    }
    for v in t.end_code() {
        req.push_str(&format!(" {}", v.get()));
    }
    for v in t.id_delta() {
        req.push_str(&format!(" {}", v.get()));
    }
    for v in t.id_range_offsets() {
        req.push_str(&format!(" {}", v.get()));
    }
    req.push_str(&format!(" {}", t.glyph_id_array().len()));
    for v in t.glyph_id_array() {
        req.push_str(&format!(" {}", v.get()));
    }
    if read_fonts::tables::cmap::Cmap4::read(FontData::new(&bytes)).is_err() {
        s.count("cmap4: unreadable subtable skipped");
        return;
    }
    k(s, "cmap4.map", req, || {
        let t = read_fonts::tables::cmap::Cmap4::read(FontData::new(&bytes)).unwrap();
        match t.map_codepoint(cp) {
            Some(g) => g.to_u32().to_string(),
            None => "none".into(),
        }
    });
}

/// one simple glyph from per-point (flag bits, x raw, y raw); flags are written without repeats
/// or with a run-length encoding of equal consecutive flags
fn glyph_case(s: &mut Session, rng: &mut Rng) {
    let n = 1 + rng.below(12) as usize;
    let mut flags: Vec<u8> = vec![];
    let mut xs: Vec<(bool, bool, i32)> = vec![];
    let mut ys: Vec<(bool, bool, i32)> = vec![];
    for i in 0..n {
        let f = if i > 0 && rng.chance(1, 3) { flags[i - 1] } else { (rng.next() as u8) & 0x37 };
        flags.push(f);
        let pick16 = |rng: &mut Rng| *rng.pick(&[i16::MIN, -32767, -256, -1, 0, 1, 255, 256, 32767]);
        let xsht = f & 0x02 != 0;
        let xsame = f & 0x10 != 0;
        let xr = if xsht { *rng.pick(&[0u8, 1, 127, 128, 255]) as i32 } else if !xsame { pick16(rng) as i32 } else { 0 };
        xs.push((xsht, xsame, xr));
        let ysht = f & 0x04 != 0;
        let ysame = f & 0x20 != 0;
        let yr = if ysht { *rng.pick(&[0u8, 1, 127, 128, 255]) as i32 } else if !ysame { pick16(rng) as i32 } else { 0 };
        ys.push((ysht, ysame, yr));
    }
    // encode
    let mut b: Vec<u8> = vec![];
    b.extend_from_slice(&1i16.to_be_bytes());
    b.extend_from_slice(&[0; 8]);
    b.extend_from_slice(&((n - 1) as u16).to_be_bytes());
    b.extend_from_slice(&0u16.to_be_bytes());
    let mut i = 0;
    while i < n {
        let mut run = 1;
        while i + run < n && flags[i + run] == flags[i] && run < 256 {
            run += 1;
        }
        if run > 1 && rng.chance(2, 3) {
            b.push(flags[i] | 0x08);
            b.push((run - 1) as u8);
            i += run;
        } else {
            b.push(flags[i]);
            i += 1;
        }
    }
    for (sh, same, r) in &xs {
        if *sh {
            b.push(*r as u8);
        } else if !*same {
            b.extend_from_slice(&(*r as i16).to_be_bytes());
        }
    }
    for (sh, same, r) in &ys {
        if *sh {
            b.push(*r as u8);
        } else if !*same {
            b.extend_from_slice(&(*r as i16).to_be_bytes());
        }
    }
    let req_of = |cmd: &str, ax: &[(bool, bool, i32)]| {
        let mut r = cmd.to_string();
        for (a, b2, c) in ax {
            r.push_str(&format!(" {} {} {c}", *a as u8, *b2 as u8));
        }
        r
    };
    use read_fonts::tables::glyf::{PointFlags, SimpleGlyph};
    use read_fonts::types::Point;
    for (axis, ax) in [(0, &xs), (1, &ys)] {
        k(s, "glyf.iteraxis", req_of("glyf.iteraxis", ax), || {
            let g = SimpleGlyph::read(FontData::new(&b)).unwrap();
            let v: Vec<i32> = g.points().map(|p| if axis == 0 { p.x as i32 } else { p.y as i32 }).collect();
            assert_eq!(v.len(), n, "point count");
            join(&v)
        });
        k(s, "glyf.fastaxis", req_of("glyf.fastaxis", ax), || {
            let g = SimpleGlyph::read(FontData::new(&b)).unwrap();
            let mut pts = vec![Point::<i32>::default(); n];
            let mut fl = vec![PointFlags::default(); n];
            g.read_points_fast(&mut pts, &mut fl).unwrap();
            let v: Vec<i32> = pts.iter().map(|p| if axis == 0 { p.x } else { p.y }).collect();
            join(&v)
        });
    }
}

/// cvar with one axis: tuple `k` has peak `tuples[k].0` and one delta for cvt[0]
fn cvar_multi_bytes(tuples: &[(i16, i16)]) -> Vec<u8> {
    let mut hdr = vec![];
    let mut data = vec![];
    for (peak, d) in tuples {
        hdr.extend_from_slice(&4u16.to_be_bytes()); // variationDataSize
        hdr.extend_from_slice(&0xA000u16.to_be_bytes()); // embedded peak + private points
        hdr.extend_from_slice(&peak.to_be_bytes());
        data.extend_from_slice(&[0x00, 0x40]); // all points; one word delta
        data.extend_from_slice(&d.to_be_bytes());
    }
    let mut b = vec![0, 1, 0, 0];
    b.extend_from_slice(&(tuples.len() as u16).to_be_bytes());
    b.extend_from_slice(&((8 + hdr.len()) as u16).to_be_bytes());
    b.extend_from_slice(&hdr);
    b.extend_from_slice(&data);
    b
}

fn cvar_case(s: &mut Session, tuples: &[(i16, i16)], coord: i16) {
    let bytes = cvar_multi_bytes(tuples);
    let mut req = format!("cvar.delta {coord}");
    for (p, d) in tuples {
        req.push_str(&format!(" {p} {d}"));
    }
    k(s, "cvar.delta", req, || {
        let cvar = Cvar::read(FontData::new(&bytes)).unwrap();
        let mut out = [0i32; 1];
        cvar.deltas(1, &[F2Dot14::from_bits(coord)], &mut out).unwrap();
        out[0]
    });
}

fn batch2(s: &mut Session, rng: &mut Rng, g32: &[i32], g16: &[i16], scale: u64) {
    // fvar normalize: boundary axis records x boundary values
    let fx: Vec<i32> = vec![i32::MIN, i32::MIN + 1, -0x7FFF_0000, -65536 * 1000, -65536, -1, 0, 1, 65536, 100 * 65536, 400 * 65536, 900 * 65536, 0x7FFF_0000, i32::MAX - 1, i32::MAX];
    for &mn in &fx {
        for &df in &fx {
            for &mx in &fx {
                for &v in &[i32::MIN, mn, mn.wrapping_add(1), df.wrapping_sub(1), df, df.wrapping_add(1), mx, 0, i32::MAX] {
                    normalize_case(s, mn, df, mx, v);
                }
            }
        }
    }
    for _ in 0..3_000 * scale {
        let p = |rng: &mut Rng| if rng.chance(1, 2) { *rng.pick(g32) } else { (rng.next() as i32) >> rng.below(32) };
        normalize_case(s, p(rng), p(rng), p(rng), p(rng));
    }
    // cmap4
    for _ in 0..4_000 * scale {
        let n = 1 + rng.below(5) as usize;
        let mut cuts: Vec<u16> = (0..2 * n).map(|_| if rng.chance(1, 3) { *rng.pick(&[0u16, 1, 0x7FFF, 0x8000, 0xFFFE, 0xFFFF]) } else { rng.below(0x10000) as u16 }).collect();
        if rng.chance(4, 5) {
            cuts.sort();
        }
        let starts: Vec<u16> = (0..n).map(|i| cuts[2 * i]).collect();
        let ends: Vec<u16> = (0..n).map(|i| cuts[2 * i + 1]).collect();
        let m = rng.below(6) as usize;
        let spec = Cmap4Spec {
            seg_count_x2: if rng.chance(5, 6) { (2 * n) as u16 } else { *rng.pick(&[0u16, 1, 3, 0xFFFF, 0x8000, (2 * n + 2) as u16]) },
            deltas: (0..n).map(|_| *rng.pick(g16)).collect(),
            range_offsets: (0..n).map(|i| match rng.below(5) { 0 | 1 => 0, 2 => (2 * (n - i)) as u16, 3 => *rng.pick(&[1u16, 2, 3, 0xFFFE, 0xFFFF, 0x8000]), _ => (2 * (n - i) + 2 * rng.below(4) as usize) as u16 }).collect(),
            glyph_ids: (0..m).map(|_| *rng.pick(&[0u16, 1, 2, 0x7FFF, 0x8000, 0xFFFF])).collect(),
            starts,
            ends,
        };
        let mut cps: Vec<u32> = vec![0, 0xFFFF, rng.below(0x10000) as u32];
        for i in 0..n {
            cps.push(spec.starts[i] as u32);
            cps.push(spec.ends[i] as u32);
            cps.push((spec.starts[i] as u32 + spec.ends[i] as u32) / 2);
        }
        for cp in cps {
            cmap4_case(s, &spec, cp);
        }
    }
    // glyf point decoding
    for _ in 0..3_000 * scale {
        glyph_case(s, rng);
    }
    // cvar accumulation
    for _ in 0..2_000 * scale {
        let n = 1 + rng.below(4) as usize;
        let tuples: Vec<(i16, i16)> = (0..n).map(|_| (*rng.pick(&[16384i16, -16384, 8192, 1, 32767, -32768, 0]), *rng.pick(&[i16::MIN, -16384, -1, 0, 1, 16383, 16384, 20000, i16::MAX]))).collect();
        let coord = *rng.pick(&[16384i16, -16384, 8192, 1, 32767, -32768, 0, 4096]);
        cvar_case(s, &tuples, coord);
    }
    cvar_case(s, &[(16384, 16384), (16384, 16384)], 16384);
    // klippa padded_size
    for l in [0usize, 1, 2, 3, 0xFFFF, 0x1FFFE, 0xFFFF_FFFF, usize::MAX - 1] {
        k(s, "pad.size", format!("pad.size {l}"), || klippa::verif_hooks::padded_size(l));
    }
}


// ---------------------------------------------------------------- batch 3: DeltaSetIndexMap::get, DELTA exceptions, IFT ids

/// `DeltaSetIndexMap::get` on a format 0 (u16 count) or format 1 (u32 count) map
fn dsim_case(s: &mut Session, format: u8, entry_format: u8, map_count: u32, data: &[u8], index: u32) {
    use read_fonts::tables::variations::DeltaSetIndexMap;
    let mut bytes = vec![format, entry_format];
    if format == 0 {
        bytes.extend_from_slice(&(map_count as u16).to_be_bytes());
    } else {
        bytes.extend_from_slice(&map_count.to_be_bytes());
    }
    bytes.extend_from_slice(data);
    let Ok(map) = DeltaSetIndexMap::read(FontData::new(&bytes)) else {
        s.count("dsim: unreadable map skipped");
        return;
    };
    // the request carries the fields as the parsed table exposes them
    let (ef, mc, md): (u8, u32, &[u8]) = match &map {
        DeltaSetIndexMap::Format0(f) => (f.entry_format().bits(), f.map_count() as u32, f.map_data()),
        DeltaSetIndexMap::Format1(f) => (f.entry_format().bits(), f.map_count(), f.map_data()),
    };
    let mut req = format!("dsim.get {ef} {mc} {index} {}", md.len());
    for b in md {
        req.push_str(&format!(" {b}"));
    }
    k(s, "dsim.get", req, || match map.get(index) {
        Ok(ix) => format!("{} {}", ix.outer, ix.inner),
        Err(_) => "err".to_string(),
    });
}

struct XPen(Option<f32>);
impl skrifa::outline::OutlinePen for XPen {
    fn move_to(&mut self, x: f32, _y: f32) {
        if self.0.is_none() {
            self.0 = Some(x);
        }
    }
    fn line_to(&mut self, _x: f32, _y: f32) {}
    fn quad_to(&mut self, _a: f32, _b: f32, _x: f32, _y: f32) {}
    fn curve_to(&mut self, _a: f32, _b: f32, _c: f32, _d: f32, _x: f32, _y: f32) {}
    fn close(&mut self) {}
}

/// `[SDB sdb] [SDS sds] DELTAP/DELTAC(arg)` executed by the REAL interpreter at `ppem`: the adjustment is
/// observed end to end as the x coordinate (26.6) of point 0, which starts at the origin
/// (DELTAP moves it; DELTAC adjusts cvt[0] = 0, which `RCVT` + `SHPIX` then applies to the point).
fn delta_case(s: &mut Session, ppem: u16, sdb: Option<i32>, sds: Option<i32>, variant: u8, cvt_form: bool, arg: i32) {
    use crate::synth::{build, push_i32, triangle, Spec, PUSHB1};
    use skrifa::{
        instance::{Location, Size},
        outline::{DrawSettings, Engine, HintingInstance, HintingOptions, Target},
        MetadataProvider,
    };
    let mut code = vec![];
    if let Some(n) = sdb {
        push_i32(&mut code, n);
        code.push(0x5E);
    }
    if let Some(n) = sds {
        push_i32(&mut code, n);
        code.push(0x5F);
    }
    push_i32(&mut code, arg);
    code.extend_from_slice(&[PUSHB1, 0, PUSHB1, 1]);
    let op = match (cvt_form, variant) {
        (false, 0) => 0x5D,
        (false, 16) => 0x71,
        (false, _) => 0x72,
        (true, 0) => 0x73,
        (true, 16) => 0x74,
        (true, _) => 0x75,
    };
    code.push(op);
    if cvt_form {
        // point 0, cvt[0], SHPIX
        code.extend_from_slice(&[PUSHB1, 0, PUSHB1, 0, 0x45, 0x38]);
    }
    let spec = Spec { upem: 1000, advances: vec![(500, 0)], glyphs: vec![triangle(code, false)], cvt: vec![0, 64], fpgm: vec![], prep: vec![], ascender: 800, descender: -200 };
    let bytes = build(&spec);
    let req = format!("delta.prog {ppem} {} {} {} {} {variant} {arg}", sdb.is_some() as u8, sdb.unwrap_or(0), sds.is_some() as u8, sds.unwrap_or(0));
    let group = if cvt_form { "delta.c" } else { "delta.p" };
    let class = std::cell::Cell::new("trap");
    let class_ref = &class;
    k(s, group, req, move || {
        let font = read_fonts::FontRef::new(&bytes).unwrap();
        let outlines = font.outline_glyphs();
        let opts = HintingOptions { engine: Engine::Interpreter, target: Target::Mono };
        let inst = HintingInstance::new(&outlines, Size::new(ppem as f32), &Location::default(), opts).expect("instance");
        let glyph = outlines.get(GlyphId::new(0)).unwrap();
        let mut pen = XPen(None);
        match glyph.draw(DrawSettings::hinted(&inst, true), &mut pen) {
            Err(_) => {
                class_ref.set("err");
                "err".to_string()
            }
            Ok(_) => {
                let x = pen.0.expect("first point") * 64.0;
                assert_eq!(x, x.round(), "26.6 coordinate");
                if x == 0.0 {
                    class_ref.set("not-applied");
                    "none".to_string()
                } else {
                    class_ref.set("applied");
                    (x as i64).to_string()
                }
            }
        }
    });
    s.count(&format!("{group}:{}", class.get()));
}

/// the numeric ids of a format 2 patch map whose entries carry the given id deltas
fn f2ids_case(s: &mut Session, deltas: &[Option<i32>]) {
    use crate::ift::{assemble, base_tables, f2_table, F2Entry};
    use incremental_font_transfer::patchmap::{verif_hooks as pmh, PatchId};
    let entries: Vec<F2Entry> = deltas.iter().map(|d| F2Entry { delta: *d, format: None, ignored: false, codepoints: true }).collect();
    let table = f2_table(&[0, 0, 0, 1, 0, 0, 0, 2, 0, 0, 0, 3, 0, 0, 0, 4], 3, &entries, None);
    let bytes = assemble(&table, None, &base_tables(2, true));
    let mut req = "ift.f2ids".to_string();
    for d in deltas {
        req.push_str(&format!(" {}", d.unwrap_or(99_999_999)));
    }
    k(s, "ift.f2ids", req, || {
        let font = read_fonts::FontRef::new(&bytes).unwrap();
        match pmh::format2_entries(&font, false) {
            Err(_) => "err".to_string(),
            Ok(es) => {
                let ids: Vec<i64> = es
                    .iter()
                    .map(|e| match &e.uri.id {
                        PatchId::Numeric(v) => *v as i64,
                        _ => -1,
                    })
                    .collect();
                join(&ids)
            }
        }
    });
}

fn batch3(s: &mut Session, rng: &mut Rng, scale: u64) {
    // --- DeltaSetIndexMap::get: every entry format byte x map counts incl. 0 x boundary indices
    for ef in 0u16..=255 {
        let ef = ef as u8;
        let es = (((ef & 0x30) >> 4) + 1) as usize;
        for (format, mc) in [(0u8, 0u32), (1, 0), (0, 1), (1, 1), (0, 3), (1, 5)] {
            let data: Vec<u8> = (0..es * mc as usize).map(|_| *rng.pick(&[0u8, 1, 0x7F, 0x80, 0xFF])).collect();
            for ix in [0u32, 1, mc.wrapping_sub(1), mc, mc + 1, 0xFFFF, 0x10000, u32::MAX - 1, u32::MAX] {
                dsim_case(s, format, ef, mc, &data, ix);
            }
        }
    }
    for _ in 0..400 * scale {
        let ef = rng.next() as u8;
        let es = (((ef & 0x30) >> 4) + 1) as usize;
        let format = rng.below(2) as u8;
        let mc = *rng.pick(&[0u32, 1, 2, 7, 255, 256]);
        let extra = rng.below(3) as usize;
        let data = rng.bytes(es * mc as usize + extra);
        for _ in 0..4 {
            let ix = if rng.chance(1, 2) { rng.below(mc as u64 + 2) as u32 } else { rng.next() as u32 };
            dsim_case(s, format, ef, mc, &data, ix);
        }
    }
    // large counts: format 0 at its maximum, format 1 beyond 16 bits
    for (format, mc, ef) in [(0u8, 0xFFFFu32, 0x00u8), (0, 0xFFFF, 0x3F), (1, 0x1_0001, 0x0F), (1, 70_000, 0x3F)] {
        let es = (((ef & 0x30) >> 4) + 1) as usize;
        let data: Vec<u8> = (0..es * mc as usize).map(|i| (i * 37 % 251) as u8).collect();
        for ix in [0u32, mc - 1, mc, u32::MAX] {
            dsim_case(s, format, ef, mc, &data, ix);
        }
    }

    // --- DELTAP / DELTAC: SDB x SDS x variant x ppem chosen so that a nibble applies x magnitude
    let vals = crate::matrix::VALUES;
    for cvt_form in [false, true] {
        for variant in [0u8, 16, 32] {
            for sds in std::iter::once(None).chain(vals.iter().map(|v| Some(*v))).chain([Some(2), Some(5)]) {
                for sdb in [None, Some(0), Some(1), Some(63), Some(-1), Some(65536 + 20)] {
                    let base = sdb.map(|n| n as u16).unwrap_or(9) as u32;
                    for nib in [0u32, 7, 15] {
                        let target = base + variant as u32 + nib;
                        for ppem in [target, target + 1] {
                            if ppem == 0 || ppem > 65535 {
                                continue;
                            }
                            for mag in [0i32, 7, 8, 15] {
                                let arg = ((nib as i32) << 4) | mag | if mag == 7 { 0x7FFF_FF00u32 as i32 } else { 0 };
                                delta_case(s, ppem as u16, sdb, sds, variant, cvt_form, arg);
                            }
                        }
                    }
                }
            }
        }
    }
    for _ in 0..300 * scale {
        let sdb = if rng.chance(1, 2) { Some(rng.range(0, 40) as i32) } else { None };
        let sds = if rng.chance(2, 3) { Some(rng.range(-2, 8) as i32) } else { None };
        let variant = *rng.pick(&[0u8, 16, 32]);
        let ppem = rng.range(1, 80) as u16;
        let arg = if rng.chance(1, 2) { rng.below(256) as i32 } else { rng.next() as i32 };
        delta_case(s, ppem, sdb, sds, variant, rng.chance(1, 2), arg);
    }

    // --- format 2 entry ids
    let climb = |target: i64| -> Vec<Option<i32>> {
        let mut v = vec![];
        let mut cur = 0i64;
        while target - cur > 0x80_0000 {
            v.push(Some(0x7F_FFFF));
            cur += 0x80_0000;
        }
        v.push(Some((target - cur - 1) as i32));
        v
    };
    for target in [0i64, 1, 0x7FFF_FFFF, 0x8000_0000, u32::MAX as i64 - 1, u32::MAX as i64, u32::MAX as i64 + 1] {
        for follower in [None, Some(0), Some(1), Some(-1), Some(-5), Some(0x7F_FFFF), Some(-0x80_0000)] {
            let mut ds = climb(target);
            ds.push(follower);
            ds.push(None);
            f2ids_case(s, &ds);
        }
    }
    for _ in 0..300 * scale {
        let n = 1 + rng.below(6) as usize;
        let ds: Vec<Option<i32>> = (0..n)
            .map(|_| {
                let r = rng.range(-40, 40) as i32;
                if rng.chance(1, 4) {
                    None
                } else {
                    Some(*rng.pick(&[-0x80_0000, -2, -1, 0, 1, 5, 0x7F_FFFF, r]))
                }
            })
            .collect();
        f2ids_case(s, &ds);
    }
}

// ---------------------------------------------------------------- batch 4: both sides of the rejection guards

/// `resolve_coords_len` through `SimpleGlyph::points()` (model: resolveCoordsLen + the length test of
/// points_impl) and `read_points_fast` (no-trap oracle): `tail` = flag and coordinate bytes of a glyph with
/// `total` points
fn points_case(s: &mut Session, total: u16, tail: &[u8]) {
    use read_fonts::tables::glyf::{PointFlags, SimpleGlyph};
    use read_fonts::types::Point;
    let rec = crate::glyfhostile::simple(&[total - 1], 0, &[], tail);
    let mut req = format!("glyf.points {total} {}", tail.len());
    for b in tail {
        req.push_str(&format!(" {b}"));
    }
    k(s, "glyf.points", req.clone(), || {
        let g = SimpleGlyph::read(FontData::new(&rec)).unwrap();
        g.points().count()
    });
    let out = run_catch(|| {
        let g = SimpleGlyph::read(FontData::new(&rec)).unwrap();
        let n = g.num_points();
        let mut pts = vec![Point::<i32>::default(); n];
        let mut fl = vec![PointFlags::default(); n];
        g.read_points_fast(&mut pts, &mut fl).is_ok()
    });
    let (ok, detail) = match out {
        Outcome::Trap(m) => (false, m),
        _ => (true, String::new()),
    };
    crate::capped_oracle(s, "no-trap:glyf.read_points_fast", ok, &req, &detail);
}

fn batch4(s: &mut Session, rng: &mut Rng, scale: u64) {
    // the guard `repeats > flags_left` of resolve_coords_len, at -1 / 0 / +1 .. +255, with the repeat in
    // first / middle / last position, for every flag class (coordinate widths)
    let pad = [0u8; 1200];
    for total in [1u16, 2, 3, 10, 255, 256, 257, 300] {
        for prefix in [0u16, 1, total / 2, total.saturating_sub(1)] {
            if prefix >= total {
                continue;
            }
            let left = (total - prefix) as i32;
            for over in [-2i32, -1, 0, 1, 2, 3, 100, 254, 255] {
                let rep = left + over - 1;
                if !(0..=255).contains(&rep) {
                    continue;
                }
                for flag in [0x08u8, 0x09, 0x0B, 0x0F, 0x1B, 0x39, 0x3F, 0x2D] {
                    let mut tail: Vec<u8> = (0..prefix).map(|i| [0x01u8, 0x31, 0x07, 0x37][i as usize % 4]).collect();
                    tail.push(flag);
                    tail.push(rep as u8);
                    // what follows completes a short stream / is garbage after an overshoot
                    tail.extend_from_slice(&[0x01, 0x01, 0x09, 0xFF, 0x08, 0x00]);
                    tail.extend_from_slice(&pad);
                    points_case(s, total, &tail);
                    // the same stream cut right after the repeat byte and in the middle of the coordinates
                    points_case(s, total, &tail[..prefix as usize + 2]);
                    points_case(s, total, &tail[..(prefix as usize + 2 + total as usize).min(tail.len())]);
                }
            }
        }
    }
    for _ in 0..600 * scale {
        let total = *rng.pick(&[1u16, 2, 5, 17, 256, 600]);
        let n = 1 + rng.below(12) as usize;
        let mut tail: Vec<u8> = (0..n).map(|_| if rng.chance(1, 3) { (rng.next() as u8) | 0x08 } else { rng.next() as u8 }).collect();
        let extra = rng.below(40) as usize;
        tail.extend(rng.bytes(extra));
        if rng.chance(1, 2) {
            tail.extend_from_slice(&pad);
        }
        points_case(s, total, &tail);
    }
}

fn rand_axis(rng: &mut Rng, g16: &[i16]) -> Axis {
    match rng.below(4) {
        0 => (*rng.pick(g16), *rng.pick(g16), *rng.pick(g16)),
        1 => {
            // well-formed tent
            let mut v = [*rng.pick(g16), *rng.pick(g16), *rng.pick(g16)];
            v.sort();
            (v[0], v[1], v[2])
        }
        2 => {
            let mut v = [rng.range(-16384, 16384) as i16, rng.range(-16384, 16384) as i16, rng.range(-16384, 16384) as i16];
            v.sort();
            (v[0], v[1], v[2])
        }
        _ => {
            // positive-side tent with the widest legal span
            let mut v = [rng.range(0, 32767) as i16, rng.range(0, 32767) as i16, rng.range(0, 32767) as i16];
            v.sort();
            (v[0], v[1], v[2])
        }
    }
}

pub fn run(cfg: &Config, s: &mut Session) {
    let t0 = std::time::Instant::now();
    run_inner(cfg, s);
    s.notes.push(format!("kernel phase: {:.1}s", t0.elapsed().as_secs_f64()));
}

fn run_inner(cfg: &Config, s: &mut Session) {
    let mut rng = Rng::new(cfg.seed ^ 0xC20);
    let g32 = boundary_i32();
    let g16 = boundary_i16();
    let scale = if cfg.thorough() { 10 } else { 1 };
    s.notes.push(format!("kernel grids: {} i32 operands, {} i16 operands", g32.len(), g16.len()));

    // --- fixed.rs + hint math
    for &a in &g32 {
        fixed_unary(s, a);
        hint_unary(s, a);
        for &b in &g32 {
            fixed_binary(s, a, b);
        }
    }
    for &a in &g16 {
        f2dot14_unary(s, a);
    }
    for v in i16::MIN..=i16::MAX {
        if v % 97 == 0 {
            f2dot14_unary(s, v);
        }
    }
    for _ in 0..20_000 * scale {
        let a = (rng.next() as i32) >> rng.below(32);
        let b = (rng.next() as i32) >> rng.below(32);
        fixed_unary(s, a);
        hint_unary(s, a);
        fixed_binary(s, a, b);
    }
    let small: Vec<i32> = g32
        .iter()
        .copied()
        .filter(|x| x.unsigned_abs() < 4 || x.unsigned_abs() > 0x7FFF_FFF0 || [0x8000u32, 0x10000, 64, 0x4000].contains(&x.unsigned_abs()))
        .collect();
    for &x in &g32 {
        for &a in &small {
            for &b in &small {
                ternary(s, x, a, b);
                ternary(s, a, x, b);
                ternary(s, a, b, x);
            }
        }
    }
    for _ in 0..20_000 * scale {
        let x = (rng.next() as i32) >> rng.below(32);
        let a = (rng.next() as i32) >> rng.below(32);
        let b = (rng.next() as i32) >> rng.below(32);
        ternary(s, x, a, b);
    }
    // round_pad: the only caller passes n = 32; other n exercise floor_pad's `n - 1`
    for &x in &g32 {
        for n in [32, 1, 2, 64, 0, -1, 3, 0x4000_0000, i32::MAX, i32::MIN, i32::MIN + 1] {
            k2(s, "h.roundpad", format!("h.roundpad {x} {n}"), n == 32, || ha::round_pad(x, n));
        }
    }

    // --- RoundState::round: reachable states = default + every SROUND / S45ROUND selector
    let mut states: Vec<(i32, i32, i32)> = vec![(0, 0, 64)];
    for grid in [0x4000, 0x2D41] {
        for sel in 0..256 {
            states.push(super_round(grid, sel));
        }
    }
    states.sort();
    states.dedup();
    s.notes.push(format!("round states installable by SROUND/S45ROUND: {}", states.len()));
    for mode in 0u8..8 {
        let sts: &[(i32, i32, i32)] = if mode >= 6 { &states } else { &states[..1] };
        for &(t, p, per) in sts {
            for &d in &g32 {
                round_state(s, mode, t, p, per, d, true);
            }
        }
    }
    // unreachable states (model fidelity only): arbitrary threshold/phase/period incl. 0, -1, MIN
    for _ in 0..6_000 * scale {
        let mode = rng.below(8) as u8;
        let pick = |rng: &mut Rng| if rng.chance(1, 2) { *rng.pick(&g32) } else { rng.range(-300, 300) as i32 };
        let (t, p, per, d) = (pick(&mut rng), pick(&mut rng), pick(&mut rng), pick(&mut rng));
        round_state(s, mode, t, p, per, d, false);
    }

    // --- avar
    for _ in 0..3_000 * scale {
        let n = rng.below(5) as usize;
        let mut maps: Vec<(i16, i16)> = (0..n).map(|_| (*rng.pick(&g16), *rng.pick(&g16))).collect();
        if rng.chance(3, 4) {
            maps.sort();
        }
        let mut coords: Vec<i32> = vec![*rng.pick(&g32), rng.range(-70000, 70000) as i32, (rng.next() as i32) >> rng.below(32)];
        for (f, _) in &maps {
            coords.push(*f as i32 * 4 + rng.range(-1, 1) as i32);
        }
        for c in coords {
            avar_case(s, &maps, c);
        }
    }

    // --- tents
    for _ in 0..6_000 * scale {
        let n = 1 + rng.below(3) as usize;
        let axes: Vec<Axis> = (0..n).map(|_| rand_axis(&mut rng, &g16)).collect();
        let nc = rng.below(n as u64 + 2) as usize;
        let coords: Vec<i16> = (0..nc)
            .map(|i| {
                let (a, b, c) = axes.get(i).copied().unwrap_or((0, 0, 0));
                match rng.below(6) {
                    0 => *rng.pick(&g16),
                    1 => a,
                    2 => b,
                    3 => c,
                    4 => ((a as i32 + b as i32) / 2) as i16,
                    _ => ((b as i32 + c as i32) / 2) as i16,
                }
            })
            .collect();
        region_case(s, &axes, &coords);
        // tuple scalar on the same numbers
        let peaks: Vec<i16> = axes.iter().map(|a| a.1).collect();
        let starts: Vec<i16> = axes.iter().map(|a| a.0).collect();
        let ends: Vec<i16> = axes.iter().map(|a| a.2).collect();
        tuple_case(s, &peaks, None, &coords);
        tuple_case(s, &peaks, Some((&starts, &ends)), &coords);
    }

    // --- compute_delta
    let one: Axis = (0, 16384, 16384);
    for _ in 0..1_500 * scale {
        let axis_count = 1 + rng.below(2) as u16;
        let nreg = 1 + rng.below(3) as usize;
        let regions: Vec<Vec<Axis>> = (0..nreg)
            .map(|_| (0..axis_count).map(|_| if rng.chance(1, 3) { one } else { rand_axis(&mut rng, &g16) }).collect())
            .collect();
        let ncols = rng.below(5) as usize;
        let cols: Vec<(u16, i32)> = (0..ncols).map(|_| (rng.below(nreg as u64) as u16, *rng.pick(&g32))).collect();
        let coords: Vec<i16> = (0..rng.below(3)).map(|_| if rng.chance(1, 2) { 16384 } else { *rng.pick(&g16) }).collect();
        ivs_case(s, axis_count, &regions, &cols, &coords);
    }
    batch2(s, &mut rng, &g32, &g16, scale);
    batch3(s, &mut rng, scale);
    batch4(s, &mut rng, scale);
    // worst-case accumulation: the maximal number of columns, extreme deltas, scalar 1.0
    for (n, d) in [(65535usize, i32::MIN), (65535, i32::MAX), (32767, i32::MIN), (32767, i32::MAX), (3, i32::MIN), (1, i32::MIN)] {
        let cols: Vec<(u16, i32)> = (0..n).map(|_| (0u16, d)).collect();
        ivs_case(s, 1, &[vec![one]], &cols, &[16384]);
    }
}
