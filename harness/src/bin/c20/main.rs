//! C20 — no arithmetic overflow / debug assertion reachable from font data.
//!
//! Two parts:
//!  * `kernels`: correspondence of the arithmetic kernels of Model/Checked.lean against the REAL
//!    functions on boundary grids (model says `trap` ⇔ the real function panics with an
//!    overflow/assertion payload in this strict profile), plus a `no-trap:<kernel>` oracle per
//!    call (every trap is a concrete failing input; those the model proves are replayed here).
//!  * `explore`: parsing / traversal / drawing / metrics / subset / patch operations on the
//!    corpus, structured corruptions and boundary-valued synthetic fonts under catch_unwind;
//!    a panic payload with "overflow"/"assertion" is a C20 oracle failure (other panics belong to
//!    C01/C02: counted, not reported).
use fv_harness::common::*;

mod explore;
mod fields;
mod glyfhostile;
mod ift;
mod kernels;
mod matrix;
mod psweep;
mod synth;

use std::cell::RefCell;

thread_local! {
    static LAST_SITE: RefCell<String> = RefCell::new(String::new());
}

/// file:line of the most recent panic on this thread
pub fn last_site() -> String {
    LAST_SITE.with(|s| s.borrow().clone())
}

fn install_hook() {
    std::panic::set_hook(Box::new(|info| {
        let loc = info
            .location()
            .map(|l| {
                // crate-relative path: independent of where the tree under test is checked out
                let f = l.file();
                let f = ["font-types/", "read-fonts/", "write-fonts/", "skrifa/", "klippa/", "incremental-font-transfer/", "shared-brotli-patch-decoder/"]
                    .iter()
                    .filter_map(|c| f.find(&format!("/{c}")).map(|i| &f[i + 1..]))
                    .next()
                    .unwrap_or(f);
                format!("{}:{}", f, l.line())
            })
            .unwrap_or_else(|| "?".into());
        // when the panic is raised inside a shared helper (font-types operators, core::num), name
        // the first fontations frames of the caller chain as well
        let loc = if loc.starts_with("font-types/") || loc.starts_with("/rustc/") {
            let bt = std::backtrace::Backtrace::force_capture().to_string();
            let mut callers: Vec<String> = vec![];
            for line in bt.lines() {
                let l = line.trim();
                if let Some(pos) = l.find(": ") {
                    let f = &l[pos + 2..];
                    if (f.starts_with("skrifa::") || f.starts_with("read_fonts::") || f.starts_with("klippa::") || f.starts_with("incremental_font_transfer::") || f.starts_with("<skrifa::") || f.starts_with("<read_fonts::") || f.starts_with("<klippa::")) && callers.len() < 2 {
                        // drop the hash suffix
                        let f = match f.rfind("::h") {
                            Some(i) if f.len() - i == 19 => &f[..i],
                            _ => f,
                        };
                        let f = f.replace("skrifa::outline::glyf::hint::", "hint::");
                        callers.push(f.to_string());
                    }
                }
            }
            format!("{loc}<-{}", callers.join("<-"))
        } else {
            loc
        };
        LAST_SITE.with(|s| *s.borrow_mut() = loc);
    }));
}

/// What a panic payload means for this property.
#[derive(Clone, Debug, PartialEq)]
pub enum Outcome<T> {
    Ok(T),
    /// "attempt to … with overflow", "attempt to divide by zero", "assertion failed", …
    Trap(String),
    /// any other panic (C01/C02 territory)
    Other(String),
}

pub fn is_trap_msg(m: &str) -> bool {
    m.contains("overflow") || m.contains("assertion") || m.starts_with("attempt to ")
}

pub fn run_catch<T>(f: impl FnOnce() -> T) -> Outcome<T> {
    match catch(f) {
        Ok(v) => Outcome::Ok(v),
        Err(m) => {
            if is_trap_msg(&m) {
                Outcome::Trap(format!("{m} @ {}", last_site()))
            } else {
                Outcome::Other(format!("{m} @ {}", last_site()))
            }
        }
    }
}

/// `Session::oracle`, but at most 4 recorded failures per oracle name (the session keeps 200 in
/// all; one noisy kernel must not crowd out the others).  Further failures are counted.
pub fn capped_oracle(s: &mut Session, name: &str, ok: bool, input: &str, detail: &str) {
    if ok {
        s.oracle(name, true, String::new, String::new);
        return;
    }
    let key = format!("failures:{name}");
    let n = s.dist.get(&key).copied().unwrap_or(0);
    s.count(&key);
    if n < 4 {
        s.oracle(name, false, || input.to_string(), || detail.to_string());
    } else {
        s.oracle_checks += 1;
    }
}

fn main() {
    fv_harness::main_with("C20", run);
}

fn run(cfg: &Config, s: &mut Session) {
    install_hook();
    kernels::run(cfg, s);
    explore::run(cfg, s);
}
