//! IFT families (incremental-font-transfer/src/**, read-fonts/src/tables/ift.rs).
//!
//!  * `ift-format2-ids`: format 2 patch maps whose numeric entry ids are DRIVEN to a target
//!    (0, 1, 0x7FFFFFFF, 0x80000000, u32::MAX-1, u32::MAX, u32::MAX+1) by long runs of maximal Int24
//!    id deltas (each +0x7FFFFF, i.e. +0x800000 with the implicit +1) and one fitted delta, FOLLOWED by
//!    further entries with a positive, zero, negative, extreme or absent delta -- through
//!    `intersecting_patches`, `uri_string`, `PatchGroup::select_next_patches`.
//!  * `ift-patches`: glyph keyed patches (u16 / u24 gids at 0, numGlyphs-1, numGlyphs, 0xFFFF, 0xFFFFFF;
//!    data offsets at 0 / past the payload / u32::MAX / descending; glyph and table counts at extremes) and
//!    table keyed patches (patch counts, offsets, maximum lengths at extremes; replace / drop flags),
//!    applied with the pass-through decoder to a base font whose patch map selects them; plus every
//!    numeric field of the well-formed patches located by traversal and set to its extremes
//!    (`fields::locate_table`).
//!  * the test-data patch maps (format 1: glyph map / feature map, u8 and u16 entries; format 2: all
//!    seven) are base fonts of the field-extremes family (see `fields.rs`), so glyph counts, entry counts,
//!    offsets, bias values ... at 0, 1, MAX-1, MAX fall out of the systematic mutation.
//!
//! Replay: `ift=<family> ...` with the table / patch bytes in hex.
use crate::explore::Explorer;
use fv_harness::common::*;
use incremental_font_transfer::font_patch::IncrementalFontPatchBase;
use incremental_font_transfer::patch_group::{PatchGroup, PatchInfo, UriStatus};
use incremental_font_transfer::patchmap::{intersecting_patches, DesignSpace, FeatureSet, PatchFormat, SubsetDefinition};
use read_fonts::collections::{IntSet, RangeSet};
use read_fonts::types::{Fixed, Tag};
use read_fonts::{FontRef, TableProvider};
use shared_brotli_patch_decoder::NoopBrotliDecoder;
use std::collections::{BTreeSet, HashMap};
use write_fonts::FontBuilder;

const COMPAT: [u8; 16] = [0, 0, 0, 1, 0, 0, 0, 2, 0, 0, 0, 3, 0, 0, 0, 4];

// ------------------------------------------------------------------------------------ builders

#[derive(Clone, Copy, Debug)]
pub struct F2Entry {
    /// Int24 id delta (None: the ENTRY_ID_DELTA flag is clear)
    pub delta: Option<i32>,
    /// explicit patch format
    pub format: Option<u8>,
    pub ignored: bool,
    /// sparse bit set {0..17} (CODEPOINTS_BIT_1)
    pub codepoints: bool,
}

pub fn f2_table(compat: &[u8; 16], default_format: u8, entries: &[F2Entry], declared_count: Option<u32>) -> Vec<u8> {
    let mut b: Vec<u8> = vec![2, 0, 0, 0, 0];
    b.extend_from_slice(compat);
    b.push(default_format);
    let n = declared_count.unwrap_or(entries.len() as u32);
    b.extend_from_slice(&n.to_be_bytes()[1..]);
    let uri = b"p/{id}";
    let entries_off = (5 + 16 + 1 + 3 + 4 + 4 + 2 + uri.len()) as u32;
    b.extend_from_slice(&entries_off.to_be_bytes());
    b.extend_from_slice(&0u32.to_be_bytes());
    b.extend_from_slice(&(uri.len() as u16).to_be_bytes());
    b.extend_from_slice(uri);
    for e in entries {
        let mut flags = 0u8;
        if e.delta.is_some() {
            flags |= 0b0000_0100;
        }
        if e.format.is_some() {
            flags |= 0b0000_1000;
        }
        if e.codepoints {
            flags |= 0b0001_0000;
        }
        if e.ignored {
            flags |= 0b0100_0000;
        }
        b.push(flags);
        if let Some(d) = e.delta {
            b.extend_from_slice(&d.to_be_bytes()[1..]);
        }
        if let Some(f) = e.format {
            b.push(f);
        }
        if e.codepoints {
            b.extend_from_slice(&[0b0000_1101, 0b0000_0011, 0b0011_0001]);
        }
    }
    b
}

/// format 1 patch map with a correctly sized applied-entries bitmap and glyph map
pub struct F1Spec {
    pub max_entry_index: u16,
    pub max_glyph_map_entry_index: u16,
    pub glyph_count: u32,
    pub first_mapped_glyph: u16,
    /// entry index per glyph from `first_mapped_glyph` on (u8 entries iff max_entry_index < 256)
    pub entries: Vec<u16>,
    pub applied: Vec<u16>,
    /// (tag, first_new_entry_index, [(first_entry, last_entry)])
    pub features: Vec<([u8; 4], u16, Vec<(u16, u16)>)>,
    pub patch_format: u8,
}

pub fn f1_table(compat: &[u8; 16], f: &F1Spec) -> Vec<u8> {
    let wide = f.max_entry_index >= 256;
    let mut b: Vec<u8> = vec![1, 0, 0, 0, 0];
    b.extend_from_slice(compat);
    b.extend_from_slice(&f.max_entry_index.to_be_bytes());
    b.extend_from_slice(&f.max_glyph_map_entry_index.to_be_bytes());
    b.extend_from_slice(&f.glyph_count.to_be_bytes()[1..]);
    let gm_pos = b.len();
    b.extend_from_slice(&[0; 8]);
    let mut bitmap = vec![0u8; (f.max_entry_index as usize + 8) / 8];
    for a in &f.applied {
        if let Some(x) = bitmap.get_mut(*a as usize / 8) {
            *x |= 1 << (a % 8);
        }
    }
    b.extend_from_slice(&bitmap);
    let uri = b"p/{id}";
    b.extend_from_slice(&(uri.len() as u16).to_be_bytes());
    b.extend_from_slice(uri);
    b.push(f.patch_format);
    let gm = b.len() as u32;
    b[gm_pos..gm_pos + 4].copy_from_slice(&gm.to_be_bytes());
    b.extend_from_slice(&f.first_mapped_glyph.to_be_bytes());
    for e in &f.entries {
        if wide {
            b.extend_from_slice(&e.to_be_bytes());
        } else {
            b.push(*e as u8);
        }
    }
    if !f.features.is_empty() {
        let fm = b.len() as u32;
        b[gm_pos + 4..gm_pos + 8].copy_from_slice(&fm.to_be_bytes());
        b.extend_from_slice(&(f.features.len() as u16).to_be_bytes());
        for (tag, first_new, maps) in &f.features {
            b.extend_from_slice(tag);
            if wide {
                b.extend_from_slice(&first_new.to_be_bytes());
                b.extend_from_slice(&(maps.len() as u16).to_be_bytes());
            } else {
                b.push(*first_new as u8);
                b.push(maps.len() as u8);
            }
        }
        for (_, _, maps) in &f.features {
            for (a, z) in maps {
                if wide {
                    b.extend_from_slice(&a.to_be_bytes());
                    b.extend_from_slice(&z.to_be_bytes());
                } else {
                    b.push(*a as u8);
                    b.push(*z as u8);
                }
            }
        }
    }
    b
}

/// a small patchable TrueType base: `n` glyphs of 2..6 bytes each, long or short loca
pub fn base_tables(n: u16, long_loca: bool) -> Vec<(Tag, Vec<u8>)> {
    let mut head = vec![0u8; 54];
    head[0..4].copy_from_slice(&0x0001_0000u32.to_be_bytes());
    head[12..16].copy_from_slice(&0x5F0F_3CF5u32.to_be_bytes());
    head[18..20].copy_from_slice(&1000u16.to_be_bytes());
    head[51] = long_loca as u8;
    let mut maxp = 0x0000_5000u32.to_be_bytes().to_vec();
    maxp.extend_from_slice(&n.to_be_bytes());
    let mut glyf = vec![];
    let mut loca = vec![];
    let put = |loca: &mut Vec<u8>, o: usize| {
        if long_loca {
            loca.extend_from_slice(&(o as u32).to_be_bytes());
        } else {
            loca.extend_from_slice(&((o / 2) as u16).to_be_bytes());
        }
    };
    for g in 0..n {
        put(&mut loca, glyf.len());
        let len = 2 * (1 + (g as usize % 3));
        for k in 0..len {
            glyf.push(b'A' + ((g as usize + k) % 26) as u8);
        }
    }
    put(&mut loca, glyf.len());
    // cmap: one format 12 group U+0020.. -> glyph 0.. (a few code points beyond the last glyph)
    let mut cmap: Vec<u8> = vec![0, 0, 0, 1, 0, 3, 0, 10, 0, 0, 0, 12, 0, 12, 0, 0, 0, 0, 0, 28, 0, 0, 0, 0, 0, 0, 0, 1];
    cmap.extend_from_slice(&0x20u32.to_be_bytes());
    cmap.extend_from_slice(&(0x20 + n as u32 + 2).to_be_bytes());
    cmap.extend_from_slice(&0u32.to_be_bytes());
    vec![(Tag::new(b"head"), head), (Tag::new(b"maxp"), maxp), (Tag::new(b"loca"), loca), (Tag::new(b"glyf"), glyf), (Tag::new(b"cmap"), cmap)]
}

pub fn assemble(ift: &[u8], iftx: Option<&[u8]>, base: &[(Tag, Vec<u8>)]) -> Vec<u8> {
    let mut fb = FontBuilder::new();
    fb.add_raw(Tag::new(b"IFT "), ift.to_vec());
    if let Some(x) = iftx {
        fb.add_raw(Tag::new(b"IFTX"), x.to_vec());
    }
    for (t, d) in base {
        fb.add_raw(*t, d.clone());
    }
    fb.build()
}

/// glyph keyed patch: header + (pass-through "compressed") GlyphPatches payload
pub struct GkSpec {
    pub wide: bool,
    pub declared_glyph_count: u32,
    pub gids: Vec<u32>,
    pub tables: Vec<[u8; 4]>,
    /// None: computed from `data`; Some: written verbatim
    pub offsets: Option<Vec<u32>>,
    pub data: Vec<Vec<u8>>,
    pub max_len: Option<u32>,
}

pub fn gk_patch(compat: &[u8; 16], s: &GkSpec) -> Vec<u8> {
    let mut p: Vec<u8> = vec![];
    p.extend_from_slice(&s.declared_glyph_count.to_be_bytes());
    p.push(s.tables.len() as u8);
    for g in &s.gids {
        if s.wide {
            p.extend_from_slice(&g.to_be_bytes()[1..]);
        } else {
            p.extend_from_slice(&(*g as u16).to_be_bytes());
        }
    }
    for t in &s.tables {
        p.extend_from_slice(t);
    }
    let n_off = s.offsets.as_ref().map(|o| o.len()).unwrap_or(s.data.len() + 1);
    let data_start = p.len() + 4 * n_off;
    match &s.offsets {
        Some(o) => {
            for v in o {
                p.extend_from_slice(&v.to_be_bytes());
            }
        }
        None => {
            let mut o = data_start;
            for d in &s.data {
                p.extend_from_slice(&(o as u32).to_be_bytes());
                o += d.len();
            }
            p.extend_from_slice(&(o as u32).to_be_bytes());
        }
    }
    for d in &s.data {
        p.extend_from_slice(d);
    }
    let mut b = b"ifgk".to_vec();
    b.extend_from_slice(&[0, 0, 0, 0]);
    b.push(s.wide as u8);
    b.extend_from_slice(compat);
    b.extend_from_slice(&s.max_len.unwrap_or(p.len() as u32).to_be_bytes());
    b.extend_from_slice(&p);
    b
}

pub struct TkEntry {
    pub tag: [u8; 4],
    pub flags: u8,
    pub max_len: u32,
    pub stream: Vec<u8>,
}

pub fn tk_patch(compat: &[u8; 16], entries: &[TkEntry], declared_count: Option<u16>, offsets_override: Option<Vec<u32>>) -> Vec<u8> {
    let mut b = b"iftk".to_vec();
    b.extend_from_slice(&[0, 0, 0, 0]);
    b.extend_from_slice(compat);
    b.extend_from_slice(&declared_count.unwrap_or(entries.len() as u16).to_be_bytes());
    let off_pos = b.len();
    b.extend(std::iter::repeat(0u8).take(4 * (entries.len() + 1)));
    let mut offs = vec![];
    for e in entries {
        offs.push(b.len() as u32);
        b.extend_from_slice(&e.tag);
        b.push(e.flags);
        b.extend_from_slice(&e.max_len.to_be_bytes());
        b.extend_from_slice(&e.stream);
    }
    offs.push(b.len() as u32);
    let offs = offsets_override.unwrap_or(offs);
    for (i, o) in offs.iter().enumerate().take(entries.len() + 1) {
        b[off_pos + 4 * i..off_pos + 4 * i + 4].copy_from_slice(&o.to_be_bytes());
    }
    b
}

// ------------------------------------------------------------------------------------ consumers

fn subset_defs() -> Vec<(&'static str, SubsetDefinition)> {
    let mut v = vec![("all", SubsetDefinition::all())];
    let mut cps = IntSet::<u32>::empty();
    cps.insert_range(5..=30);
    v.push(("cps5-30", SubsetDefinition::codepoints(cps)));
    let mut cps = IntSet::<u32>::empty();
    cps.insert(0x41);
    cps.insert(u32::MAX);
    cps.insert(0);
    let mut feats = BTreeSet::new();
    feats.insert(Tag::new(b"liga"));
    feats.insert(Tag::new(b"smcp"));
    let mut ds = HashMap::new();
    let mut rs = RangeSet::default();
    rs.insert(Fixed::from_bits(i32::MIN)..=Fixed::from_bits(i32::MAX));
    ds.insert(Tag::new(b"wght"), rs);
    v.push(("cps+feat+ds", SubsetDefinition::new(cps, FeatureSet::Set(feats), DesignSpace::Ranges(ds))));
    v
}

fn compat_of(font: &FontRef, iftx: bool) -> Option<[u8; 16]> {
    let t = if iftx { font.iftx().ok()? } else { font.ift().ok()? };
    let id = t.compatibility_id();
    let b = id.as_slice();
    let mut out = [0u8; 16];
    if b.len() == 16 {
        out.copy_from_slice(b);
    }
    Some(out)
}

/// well-formed patches against the font's own compatibility id, one per patch format
fn canned_patches(font: &FontRef) -> Vec<(&'static str, Vec<u8>)> {
    let compat = compat_of(font, false).or_else(|| compat_of(font, true)).unwrap_or(COMPAT);
    let gk = gk_patch(&compat, &GkSpec { wide: false, declared_glyph_count: 3, gids: vec![1, 2, 5], tables: vec![*b"glyf"], offsets: None, data: vec![b"abcd".to_vec(), b"ef".to_vec(), b"ghijkl".to_vec()], max_len: None });
    let tk = tk_patch(
        &compat,
        &[TkEntry { tag: *b"tab1", flags: 1, max_len: 8, stream: b"12345678".to_vec() }, TkEntry { tag: *b"glyf", flags: 2, max_len: 0, stream: vec![] }],
        None,
        None,
    );
    vec![("gk", gk), ("tk", tk)]
}

/// patch map intersection, uri expansion, patch selection and application on one font
pub fn exercise_ift_font(ex: &mut Explorer, label: &dyn Fn() -> String, font: &FontRef) {
    let patches = canned_patches(font);
    // the hand-written read-fonts accessors of the patch map tables
    ex.op(label, "ift.accessors", &mut || {
        use read_fonts::tables::ift::Ift;
        for t in [font.ift(), font.iftx()].into_iter().flatten() {
            match t {
                Ift::Format1(m) => {
                    let mut sink = m.entry_count() as u64;
                    let _ = m.uri_template_as_string();
                    for e in [0u16, 1, 7, 8, 255, 256, m.max_entry_index(), m.max_entry_index().wrapping_add(1), 0xFFFE, 0xFFFF] {
                        sink += m.is_entry_applied(e) as u64;
                    }
                    sink += m.gid_to_entry_iter().take(70_000).map(|(g, e)| g.to_u32() as u64 + e as u64).sum::<u64>();
                    if let Some(Ok(fm)) = m.feature_map() {
                        for mx in [0u16, 255, 256, m.max_entry_index(), 0xFFFF] {
                            sink += fm.entry_records_size(mx).unwrap_or(0) as u64;
                        }
                    }
                    std::hint::black_box(sink);
                }
                Ift::Format2(m) => {
                    let _ = m.uri_template_as_string();
                    let _ = m.entries().map(|e| e.entry_data().len());
                }
            }
        }
    });
    for (dn, def) in subset_defs() {
        let mut infos: Vec<(PatchFormat, PatchInfo)> = vec![];
        ex.op(label, &format!("ift.intersect def={dn}"), &mut || {
            if let Ok(v) = intersecting_patches(font, &def) {
                for u in v.iter().take(600) {
                    let _ = u.uri_string();
                    let _ = u.expected_compatibility_id();
                    if let Ok(i) = PatchInfo::try_from(u.clone()) {
                        if infos.len() < 4 {
                            infos.push((u.encoding(), i));
                        }
                    }
                }
            }
        });
        ex.op(label, &format!("ift.select+apply def={dn}"), &mut || {
            for (_, pb) in &patches {
                let Ok(group) = PatchGroup::select_next_patches(font.clone(), &def) else { return };
                let uris: Vec<String> = group.uris().map(|s| s.to_string()).collect();
                let mut data: HashMap<String, UriStatus> = HashMap::new();
                for u in &uris {
                    data.insert(u.clone(), UriStatus::Pending(pb.clone()));
                }
                if let Ok(bytes) = group.apply_next_patches_with_decoder(&mut data, &NoopBrotliDecoder) {
                    if let Ok(f2) = FontRef::new(&bytes) {
                        let _ = intersecting_patches(&f2, &def).map(|v| v.len());
                    }
                }
            }
        });
        // direct application of each canned patch with each genuine PatchInfo
        for (enc, info) in &infos {
            for (pn, pb) in &patches {
                ex.op(label, &format!("ift.apply def={dn} enc={enc:?} patch={pn}"), &mut || {
                    let _ = font.apply_table_keyed_patch(info, pb, &NoopBrotliDecoder);
                    let _ = font.apply_glyph_keyed_patches([(info, pb.as_slice())].into_iter(), &NoopBrotliDecoder);
                });
            }
        }
    }
}

/// apply `patch` (glyph keyed and table keyed entry points) to `font` with every PatchInfo its map yields
fn apply_patch(ex: &mut Explorer, label: &dyn Fn() -> String, font_bytes: &[u8], patch: &[u8]) {
    let Ok(font) = FontRef::new(font_bytes) else { return };
    let mut infos: Vec<PatchInfo> = vec![];
    ex.op(label, "ift.infos", &mut || {
        if let Ok(v) = intersecting_patches(&font, &SubsetDefinition::all()) {
            for u in v {
                if let Ok(i) = PatchInfo::try_from(u) {
                    infos.push(i);
                }
            }
        }
    });
    for (k, info) in infos.iter().enumerate().take(3) {
        ex.op(label, &format!("ift.apply-glyph-keyed info={k}"), &mut || {
            if let Ok(out) = font.apply_glyph_keyed_patches([(info, patch)].into_iter(), &NoopBrotliDecoder) {
                if let Ok(f2) = FontRef::new(&out) {
                    let _ = f2.loca(None).map(|l| l.len());
                    let _ = intersecting_patches(&f2, &SubsetDefinition::all()).map(|v| v.len());
                }
            }
        });
        ex.op(label, &format!("ift.apply-table-keyed info={k}"), &mut || {
            if let Ok(out) = font.apply_table_keyed_patch(info, patch, &NoopBrotliDecoder) {
                let _ = FontRef::new(&out).map(|f| f.table_directory.num_tables());
            }
        });
    }
}

// ------------------------------------------------------------------------------------ families

/// deltas (with IGNORED entries) that take the running id from `start` to exactly `target`
/// (`target` may exceed u32::MAX: the last entry is then the one that must be rejected)
fn climb(start: i64, target: i64) -> Vec<i32> {
    let mut v = vec![];
    let mut cur = start;
    while target - cur > 0x80_0000 {
        v.push(0x7F_FFFF);
        cur += 0x80_0000;
    }
    while cur - target >= 0x80_0000 - 1 {
        v.push(-0x80_0000);
        cur += 1 - 0x80_0000;
    }
    // next id = cur + 1 + delta = target
    v.push((target - cur - 1) as i32);
    v
}

// ---------------------------------------------------------------- malformed offset arrays under glyph keyed patches

/// gvar with `offsets.len() - 1` glyphs, no shared tuples, `data_len` bytes of per-glyph data; offsets are
/// written verbatim (short form: value / 2 as u16)
pub fn gvar_table(offsets: &[u32], long: bool, data_len: usize) -> Vec<u8> {
    let n = offsets.len() - 1;
    let mut b: Vec<u8> = vec![0, 1, 0, 0, 0, 1, 0, 0];
    let array_len = offsets.len() * if long { 4 } else { 2 };
    let data_off = (20 + array_len) as u32;
    b.extend_from_slice(&data_off.to_be_bytes()); // shared tuples offset (none)
    b.extend_from_slice(&(n as u16).to_be_bytes());
    b.extend_from_slice(&(long as u16).to_be_bytes());
    b.extend_from_slice(&data_off.to_be_bytes());
    for o in offsets {
        if long {
            b.extend_from_slice(&o.to_be_bytes());
        } else {
            b.extend_from_slice(&((o / 2) as u16).to_be_bytes());
        }
    }
    b.extend((0..data_len).map(|i| b'a' + (i % 26) as u8));
    b
}

/// `base_tables` with an explicit loca
fn base_with_loca(n: u16, long: bool, offsets: &[u32]) -> Vec<(Tag, Vec<u8>)> {
    let mut t = base_tables(n, long);
    let mut loca = vec![];
    for o in offsets {
        if long {
            loca.extend_from_slice(&o.to_be_bytes());
        } else {
            loca.extend_from_slice(&((o / 2) as u16).to_be_bytes());
        }
    }
    for (tag, d) in t.iter_mut() {
        if *tag == Tag::new(b"loca") {
            *d = loca.clone();
        }
    }
    t
}

/// offset arrays that are malformed in the INTERIOR of runs as well as at their ends; `n` glyphs of 2 bytes,
/// `top` = the largest representable offset
fn offset_patterns(n: usize, top: u32, data_len: u32) -> Vec<(String, Vec<u32>)> {
    let asc: Vec<u32> = (0..=n as u32).map(|i| 2 * i).collect();
    let mut v = vec![("ascending".to_string(), asc.clone())];
    for k in [1usize, 4, 5, n / 2, n - 1, n] {
        for (name, val) in [("zero", 0u32), ("below-run-start", asc[k.saturating_sub(2)].saturating_sub(2)), ("beyond-data", data_len + 100), ("top", top), ("top-2", top - 2)] {
            let mut o = asc.clone();
            o[k] = val;
            v.push((format!("offset[{k}]={name}({val})"), o));
        }
    }
    // two interior offsets swapped, a descending interior run, everything equal, everything top
    let mut o = asc.clone();
    o.swap(3, 6);
    v.push(("swap[3,6]".into(), o));
    let mut o = asc.clone();
    for k in 3..8.min(n) {
        o[k] = asc[10 - k];
    }
    v.push(("descending[3..8]".into(), o));
    v.push(("all-equal".into(), vec![4; n + 1]));
    v.push(("all-top".into(), vec![top; n + 1]));
    v.push(("descending".into(), asc.iter().rev().copied().collect()));
    // the documented shape: ends of the copied block ordered, interior below the block start
    v.push(("interior-dip".into(), vec![0, 2, 2, 4, 0, 4, 4, 4, 4, 10, 10, 10, 10, 10, 10, 12][..n + 1].to_vec()));
    v
}

pub fn offset_array_family(ex: &mut Explorer, thorough: bool) {
    let n = 15usize;
    let map = f2_table(&COMPAT, 3, &[F2Entry { delta: None, format: Some(3), ignored: false, codepoints: true }], None);
    // patches: glyph sets that are the first / last / no glyph of the runs between them
    let gid_sets: Vec<Vec<u32>> = vec![vec![2, 7, 8], vec![0], vec![14], vec![4], vec![3, 6], vec![0, 14], vec![1, 2, 3, 4, 5, 6, 7, 8, 9, 10, 11, 12, 13], vec![]];
    let mk_patch = |tables: &[[u8; 4]], gids: &Vec<u32>| {
        let data: Vec<Vec<u8>> = (0..gids.len() * tables.len()).map(|i| vec![b'A' + i as u8; 2 + 2 * (i % 3)]).collect();
        gk_patch(&COMPAT, &GkSpec { wide: false, declared_glyph_count: gids.len() as u32, gids: gids.clone(), tables: tables.to_vec(), offsets: None, data, max_len: None })
    };
    let mut n_cases = 0u64;
    // --- gvar (short / long) and loca (short / long)
    for long in [false, true] {
        let top: u32 = if long { u32::MAX } else { 0xFFFF * 2 };
        let data_len = 2 * n as u32 + 8;
        for (pn, offs) in offset_patterns(n, top, data_len) {
            if !thorough && pn.contains("top-2") {
                continue;
            }
            // gvar malformed, loca fine; loca malformed, no gvar; both
            let gvar = gvar_table(&offs, long, data_len as usize);
            let good_gvar = gvar_table(&(0..=n as u32).map(|i| 2 * i).collect::<Vec<_>>(), long, data_len as usize);
            let mut fonts: Vec<(&str, Vec<u8>)> = vec![];
            let mut t = base_tables(n as u16, long);
            t.push((Tag::new(b"gvar"), gvar.clone()));
            fonts.push(("gvar", assemble(&map, None, &t)));
            let mut t = base_with_loca(n as u16, long, &offs);
            t.push((Tag::new(b"gvar"), good_gvar));
            fonts.push(("loca", assemble(&map, None, &t)));
            for (which, font) in &fonts {
                for gids in &gid_sets {
                    for tables in [vec![*b"gvar"], vec![*b"glyf"], vec![*b"glyf", *b"gvar"]] {
                        if !thorough && tables.len() == 2 && gids.len() != 3 {
                            continue;
                        }
                        let patch = mk_patch(&tables, gids);
                        n_cases += 1;
                        let label = || {
                            format!(
                                "ift=offset-arrays malformed={which} long={long} pattern={pn} offsets={offs:?} patch-tables={:?} patch-gids={gids:?}",
                                tables.iter().map(|t| String::from_utf8_lossy(t).to_string()).collect::<Vec<_>>()
                            )
                        };
                        apply_patch(ex, &label, font, &patch);
                    }
                }
            }
        }
    }
    // --- CFF / CFF2 charstrings INDEX of the test fonts, offsets mutated in place
    use font_test_data::ift as t;
    for (tag, font_bytes, cs_off, count_width) in [(*b"CFF ", t::CFF_FONT, t::CFF_FONT_CHARSTRINGS_OFFSET, 2usize), (*b"CFF2", t::CFF2_FONT, t::CFF2_FONT_CHARSTRINGS_OFFSET, 4usize)] {
        let Ok(src) = FontRef::new(font_bytes) else { continue };
        let mut ift = t::format2_with_one_charstrings_offset();
        ift.write_at("charstrings_offset", cs_off);
        if &tag == b"CFF2" {
            ift.write_at("field_flags", 0b0000_0010u8);
        }
        ift.write_at("compat_id[0]", 1u32);
        let ift_bytes = {
            // compat id 1,2,3,4 = COMPAT
            ift.as_slice().to_vec()
        };
        let tables: Vec<(Tag, Vec<u8>)> = src.table_directory.table_records().iter().filter_map(|r| src.table_data(r.tag()).map(|d| (r.tag(), d.as_bytes().to_vec()))).filter(|(t, _)| *t != Tag::new(b"IFT ")).collect();
        let base_font = assemble(&ift_bytes, None, &tables);
        let Ok(f) = FontRef::new(&base_font) else { continue };
        let Some(rec) = f.table_directory.table_records().iter().find(|r| r.tag() == Tag::new(&tag)) else { continue };
        let index_pos = rec.offset() as usize + cs_off as usize;
        let count = if count_width == 2 { u16::from_be_bytes([base_font[index_pos], base_font[index_pos + 1]]) as usize } else { u32::from_be_bytes([base_font[index_pos], base_font[index_pos + 1], base_font[index_pos + 2], base_font[index_pos + 3]]) as usize };
        let off_size = base_font[index_pos + count_width] as usize;
        if count < 8 || !(1..=4).contains(&off_size) {
            continue;
        }
        let arr = index_pos + count_width + 1;
        let top: u64 = (1u64 << (8 * off_size)) - 1;
        let read = |b: &[u8], k: usize| -> u64 { b[arr + k * off_size..arr + (k + 1) * off_size].iter().fold(0u64, |a, x| (a << 8) | *x as u64) };
        for k in [0usize, 1, 5, count / 2, count - 1, count] {
            for (vn, val) in [("zero", 0u64), ("one", 1), ("prev-minus", read(&base_font, k.saturating_sub(2)).saturating_sub(1)), ("top", top), ("top-1", top - 1), ("next-plus", read(&base_font, (k + 1).min(count)) + 1)] {
                let mut fb = base_font.clone();
                let mut v = val.min(top);
                for j in (0..off_size).rev() {
                    fb[arr + k * off_size + j] = (v & 0xFF) as u8;
                    v >>= 8;
                }
                for gids in [vec![1u32, 38, 47, 59], vec![0], vec![(count - 1) as u32], vec![k as u32], vec![k.saturating_sub(1) as u32, (k + 1).min(count - 1) as u32], vec![]] {
                    let mut g = gids.clone();
                    g.sort();
                    g.dedup();
                    let patch = mk_patch(&[tag], &g);
                    n_cases += 1;
                    let label = || format!("ift=offset-arrays malformed={} charstrings-index count={count} offSize={off_size} offset[{k}]={vn}({val}) patch-gids={g:?}", String::from_utf8_lossy(&tag));
                    apply_patch(ex, &label, &fb, &patch);
                }
            }
        }
    }
    ex.notes.push(format!("IFT: {n_cases} glyph keyed applications against malformed loca / gvar / charstrings offset arrays"));
}

pub fn base_fonts_for_fields() -> Vec<(String, Vec<u8>)> {
    use font_test_data::ift as t;
    let base = base_tables(15, true);
    let maps: Vec<(&str, Vec<u8>)> = vec![
        ("simple_format1", t::simple_format1().as_slice().to_vec()),
        ("u16_entries_format1", t::u16_entries_format1().as_slice().to_vec()),
        ("feature_map_format1", t::feature_map_format1().as_slice().to_vec()),
        ("codepoints_only_format2", t::codepoints_only_format2().as_slice().to_vec()),
        ("features_and_design_space_format2", t::features_and_design_space_format2().as_slice().to_vec()),
        ("child_indices_format2", t::child_indices_format2().as_slice().to_vec()),
        ("custom_ids_format2", t::custom_ids_format2().as_slice().to_vec()),
        ("string_ids_format2", t::string_ids_format2().as_slice().to_vec()),
        ("table_keyed_format2", t::table_keyed_format2().as_slice().to_vec()),
        ("format2_with_one_charstrings_offset", t::format2_with_one_charstrings_offset().as_slice().to_vec()),
    ];
    let mut out = vec![];
    for (i, (n, m)) in maps.iter().enumerate() {
        // format 1 maps must declare the font's glyph count (u24 at offset 25)
        let base = if m[0] == 1 { base_tables(u32::from_be_bytes([0, m[25], m[26], m[27]]) as u16, true) } else { base.clone() };
        // every second font carries the map as IFTX next to a format 2 IFT
        let bytes = if i % 2 == 0 { assemble(m, None, &base) } else { assemble(&maps[3].1, Some(m), &base) };
        out.push((format!("ift-testdata:{n}"), bytes));
    }
    out
}

pub fn run(cfg: &Config, ex: &mut Explorer) {
    let thorough = cfg.thorough();
    let base = base_tables(15, true);
    let base_short = base_tables(15, false);
    let mut n_fonts = 0u64;

    // ---- format 2: entry ids driven to extremes, then followers
    let targets: [i64; 9] = [0, 1, 0x7FFF_FFFF, 0x8000_0000, u32::MAX as i64 - 1, u32::MAX as i64, u32::MAX as i64 + 1, u32::MAX as i64 + 0x7F_FFFF, 0xFFFF_FFFF - 0x80_0000];
    let followers: [Option<i32>; 9] = [None, Some(0), Some(1), Some(-1), Some(-2), Some(-5), Some(0x7F_FFFF), Some(-0x80_0000), Some(5)];
    for target in targets {
        for fo in followers {
            for second in [None, Some(-3i32)] {
                if second.is_some() && !thorough && fo != None && fo != Some(-1) {
                    continue;
                }
                let mut entries: Vec<F2Entry> = climb(0, target).into_iter().map(|d| F2Entry { delta: Some(d), format: None, ignored: true, codepoints: false }).collect();
                let run_len = entries.len();
                // the entry that sits AT the target is a real (non ignored) one in half of the cases
                if let Some(l) = entries.last_mut() {
                    l.ignored = fo.map(|d| d % 2 == 0).unwrap_or(false);
                    l.codepoints = true;
                }
                entries.push(F2Entry { delta: fo, format: Some(2), ignored: false, codepoints: true });
                if let Some(d) = second {
                    entries.push(F2Entry { delta: Some(d), format: None, ignored: false, codepoints: true });
                    entries.push(F2Entry { delta: None, format: None, ignored: false, codepoints: true });
                }
                let table = f2_table(&COMPAT, 3, &entries, None);
                let bytes = assemble(&table, None, &base);
                n_fonts += 1;
                let label = || format!("ift=format2-ids target={target} run={run_len} follower={fo:?} second={second:?} table={}", hex(&table));
                let Ok(font) = FontRef::new(&bytes) else { continue };
                exercise_ift_font(ex, &label, &font);
                ex.count("ift:format2-id-fonts");
            }
        }
    }
    // descending runs: from a high id down to 0 and below
    for start_target in [u32::MAX as i64, 0x8000_0000] {
        for end in [0i64, 1, -1, -0x80_0000] {
            let mut ds = climb(0, start_target);
            ds.extend(climb(start_target, end));
            let mut entries: Vec<F2Entry> = ds.into_iter().map(|d| F2Entry { delta: Some(d), format: None, ignored: true, codepoints: false }).collect();
            entries.push(F2Entry { delta: None, format: None, ignored: false, codepoints: true });
            let table = f2_table(&COMPAT, 3, &entries, None);
            let bytes = assemble(&table, None, &base);
            n_fonts += 1;
            let label = || format!("ift=format2-ids descend from={start_target} to={end} table={}", hex(&table));
            if let Ok(font) = FontRef::new(&bytes) {
                exercise_ift_font(ex, &label, &font);
            }
        }
    }
    // declared entry count at extremes over a short / empty entry array
    for count in [0u32, 1, 2, 0xFF_FFFE, 0xFF_FFFF] {
        for n in [0usize, 1, 3] {
            let entries: Vec<F2Entry> = (0..n).map(|i| F2Entry { delta: Some(i as i32 - 1), format: None, ignored: false, codepoints: true }).collect();
            let table = f2_table(&COMPAT, 3, &entries, Some(count));
            let bytes = assemble(&table, None, &base);
            n_fonts += 1;
            let label = || format!("ift=format2-count declared={count} actual={n} table={}", hex(&table));
            if let Ok(font) = FontRef::new(&bytes) {
                exercise_ift_font(ex, &label, &font);
            }
        }
    }

    // ---- format 1: entry counts / glyph counts / first mapped glyph / feature records at extremes, with
    // consistently sized bitmaps and glyph maps (so that the header validation passes)
    let mut n_f1 = 0u64;
    for max_entry in [0u16, 1, 254, 255, 256, 300, 0x7FFF, 0x8000, 0xFFFE, 0xFFFF] {
        for (glyphs, first) in [(1u32, 0u16), (1, 1), (7, 2), (7, 7), (7, 0xFFFF), (300, 0), (0xFFFF, 0), (0xFFFF, 0xFFFE), (0xFFFF, 0xFFFF)] {
            if !thorough && glyphs == 0xFFFF && ![0u16, 255, 256, 0xFFFF].contains(&max_entry) {
                continue;
            }
            let n_entries = (glyphs as i64 - first as i64).max(0) as usize;
            let entries: Vec<u16> = (0..n_entries).map(|i| [0u16, 1, max_entry, max_entry.wrapping_add(1), max_entry / 2, 0xFFFF][i % 6]).collect();
            for with_features in [false, true] {
                let features = if with_features {
                    vec![(*b"liga", max_entry, vec![(0u16, max_entry), (max_entry, 0)]), (*b"dlig", max_entry.wrapping_sub(1), vec![(1, 1)]), (*b"smcp", 0, vec![]), (*b"zzzz", 0xFFFF, vec![(0xFFFF, 0xFFFF), (0, 0xFFFF)])]
                } else {
                    vec![]
                };
                let spec = F1Spec { max_entry_index: max_entry, max_glyph_map_entry_index: if with_features { max_entry / 2 } else { max_entry }, glyph_count: glyphs, first_mapped_glyph: first, entries: entries.clone(), applied: vec![0, 1, max_entry], features, patch_format: if with_features { 2 } else { 3 } };
                let table = f1_table(&COMPAT, &spec);
                let bytes = assemble(&table, None, &base_tables(glyphs as u16, true));
                n_f1 += 1;
                let label = || format!("ift=format1 max_entry={max_entry} glyph_count={glyphs} first_mapped={first} features={with_features} table={}", if table.len() <= 300 { hex(&table) } else { format!("{}..({} bytes)", hex(&table[..80]), table.len()) });
                if let Ok(font) = FontRef::new(&bytes) {
                    exercise_ift_font(ex, &label, &font);
                }
            }
        }
    }
    ex.notes.push(format!("IFT: {n_f1} format-1 fonts with consistent bitmaps / glyph maps"));

    // ---- patches applied to a base whose map has a glyph keyed and a table keyed entry
    let map = f2_table(
        &COMPAT,
        3,
        &[F2Entry { delta: None, format: Some(3), ignored: false, codepoints: true }, F2Entry { delta: None, format: Some(2), ignored: false, codepoints: true }, F2Entry { delta: None, format: Some(1), ignored: false, codepoints: true }],
        None,
    );
    let fonts: Vec<(&str, Vec<u8>)> = vec![("long", assemble(&map, None, &base)), ("short", assemble(&map, None, &base_short))];
    let mut patches: Vec<(String, Vec<u8>)> = vec![];
    let num_glyphs = 15u32;
    let data3 = || vec![b"abcd".to_vec(), b"ef".to_vec(), b"ghijkl".to_vec()];
    // gid extremes
    for wide in [false, true] {
        let top: u32 = if wide { 0xFF_FFFF } else { 0xFFFF };
        for gids in [vec![0, 1, 2], vec![12, 13, 14], vec![13, 14, num_glyphs], vec![0, num_glyphs - 1, top], vec![top - 2, top - 1, top], vec![2, 1, 0], vec![5, 5, 5], vec![0, 0x100, 0x10000 & top]] {
            patches.push((format!("gk wide={wide} gids={gids:?}"), gk_patch(&COMPAT, &GkSpec { wide, declared_glyph_count: 3, gids, tables: vec![*b"glyf"], offsets: None, data: data3(), max_len: None })));
        }
    }
    // offset extremes (3 glyphs, 1 table => 4 offsets; payload header = 4+1+6+4 = 15, offsets end at 31)
    let m = u32::MAX;
    for offs in [
        vec![31, 35, 37, 43],
        vec![0, 0, 0, 0],
        vec![31, 31, 31, 31],
        vec![31, 35, 37, m],
        vec![31, 35, m, m],
        vec![m, m, m, m],
        vec![m - 1, m, m, m],
        vec![43, 37, 35, 31],
        vec![31, 35, 37, 44],
        vec![31, 35, 37, 0x8000_0000],
        vec![0x7FFF_FFFF, 0x8000_0000, 0x8000_0001, m],
        vec![31, 30, 37, 43],
        vec![1, 2, 3, 4],
        vec![31, 35, 37],
        vec![31],
        vec![],
    ] {
        patches.push((format!("gk offsets={offs:?}"), gk_patch(&COMPAT, &GkSpec { wide: false, declared_glyph_count: 3, gids: vec![1, 2, 5], tables: vec![*b"glyf"], offsets: Some(offs), data: data3(), max_len: None })));
    }
    // counts / lengths
    for count in [0u32, 1, 2, 4, 0xFFFF, 0x1_0000, 0x4000_0000, 0x7FFF_FFFF, 0x8000_0000, m - 1, m] {
        patches.push((format!("gk declared_glyph_count={count}"), gk_patch(&COMPAT, &GkSpec { wide: false, declared_glyph_count: count, gids: vec![1, 2, 5], tables: vec![*b"glyf"], offsets: None, data: data3(), max_len: None })));
        patches.push((format!("gk wide declared_glyph_count={count}"), gk_patch(&COMPAT, &GkSpec { wide: true, declared_glyph_count: count, gids: vec![1, 2, 5], tables: vec![*b"glyf", *b"gvar"], offsets: None, data: [data3(), data3()].concat(), max_len: None })));
    }
    for ml in [0u32, 1, 42, 43, 44, 0x7FFF_FFFF, m] {
        patches.push((format!("gk max_len={ml}"), gk_patch(&COMPAT, &GkSpec { wide: false, declared_glyph_count: 3, gids: vec![1, 2, 5], tables: vec![*b"glyf"], offsets: None, data: data3(), max_len: Some(ml) })));
    }
    for tables in [vec![], vec![*b"glyf", *b"glyf"], vec![*b"gvar"], vec![*b"CFF "], vec![*b"CFF2"], vec![*b"loca"], vec![*b"glyf", *b"gvar", *b"CFF ", *b"CFF2"], vec![*b"zzzz"]] {
        let n = tables.len().max(1);
        let data: Vec<Vec<u8>> = (0..3 * n).map(|i| vec![b'a' + i as u8; 1 + i % 4]).collect();
        patches.push((format!("gk tables={:?}", tables.iter().map(|t| String::from_utf8_lossy(t).to_string()).collect::<Vec<_>>()), gk_patch(&COMPAT, &GkSpec { wide: false, declared_glyph_count: 3, gids: vec![1, 2, 5], tables, offsets: None, data, max_len: None })));
    }
    // big replacement data (short loca limit 0x1FFFE)
    for size in [0x1_0000usize, 0x1_FFF0, 0x2_0000] {
        patches.push((format!("gk big data {size}"), gk_patch(&COMPAT, &GkSpec { wide: false, declared_glyph_count: 1, gids: vec![3], tables: vec![*b"glyf"], offsets: None, data: vec![vec![7u8; size]], max_len: None })));
    }
    // table keyed
    for (flags, max_len) in [(0u8, 8u32), (1, 8), (2, 0), (3, 8), (0xFF, 8), (1, 0), (1, 7), (1, m), (1, 0x7FFF_FFFF), (0, m)] {
        for tag in [*b"tab1", *b"glyf", *b"loca", *b"IFT ", *b"head"] {
            patches.push((format!("tk tag={} flags={flags} max_len={max_len}", String::from_utf8_lossy(&tag)), tk_patch(&COMPAT, &[TkEntry { tag, flags, max_len, stream: b"12345678".to_vec() }], None, None)));
        }
    }
    for count in [0u16, 1, 2, 3, 0x7FFF, 0xFFFF] {
        patches.push((format!("tk declared_count={count}"), tk_patch(&COMPAT, &[TkEntry { tag: *b"tab1", flags: 1, max_len: 8, stream: b"12345678".to_vec() }, TkEntry { tag: *b"tab2", flags: 1, max_len: 8, stream: b"12345678".to_vec() }], Some(count), None)));
    }
    for offs in [vec![0, 0, 0], vec![m, m, m], vec![34, m, m], vec![34, 33, 32], vec![34, 34, 34], vec![34, 0x8000_0000, m], vec![m - 8, m, m], vec![34, 43, 44], vec![35, 52, 69]] {
        patches.push((format!("tk offsets={offs:?}"), tk_patch(&COMPAT, &[TkEntry { tag: *b"tab1", flags: 1, max_len: 8, stream: b"12345678".to_vec() }, TkEntry { tag: *b"tab2", flags: 1, max_len: 8, stream: b"12345678".to_vec() }], None, Some(offs))));
    }
    // every numeric field of the well-formed patches at its extremes (located by traversal)
    let wellformed: Vec<(String, Vec<u8>)> = patches.iter().filter(|(n, _)| n == "gk wide=false gids=[0, 1, 2]" || n == "gk wide=true gids=[0, 1, 2]" || n == "tk declared_count=2").cloned().collect();
    for (n, p) in &wellformed {
        for (f, v, b) in crate::fields::patch_mutants(p) {
            patches.push((format!("{n} field[{f}]={v:#x}"), b));
        }
    }
    offset_array_family(ex, thorough);
    let n_patches = patches.len();
    for (fname, fbytes) in &fonts {
        for (pn, pb) in &patches {
            let label = || format!("ift=patches base={fname} patch=[{pn}] bytes={}", if pb.len() <= 400 { hex(pb) } else { format!("{}..({} bytes)", hex(&pb[..64]), pb.len()) });
            apply_patch(ex, &label, fbytes, pb);
        }
    }
    ex.notes.push(format!("IFT: {n_fonts} format-2 id/count fonts, {n_patches} patches x {} bases", fonts.len()));
}
