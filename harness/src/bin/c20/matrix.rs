//! TrueType graphics-state coupling: SETTER x CONSUMER matrix.
//!
//! Every instruction that writes a graphics-state / engine field from the stack (SETTERS) is executed
//! with arguments from VALUES and followed by every instruction that reads engine state (CONSUMERS),
//! with the consumer's operands arranged so that its active path runs:
//!   * DELTAP1-3 / DELTAC1-3 carry 16 exceptions, one per ppem nibble 0..15, with magnitudes
//!     0, 7, 8, 15 -- whichever nibble equals `ppem - delta_base - bias` applies, for the default delta
//!     base 9 and for every base SDB can install (0, 1, 6, 7, 63, 64, 65535 = -1 as u16) at one of the
//!     ppem 12, 20, 30, 45, 70, 65540;
//!   * point consumers get valid point / contour / zone / cvt indices and a preceding MDAP so that the
//!     reference points are set and touched.
//! Placements: (a) setter + consumer in one glyph program; (b) setter in `prep` (the retained graphics
//! state), consumer in the glyph program; (c) setter + consumer in `prep` (HintingInstance::new; twilight
//! zone / cvt consumers).  Each font is run through HintingInstance::new and hinted draws (pedantic and
//! not, mono and smooth targets) at several ppem by `synth::hint_draw`.
//!
//! Quick tier: every (setter, consumer) pair whose written and read fields intersect with all VALUES,
//! and a deterministic 1/4 sample of the other pairs; thorough tier: the full cross product.
//!
//! Replay: `synth=matrix place=<a|b|c> setter=<name> args=[..] upem=1000 prep=<hex> progs=[<hex>,..]`.
use crate::explore::{parallel, worker_threads, Explorer};
use crate::synth::{build, hint_draw, push_i32, triangle, Spec, PUSHB1};
use fv_harness::common::*;

pub const VALUES: [i32; 12] = [i32::MIN, -65536, -1, 0, 1, 6, 7, 63, 64, 65535, 65536, i32::MAX];

// field classes
const DELTA: u32 = 1 << 0;
const LOOP: u32 = 1 << 1;
const MD: u32 = 1 << 2;
const CVTCI: u32 = 1 << 3;
const SWCI: u32 = 1 << 4;
const SW: u32 = 1 << 5;
const RP: u32 = 1 << 6;
const ZP: u32 = 1 << 7;
const ROUND: u32 = 1 << 8;
const VEC: u32 = 1 << 9;
const CVT: u32 = 1 << 10;
const STORE: u32 = 1 << 11;
const FLIP: u32 = 1 << 12;
const OTHER: u32 = 1 << 13;
/// point coordinates written from the stack (read by everything that reads a zone)
const COORD: u32 = 1 << 14;

#[derive(Clone)]
struct Setter {
    name: String,
    code: Vec<u8>,
    writes: u32,
}

#[derive(Clone)]
struct Consumer {
    name: String,
    code: Vec<u8>,
    reads: u32,
    delta: bool,
    /// meaningful in `prep` (no glyph zone)
    prep_ok: bool,
}

fn prog(args: &[i32], op: u8) -> Vec<u8> {
    let mut c = vec![];
    for a in args {
        push_i32(&mut c, *a);
    }
    c.push(op);
    c
}

fn setters() -> Vec<Setter> {
    let mut v = vec![];
    let mut extra: Vec<Setter> = vec![];
    let mut add = |name: &str, args: &[i32], op: u8, writes: u32| {
        v.push(Setter { name: format!("{name}{args:?}"), code: prog(args, op), writes });
    };
    for x in VALUES {
        for (n, op, w) in [
            ("SRP0", 0x10u8, RP),
            ("SRP1", 0x11, RP),
            ("SRP2", 0x12, RP),
            ("SZP0", 0x13, ZP),
            ("SZP1", 0x14, ZP),
            ("SZP2", 0x15, ZP),
            ("SZPS", 0x16, ZP),
            ("SLOOP", 0x17, LOOP),
            ("SMD", 0x1A, MD),
            ("SCVTCI", 0x1D, CVTCI),
            ("SSWCI", 0x1E, SWCI),
            ("SSW", 0x1F, SW),
            ("SROUND", 0x76, ROUND),
            ("S45ROUND", 0x77, ROUND),
            ("SDB", 0x5E, DELTA),
            ("SDS", 0x5F, DELTA),
            ("SCANCTRL", 0x85, OTHER),
            ("SCANTYPE", 0x8D, OTHER),
            ("SANGW", 0x7E, OTHER),
        ] {
            add(n, &[x], op, w);
        }
        // vectors from the stack: (x, y)
        for (n, op) in [("SPVFS", 0x0Au8), ("SFVFS", 0x0B)] {
            add(n, &[x, 0x4000], op, VEC);
            add(n, &[x, x], op, VEC);
            add(n, &[0, x], op, VEC);
        }
        // vectors from lines: (p1, p2)
        for (n, op) in [("SPVTL0", 0x06u8), ("SPVTL1", 0x07), ("SFVTL0", 0x08), ("SFVTL1", 0x09), ("SDPVTL0", 0x86), ("SDPVTL1", 0x87)] {
            add(n, &[x, 1], op, VEC);
            add(n, &[2, x], op, VEC);
        }
        // storage / cvt writes: (location, value)
        for (n, op, w) in [("WS", 0x42u8, STORE), ("WCVTP", 0x44, CVT), ("WCVTF", 0x70, CVT)] {
            add(n, &[1, x], op, w);
            add(n, &[x, 1], op, w);
        }
        // point coordinates from the stack: SCFS / SHPIX / MSIRP on points 1 and 3, along x and y
        for (an, axis) in [("x", 0x01u8), ("y", 0x00)] {
            for p in [1, 3] {
                for (n, op) in [("SCFS", 0x48u8), ("SHPIX", 0x38), ("MSIRP0", 0x3A)] {
                    let mut code = vec![axis];
                    code.extend(prog(&[p, x], op));
                    extra.push(Setter { name: format!("{n}-{an}[{p}, {x}]"), code, writes: COORD });
                }
            }
        }
        // INSTCTRL: (value, selector)
        for sel in [1, 2, 3] {
            add("INSTCTRL", &[x, sel], 0x8E, OTHER);
        }
        add("INSTCTRL", &[0, x], 0x8E, OTHER);
    }
    for sel in [1i32, 2, 3] {
        add("INSTCTRL", &[1 << (sel - 1), sel], 0x8E, OTHER);
    }
    for (n, op, w) in [
        ("SVTCA0", 0x00u8, VEC),
        ("SVTCA1", 0x01, VEC),
        ("SPVTCA0", 0x02, VEC),
        ("SPVTCA1", 0x03, VEC),
        ("SFVTCA0", 0x04, VEC),
        ("SFVTCA1", 0x05, VEC),
        ("SFVTPV", 0x0E, VEC),
        ("RTG", 0x18, ROUND),
        ("RTHG", 0x19, ROUND),
        ("RTDG", 0x3D, ROUND),
        ("RDTG", 0x7D, ROUND),
        ("RUTG", 0x7C, ROUND),
        ("ROFF", 0x7A, ROUND),
        ("FLIPON", 0x4D, FLIP),
        ("FLIPOFF", 0x4E, FLIP),
    ] {
        add(n, &[], op, w);
    }
    v.extend(extra);
    v
}

fn consumers(thorough: bool) -> Vec<Consumer> {
    let mut v = vec![];
    // reference points set + touched, in both axes: SVTCA[y] MDAP[1] 0, SVTCA[x] MDAP[1] 0 (rp0 = rp1 = 0), SRP2 2
    let prelude: Vec<u8> = vec![0x00, PUSHB1, 0, 0x2F, 0x01, PUSHB1, 0, 0x2F, PUSHB1, 2, 0x12];
    let mut add = |name: &str, with_prelude: bool, args: &[i32], op: u8, reads: u32, delta: bool, prep_ok: bool| {
        let mut code = if with_prelude { prelude.clone() } else { vec![] };
        code.extend(prog(args, op));
        v.push(Consumer { name: format!("{name}{args:?}"), code, reads, delta, prep_ok });
    };
    // --- delta exceptions: 16 (arg, index) pairs + count
    for (n, op) in [("DELTAP1", 0x5Du8), ("DELTAP2", 0x71), ("DELTAP3", 0x72), ("DELTAC1", 0x73), ("DELTAC2", 0x74), ("DELTAC3", 0x75)] {
        let mut args = vec![];
        for k in 0..16i32 {
            let mag = [0, 7, 8, 15][(k % 4) as usize];
            args.push((k << 4) | mag);
            args.push(k % 5); // point / cvt index
        }
        args.push(16);
        let is_c = n.starts_with("DELTAC");
        add(n, !is_c, &args, op, if is_c { DELTA | CVT } else { DELTA | ZP | VEC }, true, is_c);
    }
    let dists: &[i32] = if thorough { &[0, 64, -64, i32::MAX, i32::MIN, 65535, -65536] } else { &[64, i32::MIN, i32::MAX] };
    // --- MIRP / MDRP all 32 flag combinations
    for f in 0..32u8 {
        add(&format!("MIRP{f:05b}"), true, &[3, 4], 0xE0 + f, MD | CVTCI | SWCI | SW | RP | ZP | ROUND | VEC | CVT | FLIP, false, false);
        add(&format!("MDRP{f:05b}"), true, &[3], 0xC0 + f, MD | SWCI | SW | RP | ZP | ROUND | VEC, false, false);
    }
    // twilight-zone variants (zp0 = zp1 = twilight), usable in prep
    for f in [0u8, 0x04, 0x0C, 0x1F] {
        v.push(Consumer { name: format!("twilight-MIRP{f:05b}"), code: [vec![PUSHB1, 0, 0x16], prog(&[1, 2], 0x3F), prog(&[3, 4], 0xE0 + f)].concat(), reads: MD | CVTCI | SWCI | SW | RP | ZP | ROUND | VEC | CVT | FLIP, delta: false, prep_ok: true });
        v.push(Consumer { name: format!("twilight-MDRP{f:05b}"), code: [vec![PUSHB1, 0, 0x16], prog(&[1, 2], 0x3F), prog(&[3], 0xC0 + f)].concat(), reads: MD | SWCI | SW | RP | ZP | ROUND | VEC, delta: false, prep_ok: true });
    }
    let mut add = |name: &str, with_prelude: bool, args: &[i32], op: u8, reads: u32, delta: bool, prep_ok: bool| {
        let mut code = if with_prelude { prelude.clone() } else { vec![] };
        code.extend(prog(args, op));
        v.push(Consumer { name: format!("{name}{args:?}"), code, reads, delta, prep_ok });
    };
    for a in 0..2u8 {
        add("MIAP", true, &[3, 4], 0x3E + a, CVTCI | ZP | ROUND | VEC | CVT, false, false);
        add("MIAP", false, &[3, 5], 0x3E + a, CVTCI | ZP | ROUND | VEC | CVT, false, true);
        add("MDAP", false, &[3], 0x2E + a, ZP | ROUND | VEC, false, true);
        for d in dists {
            add("MSIRP", true, &[3, *d], 0x3A + a, RP | ZP | VEC, false, false);
        }
        add("SHP", true, &[1, 2, 3], 0x32 + a, RP | ZP | VEC | LOOP, false, false);
        add("SHC", true, &[0], 0x34 + a, RP | ZP | VEC, false, false);
        add("SHC", true, &[1], 0x34 + a, RP | ZP | VEC, false, false);
        add("SHZ", true, &[1], 0x36 + a, RP | ZP | VEC, false, false);
        add("SHZ", true, &[0], 0x36 + a, RP | ZP | VEC, false, true);
        add("IUP", true, &[], 0x30 + a, ZP, false, false);
        add("GC", true, &[3], 0x46 + a, ZP | VEC, false, false);
        add("MD", true, &[1, 3], 0x49 + a, ZP | VEC, false, false);
        add("SPVTL", true, &[1, 3], 0x06 + a, ZP | VEC, false, false);
        add("SFVTL", true, &[1, 3], 0x08 + a, ZP | VEC, false, false);
        add("SDPVTL", true, &[1, 3], 0x86 + a, ZP | VEC, false, false);
    }
    for d in dists {
        add("SHPIX", true, &[1, 2, 3, *d], 0x38, LOOP | ZP | VEC, false, false);
        add("SCFS", true, &[3, *d], 0x48, ZP | VEC, false, false);
        for a in 0..4u8 {
            add("ROUND", false, &[*d], 0x68 + a, ROUND, false, true);
            add("NROUND", false, &[*d], 0x6C + a, OTHER, false, true);
        }
    }
    add("IP", true, &[1, 3, 4], 0x39, LOOP | RP | ZP | VEC, false, false);
    add("ALIGNRP", true, &[1, 3, 4], 0x3C, LOOP | RP | ZP | VEC, false, false);
    add("FLIPPT", true, &[1, 3, 4], 0x80, LOOP | ZP, false, false);
    add("FLIPRGON", true, &[1, 3], 0x81, ZP, false, false);
    add("FLIPRGOFF", true, &[1, 3], 0x82, ZP, false, false);
    add("ALIGNPTS", true, &[1, 3], 0x27, ZP | VEC, false, false);
    add("ISECT", true, &[4, 0, 2, 1, 3], 0x0F, ZP, false, false);
    add("UTP", true, &[3], 0x29, ZP | VEC, false, false);
    add("MPPEM", false, &[], 0x4B, VEC, false, true);
    add("MPS", false, &[], 0x4C, VEC, false, true);
    add("GPV", false, &[], 0x0C, VEC, false, true);
    add("GFV", false, &[], 0x0D, VEC, false, true);
    add("SFVTPV", false, &[], 0x0E, VEC, false, true);
    for i in [0, 1, 7] {
        add("RCVT", false, &[i], 0x45, CVT, false, true);
        add("RS", false, &[i], 0x43, STORE, false, true);
        add("WCVTF", false, &[i, 1000], 0x70, CVT | VEC, false, true);
    }
    add("GETINFO", false, &[0xFFFF], 0x88, OTHER, false, true);
    v
}

struct FontJob {
    label: String,
    bytes: Vec<u8>,
    n_glyphs: u32,
    ppems: &'static [f32],
}

const PPEM_DELTA: [f32; 6] = [12.0, 20.0, 30.0, 45.0, 70.0, 65540.0];
const PPEM_OTHER: [f32; 2] = [16.0, 3000.0];
/// the operand sweep also runs at sizes whose ppem exceeds 2^25 / saturates (MPPEM, MPS, scaling ops)
const PPEM_SWEEP: [f32; 4] = [16.0, 65535.0, 4.0e7, 3.0e9];

fn font_of(place: char, setter: &Setter, prep: Vec<u8>, progs: Vec<Vec<u8>>, delta: bool) -> FontJob {
    let fpgm: Vec<u8> = vec![PUSHB1, 0, 0x2C, 0x21, 0x2D];
    let cvt: Vec<i16> = vec![0, 1, -1, 64, 32767, -32768, 500, -700];
    let n = progs.len().max(1);
    let glyphs = if progs.is_empty() { vec![triangle(vec![], false)] } else { progs.iter().map(|p| triangle(p.clone(), false)).collect() };
    let spec = Spec { upem: 1000, advances: (0..n).map(|_| (500u16, 0i16)).collect(), glyphs, cvt, fpgm, prep: prep.clone(), ascender: 800, descender: -200 };
    let bytes = build(&spec);
    let label = format!("synth=matrix place={place} setter={} upem=1000 prep={} progs=[{}]", setter.name, hex(&prep), progs.iter().map(|p| hex(p)).collect::<Vec<_>>().join(","));
    FontJob { label, bytes, n_glyphs: if progs.is_empty() { 0 } else { n as u32 }, ppems: if delta { &PPEM_DELTA } else { &PPEM_OTHER } }
}

pub fn run(cfg: &Config, ex: &mut Explorer) {
    let thorough = cfg.thorough();
    let ss = setters();
    let cs = consumers(thorough);
    let mut jobs: Vec<FontJob> = vec![];
    let (mut pairs_rel, mut pairs_sampled) = (0u64, 0u64);
    let noop_prep = vec![PUSHB1, 0, 0x21];
    for (si, s) in ss.iter().enumerate() {
        // consumers paired with this setter
        let mut sel: Vec<&Consumer> = vec![];
        for (ci, c) in cs.iter().enumerate() {
            let related = s.writes & c.reads != 0 || (s.writes & COORD != 0 && c.reads & ZP != 0);
            // deterministic sample of the unrelated pairs
            let sampled = thorough || (si * 131 + ci * 17) % 4 == 0;
            if related {
                pairs_rel += 1;
                sel.push(c);
            } else if sampled {
                pairs_sampled += 1;
                sel.push(c);
            }
        }
        for delta in [true, false] {
            let group: Vec<&&Consumer> = sel.iter().filter(|c| c.delta == delta).collect();
            for chunk in group.chunks(32) {
                // (a) setter + consumer in the glyph program
                let progs: Vec<Vec<u8>> = chunk.iter().map(|c| [s.code.clone(), c.code.clone()].concat()).collect();
                jobs.push(font_of('a', s, noop_prep.clone(), progs, delta));
                // (b) setter in prep, consumer in the glyph program
                let progs: Vec<Vec<u8>> = chunk.iter().map(|c| c.code.clone()).collect();
                jobs.push(font_of('b', s, s.code.clone(), progs, delta));
            }
            // (c) setter + consumer in prep
            for c in group.iter().filter(|c| c.prep_ok) {
                jobs.push(font_of('c', s, [s.code.clone(), c.code.clone()].concat(), vec![], delta));
            }
        }
    }
    // ---- operand sweep: every opcode with each VALUES value as its top / second operand
    // (the other operands nominal), glyph and prep placement
    let sweep = Setter { name: "operand-sweep".into(), code: vec![], writes: 0 };
    let mut progs: Vec<Vec<u8>> = vec![];
    let mut names: Vec<String> = vec![];
    for op in 0u16..=255 {
        let op = op as u8;
        if matches!(op, 0x40 | 0x41 | 0xB0..=0xBF) {
            continue; // pushes take inline data, not stack operands
        }
        for x in VALUES {
            for form in 0..3 {
                let args: Vec<i32> = match form {
                    0 => vec![1, 1, 1, 1, x],
                    1 => vec![1, 1, 1, x, 1],
                    _ => vec![x, x, x, x, x],
                };
                let mut code = prog(&args, op);
                match op {
                    0x58 => code.extend_from_slice(&[0x1B, 0x59]), // IF .. ELSE EIF
                    0x2C | 0x89 => code.push(0x2D),                 // FDEF / IDEF .. ENDF
                    _ => {}
                }
                progs.push(code);
                names.push(format!("{op:#04x}{args:?}"));
            }
        }
    }
    let n_sweep = progs.len();
    for chunk in progs.chunks(32) {
        let mut j = font_of('a', &sweep, noop_prep.clone(), chunk.to_vec(), false);
        j.ppems = &PPEM_SWEEP;
        jobs.push(j);
    }
    if thorough {
        for p in &progs {
            jobs.push(font_of('c', &sweep, p.clone(), vec![], false));
        }
    } else {
        for p in progs.iter().step_by(3) {
            jobs.push(font_of('c', &sweep, p.clone(), vec![], false));
        }
    }
    let n_fonts = jobs.len();
    let done = parallel(&jobs, worker_threads(), |job, ex| {
        let label = || job.label.clone();
        hint_draw(ex, &label, &job.bytes, job.n_glyphs, job.ppems);
        ex.count("matrix:fonts");
    });
    ex.absorb(done);
    ex.notes.push(format!(
        "bytecode matrix: {} setter instances x {} consumer instances; {pairs_rel} related pairs (all values) + {pairs_sampled} sampled unrelated pairs, placements a/b/c; operand sweep {n_sweep} programs (every opcode x VALUES as top / second / all operands); {n_fonts} fonts",
        ss.len(),
        cs.len()
    ));
}
