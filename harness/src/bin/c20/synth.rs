//! Boundary-valued synthetic fonts (built with write-fonts) for the exploration oracle.
use crate::explore::Explorer;
use fv_harness::common::*;

pub fn run(_cfg: &Config, _ex: &mut Explorer, _rng: &mut Rng) {}
