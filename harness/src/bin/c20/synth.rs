//! Boundary-valued synthetic TrueType fonts for the exploration oracle.
//!
//! * `metric fonts`: unitsPerEm / advance widths / side bearings / glyph coordinates / cvt values at
//!   the extremes of their fields, run through the whole `explore::exercise` operation set.
//! * `bytecode fonts`: every TrueType opcode applied to boundary operands.  Glyph programs are
//!   `[state prefix] [operands] [opcode]`: the prefix installs extreme graphics-state values
//!   (cut-ins, minimum distance, single width, vectors, zones, round state, loop), the operands are
//!   32-bit boundary values synthesised on the stack (`PUSHW hi; PUSHW 0x4000; MUL; PUSHW 0x4000; MUL;
//!   PUSHW lo; ADD`) or small point / cvt / storage indices.  One test per glyph, each drawn hinted
//!   (pedantic and not) at several ppem under catch_unwind.
use crate::explore::{exercise, Explorer};
use fv_harness::common::*;
use read_fonts::{types::Tag, FontRef};
use skrifa::{
    instance::{Location, Size},
    outline::{DrawSettings, Engine, HintingInstance, HintingOptions, OutlinePen, SmoothMode, Target},
    raw::types::GlyphId,
    MetadataProvider,
};
use write_fonts::FontBuilder;

thread_local! {
    static ERRS: std::cell::RefCell<Vec<String>> = std::cell::RefCell::new(vec![]);
}

struct NullPen;
impl OutlinePen for NullPen {
    fn move_to(&mut self, _x: f32, _y: f32) {}
    fn line_to(&mut self, _x: f32, _y: f32) {}
    fn quad_to(&mut self, _a: f32, _b: f32, _x: f32, _y: f32) {}
    fn curve_to(&mut self, _a: f32, _b: f32, _c: f32, _d: f32, _x: f32, _y: f32) {}
    fn close(&mut self) {}
}

pub struct Glyph {
    pub points: Vec<(i16, i16, bool)>,
    /// end point index of each contour
    pub ends: Vec<u16>,
    pub instructions: Vec<u8>,
}

pub struct Spec {
    pub upem: u16,
    pub glyphs: Vec<Glyph>,
    pub advances: Vec<(u16, i16)>,
    pub cvt: Vec<i16>,
    pub fpgm: Vec<u8>,
    pub prep: Vec<u8>,
    pub ascender: i16,
    pub descender: i16,
}

fn p16(b: &mut Vec<u8>, v: u16) {
    b.extend_from_slice(&v.to_be_bytes());
}
fn pi16(b: &mut Vec<u8>, v: i16) {
    b.extend_from_slice(&v.to_be_bytes());
}
fn p32(b: &mut Vec<u8>, v: u32) {
    b.extend_from_slice(&v.to_be_bytes());
}

/// the glyf record of one synthetic glyph (empty for a glyph without points)
pub fn glyph_record(g: &Glyph) -> Vec<u8> {
    let mut glyf = vec![];
    if g.points.is_empty() {
        return glyf;
    }
    pi16(&mut glyf, g.ends.len() as i16);
    let xs: Vec<i16> = g.points.iter().map(|p| p.0).collect();
    let ys: Vec<i16> = g.points.iter().map(|p| p.1).collect();
    pi16(&mut glyf, *xs.iter().min().unwrap());
    pi16(&mut glyf, *ys.iter().min().unwrap());
    pi16(&mut glyf, *xs.iter().max().unwrap());
    pi16(&mut glyf, *ys.iter().max().unwrap());
    for e in &g.ends {
        p16(&mut glyf, *e);
    }
    p16(&mut glyf, g.instructions.len() as u16);
    glyf.extend_from_slice(&g.instructions);
    for p in &g.points {
        glyf.push(if p.2 { 1 } else { 0 });
    }
    // long x / y deltas
    let mut prev = 0i16;
    for x in &xs {
        pi16(&mut glyf, x.wrapping_sub(prev));
        prev = *x;
    }
    prev = 0;
    for y in &ys {
        pi16(&mut glyf, y.wrapping_sub(prev));
        prev = *y;
    }
    glyf
}

pub fn build(spec: &Spec) -> Vec<u8> {
    let records: Vec<Vec<u8>> = spec.glyphs.iter().map(glyph_record).collect();
    let max_points = spec.glyphs.iter().map(|g| g.points.len()).max().unwrap_or(0) as u16;
    let max_contours = spec.glyphs.iter().map(|g| g.ends.len()).max().unwrap_or(0) as u16;
    let max_ins = spec.glyphs.iter().map(|g| g.instructions.len()).max().unwrap_or(0);
    build_records(spec, &records, max_points, max_contours, max_ins, (0, 0, 0, 0))
}

/// a font from hand-made glyf records (no validation whatsoever); `comp` = maxp
/// (maxCompositePoints, maxCompositeContours, maxComponentElements, maxComponentDepth)
pub fn build_records(spec: &Spec, records: &[Vec<u8>], max_points: u16, max_contours: u16, max_ins: usize, comp: (u16, u16, u16, u16)) -> Vec<u8> {
    let n = records.len();
    let mut glyf = vec![];
    let mut loca = vec![];
    for r in records {
        p32(&mut loca, glyf.len() as u32);
        glyf.extend_from_slice(r);
        while glyf.len() % 4 != 0 {
            glyf.push(0);
        }
    }
    p32(&mut loca, glyf.len() as u32);

    let mut head = vec![];
    p32(&mut head, 0x0001_0000);
    p32(&mut head, 0x0001_0000);
    p32(&mut head, 0);
    p32(&mut head, 0x5F0F_3CF5);
    p16(&mut head, 0);
    p16(&mut head, spec.upem);
    head.extend_from_slice(&[0; 16]);
    pi16(&mut head, -32768);
    pi16(&mut head, -32768);
    pi16(&mut head, 32767);
    pi16(&mut head, 32767);
    p16(&mut head, 0);
    p16(&mut head, 8);
    pi16(&mut head, 2);
    pi16(&mut head, 1); // long loca
    pi16(&mut head, 0);

    let mut hhea = vec![];
    p32(&mut hhea, 0x0001_0000);
    pi16(&mut hhea, spec.ascender);
    pi16(&mut hhea, spec.descender);
    pi16(&mut hhea, 32767); // line gap
    p16(&mut hhea, 0xFFFF); // advance width max
    pi16(&mut hhea, -32768);
    pi16(&mut hhea, -32768);
    pi16(&mut hhea, 32767);
    pi16(&mut hhea, 1);
    pi16(&mut hhea, 0);
    pi16(&mut hhea, 0);
    hhea.extend_from_slice(&[0; 8]);
    pi16(&mut hhea, 0);
    p16(&mut hhea, n as u16);

    let mut hmtx = vec![];
    for i in 0..n {
        let (a, l) = spec.advances.get(i).copied().unwrap_or((0, 0));
        p16(&mut hmtx, a);
        pi16(&mut hmtx, l);
    }

    let mut maxp = vec![];
    p32(&mut maxp, 0x0001_0000);
    p16(&mut maxp, n as u16);
    p16(&mut maxp, max_points);
    p16(&mut maxp, max_contours);
    p16(&mut maxp, comp.0);
    p16(&mut maxp, comp.1);
    p16(&mut maxp, 2); // zones
    p16(&mut maxp, 8); // twilight points
    p16(&mut maxp, 16); // storage
    p16(&mut maxp, 4); // function defs
    p16(&mut maxp, 2); // instruction defs
    p16(&mut maxp, 256); // stack
    p16(&mut maxp, max_ins.max(spec.prep.len()).max(spec.fpgm.len()) as u16);
    p16(&mut maxp, comp.2);
    p16(&mut maxp, comp.3);

    let mut cvt = vec![];
    for v in &spec.cvt {
        pi16(&mut cvt, *v);
    }

    // cmap: one format 12 group 'A'.. -> glyph 1.. (klippa's plan requires a cmap)
    let mut cmap = vec![];
    p16(&mut cmap, 0);
    p16(&mut cmap, 1);
    p16(&mut cmap, 3);
    p16(&mut cmap, 10);
    p32(&mut cmap, 12);
    p16(&mut cmap, 12);
    p16(&mut cmap, 0);
    p32(&mut cmap, 28);
    p32(&mut cmap, 0);
    p32(&mut cmap, 1);
    p32(&mut cmap, 0x41);
    p32(&mut cmap, 0x41 + (n.max(2) as u32 - 2));
    p32(&mut cmap, 1);

    let mut fb = FontBuilder::new();
    fb.add_raw(Tag::new(b"cmap"), cmap);
    fb.add_raw(Tag::new(b"head"), head);
    fb.add_raw(Tag::new(b"hhea"), hhea);
    fb.add_raw(Tag::new(b"hmtx"), hmtx);
    fb.add_raw(Tag::new(b"maxp"), maxp);
    fb.add_raw(Tag::new(b"loca"), loca);
    fb.add_raw(Tag::new(b"glyf"), glyf);
    if !cvt.is_empty() {
        fb.add_raw(Tag::new(b"cvt "), cvt);
    }
    if !spec.fpgm.is_empty() {
        fb.add_raw(Tag::new(b"fpgm"), spec.fpgm.clone());
    }
    if !spec.prep.is_empty() {
        fb.add_raw(Tag::new(b"prep"), spec.prep.clone());
    }
    fb.build()
}

// ------------------------------------------------------------------------------- bytecode

pub const PUSHB1: u8 = 0xB0;
pub const PUSHW1: u8 = 0xB8;
const ADD: u8 = 0x60;
const MUL: u8 = 0x63;

/// code leaving the 32-bit value `v` on the stack
pub fn push_i32(code: &mut Vec<u8>, v: i32) {
    if (0..=255).contains(&v) {
        code.extend_from_slice(&[PUSHB1, v as u8]);
        return;
    }
    if (-32768..=32767).contains(&v) {
        code.push(PUSHW1);
        code.extend_from_slice(&(v as i16).to_be_bytes());
        return;
    }
    let lo = v as i16;
    let hi = ((v as i64 - lo as i64) >> 16) as i16;
    code.push(PUSHW1);
    code.extend_from_slice(&hi.to_be_bytes());
    code.extend_from_slice(&[PUSHW1, 0x40, 0x00, MUL, PUSHW1, 0x40, 0x00, MUL]);
    code.push(PUSHW1);
    code.extend_from_slice(&lo.to_be_bytes());
    code.push(ADD);
}

const BOUNDARY: [i32; 28] = [
    i32::MIN,
    i32::MIN + 1,
    i32::MIN + 31,
    i32::MIN + 64,
    -0x4000_0000,
    -0x0100_0000,
    -65536,
    -32769,
    -32768,
    -64,
    -1,
    0,
    1,
    2,
    3,
    32,
    63,
    64,
    255,
    0x3FFF,
    0x4000,
    0x7FFF,
    0x8000,
    0xFFFF,
    0x0100_0000,
    0x4000_0000,
    i32::MAX - 63,
    i32::MAX,
];

/// opcodes that set graphics state from popped values (opcode, number of operands)
const STATE_OPS: [(u8, usize); 22] = [
    (0x10, 1), // SRP0
    (0x11, 1), // SRP1
    (0x12, 1), // SRP2
    (0x13, 1), // SZP0
    (0x14, 1), // SZP1
    (0x15, 1), // SZP2
    (0x16, 1), // SZPS
    (0x17, 1), // SLOOP
    (0x1A, 1), // SMD
    (0x1D, 1), // SCVTCI
    (0x1E, 1), // SSWCI
    (0x1F, 1), // SSW
    (0x0A, 2), // SPVFS
    (0x0B, 2), // SFVFS
    (0x76, 1), // SROUND
    (0x77, 1), // S45ROUND
    (0x5E, 1), // SDB
    (0x5F, 1), // SDS
    (0x42, 2), // WS
    (0x44, 2), // WCVTP
    (0x70, 2), // WCVTF
    (0x8E, 2), // INSTCTRL
];

fn operand(rng: &mut Rng) -> i32 {
    match rng.below(10) {
        0..=3 => *rng.pick(&BOUNDARY),
        4..=7 => rng.range(0, 5) as i32, // point / cvt / storage / zone index
        8 => rng.range(-300, 300) as i32,
        _ => (rng.next() as i32) >> rng.below(32),
    }
}

/// operand for a state-setting opcode: mostly values the opcode accepts
fn state_operand(rng: &mut Rng, op: u8, k: usize) -> i32 {
    match op {
        0x13..=0x16 => rng.below(2) as i32,                                 // zones
        0x10..=0x12 => rng.range(0, 8) as i32,                              // reference points
        0x17 => *rng.pick(&[1, 2, 3, 5, 0xFFFF, i32::MAX]),                 // loop
        0x76 | 0x77 | 0x5F | 0x5E => rng.below(256) as i32,                 // sround / delta base+shift
        0x42 | 0x44 | 0x70 if k == 0 => rng.range(0, 7) as i32,             // storage / cvt index (pushed first)
        _ => operand(rng),
    }
}

/// one glyph program: optional state prefix, operands, opcode
fn test_program(rng: &mut Rng, opcode: u8) -> Vec<u8> {
    let mut code = vec![];
    for _ in 0..rng.below(4) {
        let (op, n) = *rng.pick(&STATE_OPS);
        for k in 0..n {
            let v = if rng.chance(5, 6) { state_operand(rng, op, k) } else { operand(rng) };
            push_i32(&mut code, v);
        }
        code.push(op);
        if rng.chance(1, 3) {
            code.push(*rng.pick(&[0x00u8, 0x01, 0x02, 0x03, 0x04, 0x05, 0x18, 0x19, 0x3D, 0x7C, 0x7D, 0x7A]));
            // SVTCA.., RTG, RTHG, RTDG, RUTG, RDTG, ROFF
        }
    }
    let nargs = rng.below(6) as usize;
    for _ in 0..nargs {
        push_i32(&mut code, operand(rng));
    }
    code.push(opcode);
    match opcode {
        // pushes carry inline data
        0x40 => {
            let n = rng.below(4) as u8;
            code.push(n);
            code.extend(rng.bytes(n as usize));
        }
        0x41 => {
            let n = rng.below(4) as u8;
            code.push(n);
            code.extend(rng.bytes(2 * n as usize));
        }
        0xB0..=0xB7 => code.extend(rng.bytes((opcode - 0xB0 + 1) as usize)),
        0xB8..=0xBF => code.extend(rng.bytes(2 * (opcode - 0xB8 + 1) as usize)),
        // IF: close it
        0x58 => code.extend_from_slice(&[0x1B, 0x59]),
        // FDEF / IDEF: close
        0x2C | 0x89 => code.push(0x2D),
        _ => {}
    }
    // a consumer of whatever the opcode left on the stack / in the state
    if rng.chance(1, 2) {
        code.push(*rng.pick(&[0x2Eu8, 0x2F, 0x3E, 0x3F, 0xC0, 0xDF, 0xE0, 0xFF, 0x68, 0x6C, 0x39, 0x3C, 0x46, 0x47, 0x49, 0x4A]));
    }
    code
}

pub fn triangle(instructions: Vec<u8>, big: bool) -> Glyph {
    let pts = if big {
        vec![(-32768, -32768, true), (32767, -32768, false), (32767, 32767, true), (-32768, 32767, true), (0, 0, true)]
    } else {
        vec![(0, 0, true), (500, 0, false), (500, 700, true), (0, 700, true), (250, 350, true)]
    };
    Glyph { points: pts, ends: vec![3, 4], instructions }
}

pub fn hint_draw(ex: &mut Explorer, label: &dyn Fn() -> String, bytes: &[u8], n_glyphs: u32, ppems: &[f32]) {
    let Ok(font) = FontRef::new(bytes) else { return };
    let outlines = font.outline_glyphs();
    for &ppem in ppems {
        for (tn, target) in [("mono", Target::Mono), ("smooth", Target::Smooth { mode: SmoothMode::Normal, symmetric_rendering: true, preserve_linear_metrics: false })] {
            let mut inst = None;
            ex.op(label, &format!("HintingInstance::new ppem={ppem} target={tn}"), &mut || {
                let opts = HintingOptions { engine: Engine::Interpreter, target };
                inst = match HintingInstance::new(&outlines, Size::new(ppem), &Location::default(), opts) {
                    Ok(i) => Some(i),
                    Err(e) => {
                        ERRS.with(|c| c.borrow_mut().push(format!("inst:{e}")));
                        None
                    }
                };
            });
            let Some(inst) = inst else { continue };
            for g in 0..n_glyphs {
                for pedantic in [false, true] {
                    ex.op(label, &format!("draw-hinted gid={g} ppem={ppem} target={tn} pedantic={pedantic}"), &mut || {
                        if let Some(glyph) = outlines.get(GlyphId::new(g)) {
                            match glyph.draw(DrawSettings::hinted(&inst, pedantic), &mut NullPen) {
                                Ok(_) => ERRS.with(|c| c.borrow_mut().push("draw:ok".into())),
                                Err(e) => ERRS.with(|c| c.borrow_mut().push(format!("draw:{}", e.to_string().chars().take(60).collect::<String>()))),
                            }
                        } else {
                            ERRS.with(|c| c.borrow_mut().push("draw:no-glyph".into()));
                        }
                    });
                }
            }
        }
    }
    // the error / success distribution of this call (thread local: callers may be worker threads)
    let errs = ERRS.with(|c| std::mem::take(&mut *c.borrow_mut()));
    for e in errs {
        let key = if e == "draw:ok" { "draw-ok" } else if e.starts_with("draw:") { "draw-hint-error" } else { "instance-error" };
        ex.count(&format!("synth:{key}"));
    }
}

fn hexs(b: &[u8]) -> String {
    hex(b)
}

pub fn run(cfg: &Config, ex: &mut Explorer, rng: &mut Rng) {
    let t0 = std::time::Instant::now();
    // ---- bytecode fonts: every opcode, `reps` random operand/state tuples each
    let reps = if cfg.thorough() { 60 } else { 6 };
    // function 0 = { POP }, function 1 = { } ; instruction 0x91 defined as { POP }
    let fpgm: Vec<u8> = vec![PUSHB1, 0, 0x2C, 0x21, 0x2D, PUSHB1, 1, 0x2C, 0x2D, PUSHB1, 0x91, 0x89, 0x21, 0x2D];
    let cvt: Vec<i16> = vec![0, 1, -1, 64, 32767, -32768, 500, -700];
    let mut n_fonts = 0u64;
    for rep in 0..reps {
        for chunk in 0..8u32 {
            // 32 opcodes per font, one glyph each
            let mut glyphs = vec![];
            let mut progs = vec![];
            for i in 0..32u32 {
                let opcode = (chunk * 32 + i) as u8;
                let prog = test_program(rng, opcode);
                progs.push(prog.clone());
                glyphs.push(triangle(prog, rep % 5 == 4));
            }
            let upem = *rng.pick(&[16u16, 1000, 2048, 16384]);
            // prep: occasionally an extreme state for all glyphs
            let mut prep = vec![];
            if rng.chance(1, 2) {
                let (op, n) = *rng.pick(&STATE_OPS);
                for _ in 0..n {
                    push_i32(&mut prep, operand(rng));
                }
                prep.push(op);
            } else {
                prep.extend_from_slice(&[PUSHB1, 0, 0x21]);
            }
            let spec = Spec { upem, advances: (0..32).map(|_| (*rng.pick(&[0u16, 1, 500, 0x7FFF, 0x8000, 0xFFFF]), *rng.pick(&[0i16, -1, 1, 32767, -32768]))).collect(), glyphs, cvt: cvt.clone(), fpgm: fpgm.clone(), prep: prep.clone(), ascender: 800, descender: -200 };
            let bytes = build(&spec);
            n_fonts += 1;
            let ppems: &[f32] = if rep % 3 == 0 { &[12.0, 2000.0] } else if rep % 3 == 1 { &[1.0, 65535.0] } else { &[16.0, 3.0e6] };
            let label = || format!("synth=bytecode upem={upem} chunk={chunk} prep={} progs=[{}]", hexs(&prep), progs.iter().map(|p| hexs(p)).collect::<Vec<_>>().join(","));
            hint_draw(ex, &label, &bytes, 32, ppems);
        }
    }
    // the same programs in `prep` (no glyph zone: twilight only)
    for _ in 0..reps * 40 {
        let opcode = rng.below(256) as u8;
        let prep = test_program(rng, opcode);
        let spec = Spec { upem: 1000, advances: vec![(500, 0)], glyphs: vec![triangle(vec![], false)], cvt: cvt.clone(), fpgm: fpgm.clone(), prep: prep.clone(), ascender: 800, descender: -200 };
        let bytes = build(&spec);
        n_fonts += 1;
        let label = || format!("synth=prep-bytecode prep={}", hexs(&prep));
        hint_draw(ex, &label, &bytes, 1, &[16.0, 65535.0]);
    }

    // ---- metric fonts: boundary upem / advances / coordinates / cvt through the full operation set
    for &upem in &[0u16, 1, 15, 16, 1000, 16384, 16385, 0x7FFF, 0x8000, 0xFFFF] {
        for variant in 0..3 {
            let coords: Vec<(i16, i16, bool)> = match variant {
                0 => vec![(-32768, -32768, true), (32767, -32768, true), (32767, 32767, true), (-32768, 32767, true)],
                1 => vec![(0, 0, true), (32767, 0, false), (32767, 32767, false), (0, 32767, true)],
                _ => vec![(-20000, 0, true), (20000, 1, true), (20000, 20000, true), (-20000, 19999, true)],
            };
            let g = |ins: Vec<u8>| Glyph { points: coords.clone(), ends: vec![3], instructions: ins };
            let spec = Spec {
                upem,
                advances: vec![(0xFFFF, -32768), (0, 32767), (0x8000, -1), (0x7FFF, 1)],
                glyphs: vec![g(vec![]), g(vec![PUSHB1, 0, 0x2E]), g(vec![]), Glyph { points: vec![], ends: vec![], instructions: vec![] }],
                cvt: vec![32767, -32768, 0, 1],
                fpgm: vec![],
                prep: vec![PUSHB1, 0, 0x21],
                ascender: 32767,
                descender: -32768,
            };
            let bytes = build(&spec);
            n_fonts += 1;
            let label = || format!("synth=metrics upem={upem} variant={variant}");
            exercise(ex, &label, &bytes, false);
        }
    }
    klippa_unicode_runs(ex);
    let errs = ERRS.with(|c| std::mem::take(&mut *c.borrow_mut()));
    for e in errs {
        let key = if e == "draw:ok" { "draw-ok" } else if e.starts_with("draw:") { "draw-hint-error" } else { "instance-error" };
        ex.count(&format!("synth:{key}"));
    }
    ex.notes.push(format!("synthetic fonts: {n_fonts} ({:.1}s)", t0.elapsed().as_secs_f64()));
}

/// klippa on long consecutive code point runs: a font whose cmap 12 maps U+1000.. to consecutive glyphs
/// and whose cmap 14 has default UVS ranges covering them (full 256-entry ranges, adjacent and not,
/// starting at 0 / in the middle), subset with plans that request runs of 1 .. 600 consecutive code
/// points plus the variation selector
pub fn klippa_unicode_runs(ex: &mut Explorer) {
    use read_fonts::collections::IntSet;
    let n_glyphs = 640usize;
    let spec = Spec {
        upem: 1000,
        advances: (0..n_glyphs).map(|_| (500u16, 0i16)).collect(),
        glyphs: (0..n_glyphs).map(|i| if i < 2 { triangle(vec![], false) } else { Glyph { points: vec![], ends: vec![], instructions: vec![] } }).collect(),
        cvt: vec![],
        fpgm: vec![],
        prep: vec![],
        ascender: 800,
        descender: -200,
    };
    let base = build(&spec);
    for (name, first_cp, ranges) in [
        ("adjacent-full", 0x1000u32, vec![(0x1000u32, 255u8), (0x1100, 255), (0x1200, 100)]),
        ("from-zero", 0u32, vec![(0, 255), (0x100, 255)]),
        ("gaps", 0x1000, vec![(0x1000, 0), (0x1002, 1), (0x1010, 255), (0x1200, 3)]),
    ] {
        let mut sub14: Vec<u8> = vec![];
        p16(&mut sub14, 14);
        p32(&mut sub14, (10 + 11 + 4 + 4 * ranges.len()) as u32);
        p32(&mut sub14, 1);
        sub14.extend_from_slice(&0xFE00u32.to_be_bytes()[1..]);
        p32(&mut sub14, 21);
        p32(&mut sub14, 0);
        p32(&mut sub14, ranges.len() as u32);
        for (st, ac) in &ranges {
            sub14.extend_from_slice(&st.to_be_bytes()[1..]);
            sub14.push(*ac);
        }
        let mut sub12: Vec<u8> = vec![];
        p16(&mut sub12, 12);
        p16(&mut sub12, 0);
        p32(&mut sub12, 28);
        p32(&mut sub12, 0);
        p32(&mut sub12, 1);
        p32(&mut sub12, first_cp);
        p32(&mut sub12, first_cp + n_glyphs as u32 - 2);
        p32(&mut sub12, 1);
        let mut cmap: Vec<u8> = vec![];
        p16(&mut cmap, 0);
        p16(&mut cmap, 2);
        p16(&mut cmap, 0);
        p16(&mut cmap, 5);
        p32(&mut cmap, 20);
        p16(&mut cmap, 3);
        p16(&mut cmap, 10);
        p32(&mut cmap, 20 + sub14.len() as u32);
        cmap.extend_from_slice(&sub14);
        cmap.extend_from_slice(&sub12);
        let Ok(font) = FontRef::new(&base) else { return };
        let mut fb = FontBuilder::new();
        for rec in font.table_directory.table_records() {
            if rec.tag() != Tag::new(b"cmap") {
                if let Some(d) = font.table_data(rec.tag()) {
                    fb.add_raw(rec.tag(), d.as_bytes().to_vec());
                }
            }
        }
        fb.add_raw(Tag::new(b"cmap"), cmap);
        let bytes = fb.build();
        let Ok(font) = FontRef::new(&bytes) else { continue };
        for run in [1u32, 2, 255, 256, 257, 300, 512, 513, 600] {
            for with_selector in [true, false] {
                let label = || format!("synth=klippa-unicode-runs cmap14={name} ranges={ranges:?} run={run} from={first_cp:#x} selector={with_selector}");
                ex.op(&label, "klippa plan+subset", &mut || {
                    let gs: IntSet<GlyphId> = IntSet::empty();
                    let mut unicodes: IntSet<u32> = IntSet::empty();
                    unicodes.insert_range(first_cp..=first_cp + run - 1);
                    if with_selector {
                        unicodes.insert(0xFE00);
                    }
                    let empty_tags: IntSet<Tag> = IntSet::empty();
                    let mut all_tags: IntSet<Tag> = IntSet::empty();
                    all_tags.invert();
                    let name_ids = IntSet::empty();
                    let langs: IntSet<u16> = IntSet::empty();
                    let plan = klippa::Plan::new(&gs, &unicodes, &font, klippa::SubsetFlags::default(), &empty_tags, &all_tags, &all_tags, &name_ids, &langs);
                    let _ = klippa::subset_font(&font, &plan);
                });
            }
        }
    }
}

/// synthetic base fonts for the field-extremes family (explore.rs / fields.rs): a metric font, a
/// bytecode font with fpgm/prep/cvt and one with extreme coordinates
pub fn field_bases() -> Vec<(String, Vec<u8>)> {
    let fpgm: Vec<u8> = vec![PUSHB1, 0, 0x2C, 0x21, 0x2D];
    let mut out = vec![];
    for (name, upem, big) in [("synth-hinted-1000", 1000u16, false), ("synth-hinted-16384-big", 16384, true)] {
        // prep: a DELTAC exception at ppem 16 (delta base 9 + 7) and a cvt write
        let prep = vec![PUSHB1, 3, 0x5E, 0xB2, 0x7F, 0x00, 0x01, 0x73, 0xB1, 1, 64, 0x44];
        let glyph_prog = vec![PUSHB1, 0, 0x2E, 0xB2, 0x78, 1, 1, 0x5D, PUSHB1, 2, 0x3E];
        let spec = Spec {
            upem,
            advances: vec![(500, 10), (0xFFFF, -32768), (0, 32767)],
            glyphs: vec![triangle(glyph_prog, big), triangle(vec![], big), Glyph { points: vec![], ends: vec![], instructions: vec![] }],
            cvt: vec![0, 64, -64, 32767],
            fpgm: fpgm.clone(),
            prep,
            ascender: 800,
            descender: -200,
        };
        out.push((name.to_string(), build(&spec)));
    }
    out
}
