//! C11 — variation stores, metric deltas and axis normalisation compute specified values.
//!
//! Correspondence (real code vs Lean model, Model/{Tent,Normalize,Ivs,Metrics}.lean):
//!   compute_scalar, compute_delta (builder-made and hand-serialised / malformed stores),
//!   ItemVariationData::delta_set / delta_row_len, DeltaSetIndexMap pack + get,
//!   VariationStoreBuilder::build (optimised partition observed from the real output and given
//!   to the model, which recomputes shapes, ordering, bytes, remapping, region pruning),
//!   VariationAxisRecord::normalize, SegmentMaps::apply, Fvar::user_to_normalized,
//!   skrifa GlyphMetrics::advance_width / left_side_bearing.
//! Oracles (model independent): every delta set is retrievable through the returned index;
//!   compute_delta = Σ tent·delta with exact i128 arithmetic; scalar range / exactness;
//!   normalisation fixed points, clamping, monotonicity, exact rounding; segment-map
//!   interpolation; advance = base + delta.
use fv_harness::common::*;
use font_types::{BigEndian, F2Dot14, Fixed, GlyphId, NameId, Tag};
use read_fonts::tables::variations::{
    DeltaSetIndex, DeltaSetIndexMap as RDsim, ItemVariationData as RIvd, ItemVariationStore as RIvs,
};
use read_fonts::{FontData, FontRead, FontRef, TableProvider};
use std::collections::{BTreeMap, BTreeSet, HashMap};
use write_fonts::tables::variations::{
    ivs_builder::VariationStoreBuilder, DeltaSetIndexMap as WDsim, RegionAxisCoordinates,
    VariationRegion,
};

#[path = "c11/coords.rs"]
mod coords;
#[path = "c11/float.rs"]
mod float;
#[path = "c11/metrics2.rs"]
mod metrics2;

type Axis = (i16, i16, i16);
type Region = Vec<Axis>;

// ------------------------------------------------------------------------------------------
// independent specification arithmetic (i128, exact)
// ------------------------------------------------------------------------------------------

/// floor((2*x + d) / (2*d)) for x >= 0, d > 0: exact x/d rounded half up
fn round_half_up(x: i128, d: i128) -> i128 {
    (2 * x + d).div_euclid(2 * d)
}

/// exact p/q (q > 0) rounded to nearest, ties away from zero
fn rha(p: i128, q: i128) -> i128 {
    if p >= 0 { (2 * p + q) / (2 * q) } else { -((2 * (-p) + q) / (2 * q)) }
}

#[derive(Clone, Copy, PartialEq, Debug)]
enum Leg {
    Ignored,
    Outside,
    Peak,
    Up,
    Down,
}

fn leg(c: i64, (s, p, e): Axis) -> Leg {
    let (s, p, e) = (s as i64, p as i64, e as i64);
    if s > p || p > e || p == 0 || (s < 0 && e > 0) {
        Leg::Ignored
    } else if c < s || c > e {
        Leg::Outside
    } else if c == p {
        Leg::Peak
    } else if c < p {
        Leg::Up
    } else {
        Leg::Down
    }
}

/// the specified scalar in 16.16, rounding after each axis exactly as a fixed-point
/// multiply-divide does (round half up of the exact quotient); also returns the exact
/// rational product N/D (None if too large) and the number of rounding steps.
fn spec_scalar(region: &[Axis], coords: &[i16]) -> (i64, Option<(i128, i128)>, u32) {
    let mut sc: i128 = 65536;
    let mut n_acc: Option<(i128, i128)> = Some((1, 1));
    let mut steps = 0;
    for (i, ax) in region.iter().enumerate() {
        let c = coords.get(i).copied().unwrap_or(0) as i64;
        let (s, p, e) = (ax.0 as i128, ax.1 as i128, ax.2 as i128);
        let (n, d) = match leg(c, *ax) {
            Leg::Ignored | Leg::Peak => continue,
            Leg::Outside => return (0, Some((0, 1)), steps),
            Leg::Up => (c as i128 - s, p - s),
            Leg::Down => (e - c as i128, e - p),
        };
        sc = round_half_up(sc * n, d);
        steps += 1;
        n_acc = n_acc.and_then(|(a, b)| {
            let (a, b) = (a.checked_mul(n)?, b.checked_mul(d)?);
            if b > (1i128 << 100) { None } else { Some((a, b)) }
        });
    }
    (sc as i64, n_acc, steps)
}

fn spec_delta(pairs: &[(i64, i64)]) -> i64 {
    // Σ delta·scalar (16.16) rounded to the nearest integer, half up (floor((acc + 0x8000) / 2^16))
    let acc: i128 = pairs.iter().map(|(d, s)| *d as i128 * *s as i128).sum();
    (acc + 0x8000).div_euclid(65536) as i64
}

// ------------------------------------------------------------------------------------------
// value pools
// ------------------------------------------------------------------------------------------

fn f2_grid() -> Vec<i16> {
    vec![-32768, -32767, -16385, -16384, -16383, -8192, -3, -1, 0, 1, 2, 8192, 10923, 16383, 16384, 16385, 32767]
}

fn rand_f2(rng: &mut Rng) -> i16 {
    match rng.below(4) {
        0 => *rng.pick(&f2_grid()),
        1 => rng.range(-16384, 16384) as i16,
        2 => (rng.range(-8, 8) * 2048) as i16,
        _ => rng.range(-32768, 32767) as i16,
    }
}

/// a well-formed region axis (as a font compiler would emit)
fn valid_axis(rng: &mut Rng) -> Axis {
    match rng.below(8) {
        0 => (-16384, -16384, 0),
        1 => (0, 16384, 16384),
        2 => (0, 8192, 16384),
        3 => (8192, 16384, 16384),
        4 => (-16384, -8192, 0),
        5 => (0, 0, 0),
        6 => {
            let mut v = [rng.range(0, 16384) as i16, rng.range(0, 16384) as i16, rng.range(0, 16384) as i16];
            v.sort();
            (v[0], v[1], v[2])
        }
        _ => {
            let mut v = [rng.range(-16384, 0) as i16, rng.range(-16384, 0) as i16, rng.range(-16384, 0) as i16];
            v.sort();
            (v[0], v[1], v[2])
        }
    }
}

fn any_axis(rng: &mut Rng) -> Axis {
    if rng.chance(3, 4) { valid_axis(rng) } else { (rand_f2(rng), rand_f2(rng), rand_f2(rng)) }
}

fn delta_value(rng: &mut Rng, class: u64) -> i32 {
    const B8: [i32; 8] = [1, -1, 2, 100, 126, 127, -127, -128];
    const B16: [i32; 10] = [128, -129, 129, 255, 256, -256, 1000, 32766, 32767, -32768];
    const B32: [i32; 10] = [32768, -32769, 65535, 65536, -65536, 100000, i32::MAX, i32::MIN, i32::MAX - 1, i32::MIN + 1];
    match class {
        0 => 0,
        1 => if rng.chance(1, 2) { *rng.pick(&B8) } else { rng.range(-128, 127) as i32 },
        2 => if rng.chance(1, 2) { *rng.pick(&B16) } else { rng.range(-32768, 32767) as i32 },
        _ => if rng.chance(1, 2) { *rng.pick(&B32) } else { (rng.next() as i32) >> rng.below(16) },
    }
}

// ------------------------------------------------------------------------------------------
// raw stores: hand serialiser, request encoding
// ------------------------------------------------------------------------------------------

#[derive(Clone, Debug)]
struct RawSub {
    item_count: u16,
    wdc: u16,
    region_indexes: Vec<u16>,
    data: Vec<u8>,
}

#[derive(Clone, Debug)]
struct RawStore {
    axis_count: u16,
    regions: Vec<Region>,
    subs: Vec<Option<RawSub>>,
}

impl RawStore {
    fn to_bytes(&self) -> Vec<u8> {
        let mut out = vec![];
        let n = self.subs.len();
        let header = 8 + 4 * n;
        out.extend_from_slice(&1u16.to_be_bytes());
        out.extend_from_slice(&(header as u32).to_be_bytes());
        out.extend_from_slice(&(n as u16).to_be_bytes());
        let mut region_list = vec![];
        region_list.extend_from_slice(&self.axis_count.to_be_bytes());
        region_list.extend_from_slice(&(self.regions.len() as u16).to_be_bytes());
        for r in &self.regions {
            for (s, p, e) in r {
                region_list.extend_from_slice(&s.to_be_bytes());
                region_list.extend_from_slice(&p.to_be_bytes());
                region_list.extend_from_slice(&e.to_be_bytes());
            }
        }
        let mut pos = header + region_list.len();
        let mut bodies = vec![];
        for s in &self.subs {
            match s {
                None => out.extend_from_slice(&0u32.to_be_bytes()),
                Some(s) => {
                    out.extend_from_slice(&(pos as u32).to_be_bytes());
                    let mut b = vec![];
                    b.extend_from_slice(&s.item_count.to_be_bytes());
                    b.extend_from_slice(&s.wdc.to_be_bytes());
                    b.extend_from_slice(&(s.region_indexes.len() as u16).to_be_bytes());
                    for r in &s.region_indexes {
                        b.extend_from_slice(&r.to_be_bytes());
                    }
                    b.extend_from_slice(&s.data);
                    pos += b.len();
                    bodies.push(b);
                }
            }
        }
        out.extend_from_slice(&region_list);
        for b in bodies {
            out.extend_from_slice(&b);
        }
        out
    }

    fn req_prefix(&self) -> String {
        let mut t: Vec<String> = vec![self.regions.len().to_string()];
        for r in &self.regions {
            t.push(r.len().to_string());
            for (s, p, e) in r {
                t.push(format!("{s} {p} {e}"));
            }
        }
        t.push(self.subs.len().to_string());
        for s in &self.subs {
            match s {
                None => t.push("0".into()),
                Some(s) => {
                    t.push(format!("1 {} {} {}", s.item_count, s.wdc, s.region_indexes.len()));
                    for r in &s.region_indexes {
                        t.push(r.to_string());
                    }
                    t.push(s.data.len().to_string());
                    for b in &s.data {
                        t.push(b.to_string());
                    }
                }
            }
        }
        t.join(" ")
    }
}

/// read a compiled store back into the raw view with read-fonts' generated getters
fn parse_store(bytes: &[u8]) -> Result<RawStore, String> {
    let ivs = RIvs::read(FontData::new(bytes)).map_err(|e| e.to_string())?;
    let rl = ivs.variation_region_list().map_err(|e| e.to_string())?;
    let mut regions = vec![];
    for r in rl.variation_regions().iter() {
        let r = r.map_err(|e| e.to_string())?;
        regions.push(
            r.region_axes()
                .iter()
                .map(|a| (a.start_coord().to_bits(), a.peak_coord().to_bits(), a.end_coord().to_bits()))
                .collect::<Vec<_>>(),
        );
    }
    let mut subs = vec![];
    for d in ivs.item_variation_data().iter() {
        match d {
            None => subs.push(None),
            Some(d) => {
                let d: RIvd = d.map_err(|e| e.to_string())?;
                subs.push(Some(RawSub {
                    item_count: d.item_count(),
                    wdc: d.word_delta_count(),
                    region_indexes: d.region_indexes().iter().map(|x| x.get()).collect(),
                    data: d.delta_sets().to_vec(),
                }));
            }
        }
    }
    Ok(RawStore { axis_count: rl.axis_count(), regions, subs })
}

/// `<k> x1 .. xk` (length-prefixed list for the driver)
fn lreq<T: std::fmt::Display>(xs: &[T]) -> String {
    let mut t = xs.len().to_string();
    for x in xs {
        t.push(' ');
        t.push_str(&x.to_string());
    }
    t
}

fn coords_f2(coords: &[i16]) -> Vec<F2Dot14> {
    coords.iter().map(|c| F2Dot14::from_bits(*c)).collect()
}

fn real_compute_delta(bytes: &[u8], outer: u16, inner: u16, coords: &[i16]) -> String {
    let r = catch(|| {
        let ivs = match RIvs::read(FontData::new(bytes)) {
            Ok(v) => v,
            Err(_) => return "readerr".to_string(),
        };
        match ivs.compute_delta(DeltaSetIndex { outer, inner }, &coords_f2(coords)) {
            Ok(v) => v.to_string(),
            Err(_) => "err".to_string(),
        }
    });
    r.unwrap_or_else(|_| "trap".into())
}

// ------------------------------------------------------------------------------------------
// A. compute_scalar
// ------------------------------------------------------------------------------------------

fn real_scalar(region: &[Axis], coords: &[i16]) -> Result<i32, String> {
    let axes: Vec<read_fonts::tables::variations::RegionAxisCoordinates> = region
        .iter()
        .map(|(s, p, e)| read_fonts::tables::variations::RegionAxisCoordinates {
            start_coord: BigEndian::from(F2Dot14::from_bits(*s)),
            peak_coord: BigEndian::from(F2Dot14::from_bits(*p)),
            end_coord: BigEndian::from(F2Dot14::from_bits(*e)),
        })
        .collect();
    let cs = coords_f2(coords);
    catch(|| {
        let reg = read_fonts::tables::variations::VariationRegion { region_axes: &axes };
        reg.compute_scalar(&cs).to_bits()
    })
}

fn scalar_case(s: &mut Session, region: &[Axis], coords: &[i16]) {
    let got = real_scalar(region, coords);
    let mut req = format!("tent.scalar {}", region.len());
    for (a, b, c) in region {
        req.push_str(&format!(" {a} {b} {c}"));
    }
    req.push_str(&format!(" {}", coords.len()));
    for c in coords {
        req.push_str(&format!(" {c}"));
    }
    s.case("compute_scalar", req, trap_or(got.clone()));
    let input = || format!("region={region:?} coords={coords:?}");
    let (want, exact, steps) = spec_scalar(region, coords);
    s.oracle("scalar=spec-tent-product", got == Ok(want as i32), input, || format!("got {got:?} want {want}"));
    if let Ok(g) = got {
        s.oracle("scalar-in-[0,1]", (0..=65536).contains(&g), input, || format!("{g}"));
        if let Some((n, d)) = exact {
            // |g/65536 - N/D| <= steps/2 ulp  <=>  2*|g*D - 65536*N| <= steps*D
            let lhs = 2 * (g as i128 * d - 65536 * n).abs();
            s.oracle("scalar-within-half-ulp-per-axis", lhs <= steps as i128 * d, input, || format!("g={g} N={n} D={d} steps={steps}"));
        }
    }
    for (i, ax) in region.iter().enumerate() {
        let c = coords.get(i).copied().unwrap_or(0) as i64;
        s.count(&format!("leg:{:?}", leg(c, *ax)));
    }
}

fn run_scalar(cfg: &Config, s: &mut Session, rng: &mut Rng) {
    let grid = f2_grid();
    // single axis: boundary grid^3 x (grid + boundaries +-1)
    let sub: Vec<i16> = if cfg.thorough() { grid.clone() } else { vec![-32768, -16384, -8192, -1, 0, 1, 8192, 16383, 16384, 32767] };
    for &a in &sub {
        for &b in &sub {
            for &c in &sub {
                let mut cs: BTreeSet<i16> = BTreeSet::new();
                for v in [a, b, c] {
                    for d in [-1i32, 0, 1] {
                        cs.insert((v as i32 + d).clamp(-32768, 32767) as i16);
                    }
                }
                cs.insert(0);
                cs.insert(((a as i32 + b as i32) / 2) as i16);
                cs.insert(((b as i32 + c as i32) / 2) as i16);
                for &x in &cs {
                    scalar_case(s, &[(a, b, c)], &[x]);
                }
            }
        }
    }
    // monotone on each leg (valid single axis): sweep
    let n_sweeps = if cfg.thorough() { 400 } else { 60 };
    for _ in 0..n_sweeps {
        let ax = valid_axis(rng);
        if leg(ax.1 as i64, ax) == Leg::Ignored {
            continue;
        }
        let mut prev: Option<(i16, i32)> = None;
        let lo = ax.0 as i32;
        let hi = ax.2 as i32;
        let step = ((hi - lo) / 97).max(1);
        let mut x = lo;
        while x <= hi {
            let c = x as i16;
            if let Ok(v) = real_scalar(&[ax], &[c]) {
                if let Some((pc, pv)) = prev {
                    let ok = if c <= ax.1 { pv <= v } else if pc >= ax.1 { pv >= v } else { true };
                    s.oracle("scalar-monotone-on-leg", ok, || format!("axis={ax:?} coords {pc} -> {c}"), || format!("{pv} -> {v}"));
                }
                prev = Some((c, v));
            }
            x += step;
        }
    }
    // multi axis, random; coords shorter / longer than the axis list
    let n = if cfg.thorough() { 60_000 } else { 6_000 };
    for _ in 0..n {
        let k = rng.range(1, 4) as usize;
        let region: Region = (0..k).map(|_| any_axis(rng)).collect();
        let nc = match rng.below(6) { 0 => k.saturating_sub(1), 1 => k + 1, _ => k };
        let coords: Vec<i16> = (0..nc)
            .map(|i| {
                if i < k && rng.chance(2, 3) {
                    let ax = region[i];
                    let base = *rng.pick(&[ax.0, ax.1, ax.2, ((ax.0 as i32 + ax.1 as i32) / 2) as i16, ((ax.1 as i32 + ax.2 as i32) / 2) as i16]);
                    (base as i32 + rng.range(-1, 1) as i32).clamp(-32768, 32767) as i16
                } else {
                    rand_f2(rng)
                }
            })
            .collect();
        scalar_case(s, &region, &coords);
    }
}

// ------------------------------------------------------------------------------------------
// B. builder -> bytes -> reader
// ------------------------------------------------------------------------------------------

fn w_region(r: &Region) -> VariationRegion {
    VariationRegion::new(
        r.iter()
            .map(|(s, p, e)| RegionAxisCoordinates::new(F2Dot14::from_bits(*s), F2Dot14::from_bits(*p), F2Dot14::from_bits(*e)))
            .collect(),
    )
}

struct Scenario {
    axis_count: u16,
    regions: Vec<Region>,
    /// each added delta set: (region idx into `regions`, delta)
    sets: Vec<Vec<(usize, i32)>>,
    direct: bool,
    label: &'static str,
}

struct BuiltStore {
    bytes: Vec<u8>,
    /// temp id returned by add_deltas for each set
    ids: Vec<u32>,
    /// temp id -> (outer, inner)
    remap: BTreeMap<u32, (u16, u16)>,
}

fn build_real(sc: &Scenario) -> Result<BuiltStore, String> {
    catch(|| {
        let mut b = if sc.direct {
            VariationStoreBuilder::new_with_implicit_indices(sc.axis_count)
        } else {
            VariationStoreBuilder::new(sc.axis_count)
        };
        let mut ids = vec![];
        for set in &sc.sets {
            let v: Vec<(VariationRegion, i32)> = set.iter().map(|(r, d)| (w_region(&sc.regions[*r]), *d)).collect();
            ids.push(b.add_deltas(v));
        }
        let (store, map) = b.build();
        let bytes = write_fonts::dump_table(&store).map_err(|e| format!("dump: {e}"))?;
        let mut remap = BTreeMap::new();
        for id in &ids {
            if let Some(vi) = map.get(*id) {
                remap.insert(*id, (vi.delta_set_outer_index, vi.delta_set_inner_index));
            }
        }
        Ok(BuiltStore { bytes, ids, remap })
    })
    .and_then(|r| r)
}

fn scenario_desc(sc: &Scenario) -> String {
    let mut d = format!("{} direct={} axes={} regions={:?} sets=", sc.label, sc.direct, sc.axis_count, sc.regions);
    if sc.sets.len() <= 12 {
        d.push_str(&format!("{:?}", sc.sets));
    } else {
        d.push_str(&format!("{:?}.. ({} sets)", &sc.sets[..6], sc.sets.len()));
    }
    d
}

/// canonical region indices as the builder assigns them: order of first appearance in add_deltas
fn canonical_regions(sc: &Scenario) -> (Vec<usize>, HashMap<usize, usize>) {
    let mut order = vec![];
    let mut canon: HashMap<usize, usize> = HashMap::new();
    for set in &sc.sets {
        for (r, _) in set {
            if !canon.contains_key(r) {
                canon.insert(*r, order.len());
                order.push(*r);
            }
        }
    }
    (order, canon)
}

fn check_built(cfg: &Config, s: &mut Session, rng: &mut Rng, sc: &Scenario) {
    let desc = scenario_desc(sc);
    let built = build_real(sc);
    s.count(&format!("scenario:{}", sc.label));
    if sc.direct && sc.sets.len() > 0xFFFF {
        // documented limit of the implicit-index builder (asserts)
        s.oracle("direct-over-limit-rejected", built.is_err(), || desc.clone(), || "built".into());
        return;
    }
    let built = match built {
        Ok(b) => b,
        Err(e) => {
            s.oracle("builder-no-panic", false, || desc.clone(), || e.clone());
            return;
        }
    };
    s.oracle("builder-no-panic", true, || desc.clone(), String::new);
    let store = match parse_store(&built.bytes) {
        Ok(st) => st,
        Err(e) => {
            s.oracle("built-store-reads-back", false, || desc.clone(), || e.clone());
            return;
        }
    };
    s.oracle("built-store-reads-back", true, || desc.clone(), String::new);
    metrics2::store_bytes_case(s, &built.bytes, &store, &desc);
    s.count(&format!("subtables:{}", store.subs.len().min(9)));
    for sub in store.subs.iter().flatten() {
        s.count(if sub.wdc & 0x8000 != 0 { "sub:long-words" } else if sub.wdc > 0 { "sub:words" } else if sub.region_indexes.is_empty() { "sub:no-regions" } else { "sub:bytes-only" });
        if sub.item_count == 0xFFFF {
            s.count("sub:full-0xFFFF");
        }
    }
    let ivs = RIvs::read(FontData::new(&built.bytes)).unwrap();
    // ---- oracle 1: every delta set is retrievable through the returned index ----------------
    let region_pos: HashMap<&Region, usize> = store.regions.iter().enumerate().map(|(i, r)| (r, i)).collect();
    s.oracle("region-list-has-no-duplicates", region_pos.len() == store.regions.len(), || desc.clone(), || format!("{:?}", store.regions));
    let mut used_any: BTreeSet<usize> = BTreeSet::new();
    for sub in store.subs.iter().flatten() {
        for r in &sub.region_indexes {
            used_any.insert(*r as usize);
        }
    }
    s.oracle("region-list-pruned-to-used", used_any.len() == store.regions.len(), || desc.clone(), || format!("used {used_any:?} of {}", store.regions.len()));
    let mut first_bad: Option<String> = None;
    let mut n_bad = 0u64;
    for (k, set) in sc.sets.iter().enumerate() {
        let id = built.ids[k];
        // expected per-region deltas: last entry for a region wins is NOT assumed; generators keep regions distinct per set
        let mut want: BTreeMap<&Region, i32> = BTreeMap::new();
        for (r, d) in set {
            if *d != 0 {
                want.insert(&sc.regions[*r], *d);
            }
        }
        let got: Result<BTreeMap<&Region, i32>, String> = (|| {
            let (outer, inner) = *built.remap.get(&id).ok_or("no remap entry")?;
            let sub = store.subs.get(outer as usize).ok_or("outer out of range")?.as_ref().ok_or("null subtable")?;
            if inner >= sub.item_count {
                return Err(format!("inner {inner} >= item_count {}", sub.item_count));
            }
            let data = ivs.item_variation_data().get(outer as usize).ok_or("null")?.map_err(|e| e.to_string())?;
            let row: Vec<i32> = data.delta_set(inner).collect();
            if row.len() != sub.region_indexes.len() {
                return Err(format!("row has {} values, {} region indexes", row.len(), sub.region_indexes.len()));
            }
            let mut m = BTreeMap::new();
            for (v, ri) in row.iter().zip(&sub.region_indexes) {
                let reg = store.regions.get(*ri as usize).ok_or("region index out of range")?;
                if *v != 0 {
                    if m.insert(reg, *v).is_some() {
                        return Err("region listed twice".into());
                    }
                }
            }
            Ok(m)
        })();
        let ok = got.as_ref().map(|g| *g == want).unwrap_or(false);
        if !ok {
            n_bad += 1;
            if first_bad.is_none() {
                first_bad = Some(format!("set #{k} id {id} input {:?}: got {got:?}", set));
            }
        }
    }
    s.oracle("delta-set-retrievable-via-remap", n_bad == 0, || desc.clone(), || format!("{n_bad} bad; first: {}", first_bad.clone().unwrap_or_default()));
    s.oracle_checks += sc.sets.len() as u64;
    if !sc.direct {
        // distinct ids get distinct indices
        let distinct: BTreeSet<(u16, u16)> = built.remap.values().copied().collect();
        s.oracle("remap-injective", distinct.len() == built.remap.len(), || desc.clone(), String::new);
    } else {
        let ok = built.ids.iter().enumerate().all(|(k, id)| *id == k as u32 && built.remap.get(id) == Some(&(0, k as u16)));
        s.oracle("direct-indices-are-implicit", ok, || desc.clone(), String::new);
    }

    // ---- correspondence: the model rebuilds the store from the observed partition -----------
    let (order, canon) = canonical_regions(sc);
    let n_canon = order.len();
    if !sc.direct {
        // add_deltas de-duplication: equal normalised sets <=> equal temporary ids (oracle, independent
        // of the model), and the ids themselves against Ivs.addAllDedup
        let norm = |set: &Vec<(usize, i32)>| -> Vec<(usize, i32)> {
            let mut v: Vec<(usize, i32)> = set.iter().map(|(r, d)| (canon[r], *d)).collect();
            v.sort();
            if v.iter().all(|(_, d)| *d == 0) {
                v.clear();
            }
            v
        };
        let mut by_norm: HashMap<Vec<(usize, i32)>, u32> = HashMap::new();
        let mut by_id: HashMap<u32, Vec<(usize, i32)>> = HashMap::new();
        let mut ok = true;
        for (k, set) in sc.sets.iter().enumerate() {
            let nset = norm(set);
            let id = built.ids[k];
            ok &= *by_norm.entry(nset.clone()).or_insert(id) == id;
            ok &= *by_id.entry(id).or_insert(nset.clone()) == nset;
        }
        s.oracle("add_deltas-dedup(equal sets <=> equal ids)", ok, || desc.clone(), || format!("{:?}", built.ids.iter().take(40).collect::<Vec<_>>()));
        s.count(if by_id.len() < sc.sets.len() { "dedup:has-duplicates" } else { "dedup:all-distinct" });
        if sc.sets.len() <= 3000 {
            let mut r = format!("ivs.addall {}", sc.sets.len());
            for set in &sc.sets {
                r.push_str(&format!(" {}", set.len()));
                for (reg, d) in set {
                    r.push_str(&format!(" {} {}", canon[reg], d));
                }
            }
            s.case("add_deltas(ids)", r, join(&built.ids));
        }
    }
    let mut req;
    if sc.direct {
        req = format!("ivs.direct {} {}", n_canon, sc.sets.len());
        for set in &sc.sets {
            req.push_str(&format!(" {}", set.len()));
            for (r, d) in set {
                req.push_str(&format!(" {} {}", canon[r], d));
            }
        }
    } else {
        // group ids by encoding: one per subtable, except 0xFFFF-row chunks of one encoding
        let mut first_set_of: BTreeMap<u32, usize> = BTreeMap::new();
        for (k, id) in built.ids.iter().enumerate() {
            first_set_of.entry(*id).or_insert(k);
        }
        let mut by_outer: BTreeMap<u16, Vec<u32>> = BTreeMap::new();
        for (id, (o, _)) in &built.remap {
            by_outer.entry(*o).or_default().push(*id);
        }
        let mut groups: Vec<Vec<u32>> = vec![];
        let mut prev: Option<u16> = None;
        for (o, ids) in by_outer {
            let cont = match prev {
                Some(p) if p + 1 == o => {
                    let a = store.subs[p as usize].as_ref();
                    let b = store.subs[o as usize].as_ref();
                    matches!((a, b), (Some(a), Some(b)) if a.item_count == 0xFFFF && a.wdc == b.wdc && a.region_indexes == b.region_indexes)
                }
                _ => false,
            };
            if cont {
                groups.last_mut().unwrap().extend(ids);
            } else {
                groups.push(ids);
            }
            prev = Some(o);
        }
        req = format!("ivs.build {} {}", n_canon, groups.len());
        for g in &groups {
            req.push_str(&format!(" {}", g.len()));
            for id in g {
                let set = &sc.sets[first_set_of[id]];
                req.push_str(&format!(" {} {}", id, set.len()));
                for (r, d) in set {
                    req.push_str(&format!(" {} {}", canon[r], d));
                }
            }
        }
        s.count(&format!("encodings:{}", groups.len().min(9)));
    }
    // the implementation's view in the same canonical form
    let subs_s: Vec<String> = store
        .subs
        .iter()
        .map(|x| match x {
            None => "null".to_string(),
            Some(x) => format!("{},{},{},{}", x.item_count, x.wdc, join(&x.region_indexes), hex(&x.data)),
        })
        .collect();
    let mut remap_sorted: Vec<(u16, u16, u32)> = built.remap.iter().map(|(id, (o, i))| (*o, *i, *id)).collect();
    remap_sorted.sort();
    let remap_s: Vec<String> = remap_sorted.iter().map(|(o, i, id)| format!("{id}:{o}:{i}")).collect();
    // kept regions as canonical indices
    let used: Vec<String> = store
        .regions
        .iter()
        .map(|r| {
            order.iter().position(|x| &sc.regions[*x] == r).map(|p| p.to_string()).unwrap_or_else(|| "?".into())
        })
        .collect();
    let resp = format!(
        "subs={}|remap={}|used={}",
        subs_s.join(";"),
        remap_s.join(" "),
        if used.is_empty() { "-".to_string() } else { used.join(" ") }
    );
    s.case(if sc.direct { "build_unoptimized" } else { "build(optimised partition)" }, req, resp);

    // ---- oracle 2 + correspondence: compute_delta on a coordinate grid ---------------------
    if store.subs.len() > 40 || sc.sets.len() > 3000 {
        // large stores: sample items, skip the (long) model request
        let n = if cfg.thorough() { 600 } else { 120 };
        for _ in 0..n {
            let k = rng.below(sc.sets.len() as u64) as usize;
            delta_oracle(s, rng, sc, &built, &ivs, k, &desc);
        }
        return;
    }
    let n_items = if cfg.thorough() { 24 } else { 8 };
    let prefix = store.req_prefix();
    for _ in 0..n_items.min(sc.sets.len()) {
        let k = rng.below(sc.sets.len() as u64) as usize;
        let coords_list = delta_oracle(s, rng, sc, &built, &ivs, k, &desc);
        if prefix.len() < 6000 {
            let Some(&(outer, inner)) = built.remap.get(&built.ids[k]) else { continue };
            for coords in coords_list.iter().take(6) {
                let real = real_compute_delta(&built.bytes, outer, inner, coords);
                s.case("compute_delta(built)", format!("ivs.delta {prefix} {outer} {inner} {}", lreq(coords)), real);
            }
        }
    }
}

/// compute_delta for set `k` at boundary-dense locations equals Σ tent·delta (exact)
fn delta_oracle(s: &mut Session, rng: &mut Rng, sc: &Scenario, built: &BuiltStore, ivs: &RIvs, k: usize, desc: &str) -> Vec<Vec<i16>> {
    let set = &sc.sets[k];
    let Some(&(outer, inner)) = built.remap.get(&built.ids[k]) else { return vec![] };
    let ac = sc.axis_count as usize;
    // candidate coordinates per axis: region boundaries of this set's regions +-1
    let mut per_axis: Vec<Vec<i16>> = vec![vec![0, -16384, 16384]; ac];
    for (r, _) in set {
        for (i, ax) in sc.regions[*r].iter().enumerate() {
            for v in [ax.0, ax.1, ax.2] {
                for d in [-1i32, 0, 1] {
                    per_axis[i].push((v as i32 + d).clamp(-32768, 32767) as i16);
                }
            }
            per_axis[i].push(((ax.0 as i32 + ax.1 as i32) / 2) as i16);
            per_axis[i].push(((ax.1 as i32 + ax.2 as i32) / 2 + 1) as i16);
        }
    }
    let mut out = vec![];
    for t in 0..14 {
        let coords: Vec<i16> = (0..ac).map(|i| if t == 0 { per_axis[i][1] } else { *rng.pick(&per_axis[i]) }).collect();
        let got = catch(|| ivs.compute_delta(DeltaSetIndex { outer, inner }, &coords_f2(&coords)).map_err(|e| e.to_string()));
        let pairs: Vec<(i64, i64)> = set.iter().map(|(r, d)| (*d as i64, spec_scalar(&sc.regions[*r], &coords).0)).collect();
        let want = spec_delta(&pairs);
        // an all-zero coordinate vector is still evaluated by compute_delta (only an EMPTY slice short-circuits)
        let want32 = want as i32; // the API returns i32: sums beyond i32 are outside the property's domain
        if want == want32 as i64 {
            let ok = matches!(&got, Ok(Ok(v)) if *v == want32);
            s.oracle("compute_delta=sum(tent*delta)", ok, || format!("{desc} | set #{k} {set:?} coords={coords:?}"), || format!("got {got:?} want {want}"));
        } else {
            s.count("delta-sum-beyond-i32");
        }
        out.push(coords);
    }
    out
}

fn gen_scenario(rng: &mut Rng, label: &'static str, n_regions: usize, n_sets: usize, classes: &[u64], direct: bool) -> Scenario {
    let axis_count = rng.range(1, 3) as u16;
    let mut regions: Vec<Region> = vec![];
    let mut guard = 0;
    while regions.len() < n_regions && guard < 10_000 {
        guard += 1;
        let r: Region = (0..axis_count).map(|_| if rng.chance(9, 10) { valid_axis(rng) } else { any_axis(rng) }).collect();
        if !regions.contains(&r) {
            regions.push(r);
        }
    }
    let n_regions = regions.len();
    let mut sets = vec![];
    for _ in 0..n_sets {
        let style = rng.below(10);
        let mut set: Vec<(usize, i32)> = vec![];
        let mut idx: Vec<usize> = (0..n_regions).collect();
        rng.shuffle(&mut idx);
        let take = match style {
            0 => 0,
            1 => n_regions,
            _ => rng.range(1, n_regions as i64) as usize,
        };
        let row_class = *rng.pick(classes);
        for r in idx.into_iter().take(take) {
            let class = if rng.chance(2, 3) { row_class } else { *rng.pick(classes) };
            let d = if style == 2 { 0 } else { delta_value(rng, class) };
            set.push((r, d));
        }
        sets.push(set);
        // duplicates of earlier sets
        if rng.chance(1, 8) && !sets.is_empty() {
            let j = rng.below(sets.len() as u64) as usize;
            let mut dup = sets[j].clone();
            if rng.chance(1, 2) {
                rng.shuffle(&mut dup);
            }
            sets.push(dup);
        }
    }
    Scenario { axis_count, regions, sets, direct, label }
}

/// many distinct rows of one shape family: crosses the 0xFFFF rows-per-subtable split
fn big_scenario(rng: &mut Rng, n_sets: usize, wide: bool) -> Scenario {
    let regions: Vec<Region> = vec![vec![(0, 16384, 16384)], vec![(-16384, -16384, 0)], vec![(0, 8192, 16384)]];
    let mut sets = Vec::with_capacity(n_sets);
    for k in 0..n_sets {
        // distinct (a, b) pairs, all two-byte columns so that every row has the same shape
        let a = 200 + (k % 30000) as i32;
        let b = -(300 + (k / 30000) as i32);
        let mut set = vec![(0usize, a), (1usize, b)];
        if wide && k % 1000 == 7 {
            set.push((2, if k % 2000 == 7 { 70000 } else { 5 }));
        }
        if rng.chance(1, 2) {
            set.reverse();
        }
        sets.push(set);
    }
    Scenario { axis_count: 1, regions, sets, direct: false, label: if wide { "big-mixed" } else { "big-uniform" } }
}

fn run_builder(cfg: &Config, s: &mut Session, rng: &mut Rng) {
    // for_val boundaries observed through single-row stores
    for v in [0i32, 1, -1, 127, 128, -128, -129, 255, 256, 32767, 32768, -32768, -32769, 65535, 65536, i32::MAX, i32::MIN] {
        let sc = Scenario { axis_count: 1, regions: vec![vec![(0, 16384, 16384)]], sets: vec![vec![(0, v)]], direct: false, label: "single" };
        if let Ok(b) = build_real(&sc) {
            if let Ok(st) = parse_store(&b.bytes) {
                let bits = match st.subs.first().and_then(|x| x.as_ref()) {
                    Some(sub) if sub.region_indexes.is_empty() => 0,
                    Some(sub) if sub.wdc & 0x8000 != 0 => 4,
                    Some(sub) if sub.wdc == 1 => 2,
                    Some(_) => 1,
                    None => 99,
                };
                s.case("for_val(observed)", format!("ivs.forval {v}"), bits.to_string());
                let fits = |b: i32| match b { 0 => v == 0, 1 => i8::try_from(v).is_ok(), 2 => i16::try_from(v).is_ok(), _ => true };
                s.oracle("for_val-minimal-width", fits(bits) && [0, 1, 2, 4].iter().all(|b| !fits(*b) || *b >= bits), || format!("delta {v}"), || format!("{bits}"));
            }
        }
        check_built(cfg, s, rng, &sc);
    }
    let all: [u64; 4] = [0, 1, 2, 3];
    let n = if cfg.thorough() { 1500 } else { 220 };
    for i in 0..n {
        let classes: &[u64] = match i % 6 {
            0 => &[1],
            1 => &[1, 2],
            2 => &[2, 3],
            3 => &[0, 1],
            _ => &all,
        };
        let n_regions = rng.range(1, if i % 7 == 0 { 9 } else { 5 }) as usize;
        let n_sets = match rng.below(8) { 0 => 0, 1 => 1, 2 => rng.range(30, 120) as usize, _ => rng.range(2, 24) as usize };
        let direct = i % 4 == 3;
        let sc = gen_scenario(rng, if direct { "random-direct" } else { "random" }, n_regions, n_sets, classes, direct);
        check_built(cfg, s, rng, &sc);
    }
    // many rows
    let sizes: Vec<(usize, bool)> = if cfg.thorough() {
        vec![(65535, false), (65536, false), (70_000, false), (70_000, true), (140_000, false)]
    } else {
        vec![(65_536, false), (66_000, true)]
    };
    for (n_sets, wide) in sizes {
        let sc = big_scenario(rng, n_sets, wide);
        check_built(cfg, s, rng, &sc);
    }
    // implicit-index builder at and over its documented limit
    for n_sets in if cfg.thorough() { vec![65_535usize, 65_536] } else { vec![65_535usize] } {
        let mut sc = big_scenario(rng, n_sets, false);
        sc.direct = true;
        sc.label = "big-direct";
        check_built(cfg, s, rng, &sc);
    }
}

// ------------------------------------------------------------------------------------------
// C. hand-serialised (incl. malformed) stores: delta_set, delta_row_len, compute_delta
// ------------------------------------------------------------------------------------------

fn run_raw(cfg: &Config, s: &mut Session, rng: &mut Rng) {
    let n = if cfg.thorough() { 6000 } else { 900 };
    for _ in 0..n {
        let axis_count = rng.range(1, 3) as u16;
        let n_regions = rng.range(0, 5) as usize;
        let regions: Vec<Region> = (0..n_regions).map(|_| (0..axis_count).map(|_| any_axis(rng)).collect()).collect();
        let n_subs = rng.range(0, 3) as usize;
        let mut subs = vec![];
        for si in 0..n_subs {
            if rng.chance(1, 6) {
                subs.push(None);
                continue;
            }
            let rc = rng.range(0, 5) as u16;
            let long = rng.chance(1, 3);
            let wl = match rng.below(6) { 0 => rc + 1 + rng.below(3) as u16, _ => rng.range(0, rc as i64) as u16 };
            let wdc = wl | if long { 0x8000 } else { 0 };
            let region_indexes: Vec<u16> = (0..rc)
                .map(|_| if n_regions == 0 || rng.chance(1, 12) { rng.range(0, 7) as u16 } else { rng.below(n_regions as u64) as u16 })
                .collect();
            let item_count = rng.range(0, 4) as u16;
            let row = RIvd::delta_row_len(wdc, rc);
            s.case("delta_row_len", format!("ivs.rowlen {wdc} {rc}"), row.to_string());
            let mut len = row * item_count as usize;
            // a truncated delta array is only observable on the last subtable (otherwise the
            // reader sees the following subtable's bytes)
            if si + 1 == n_subs && rng.chance(1, 4) {
                len = len.saturating_sub(rng.range(1, 3) as usize);
            }
            let data: Vec<u8> = (0..len).map(|_| if rng.chance(1, 3) { *rng.pick(&[0u8, 0x7f, 0x80, 0xff]) } else { rng.next() as u8 }).collect();
            subs.push(Some(RawSub { item_count, wdc, region_indexes, data }));
        }
        let store = RawStore { axis_count, regions, subs };
        let bytes = store.to_bytes();
        let prefix = store.req_prefix();
        let parsed = catch(|| parse_store(&bytes));
        let readable = matches!(&parsed, Ok(Ok(_)));
        s.count(if readable { "raw:readable" } else { "raw:unreadable" });
        for _ in 0..4 {
            let outer = rng.range(0, n_subs as i64) as u16;
            let inner = rng.range(0, 5) as u16;
            let nc = match rng.below(8) { 0 => 0, 1 => axis_count as usize + 1, 2 => axis_count as usize - 1, _ => axis_count as usize };
            let coords: Vec<i16> = (0..nc).map(|_| rand_f2(rng)).collect();
            let real = real_compute_delta(&bytes, outer, inner, &coords);
            s.count(&format!("raw-delta:{}", if real == "err" || real == "trap" || real == "readerr" { real.as_str() } else { "ok" }));
            if real == "readerr" {
                continue;
            }
            s.case("compute_delta(raw)", format!("ivs.delta {prefix} {outer} {inner} {}", lreq(&coords)), real);
            float::float_delta_case(s, rng, &bytes, &store, &prefix, outer, inner, &coords);
            // the row iterator itself
            if let Some(Some(sub)) = store.subs.get(outer as usize) {
                let row = catch(|| {
                    let ivs = RIvs::read(FontData::new(&bytes)).ok()?;
                    let d = ivs.item_variation_data().get(outer as usize)?.ok()?;
                    Some(d.delta_set(inner).collect::<Vec<i32>>())
                });
                if let Ok(Some(row)) = row {
                    let mut req = format!("ivs.deltaset {} {} {} {}", sub.wdc, sub.region_indexes.len(), inner, sub.data.len());
                    for b in &sub.data {
                        req.push_str(&format!(" {b}"));
                    }
                    s.case("delta_set", req, join(&row));
                }
            }
        }
    }
}

// ------------------------------------------------------------------------------------------
// D. DeltaSetIndexMap: writer packing + reader get
// ------------------------------------------------------------------------------------------

fn run_dsim(cfg: &Config, s: &mut Session, rng: &mut Rng) {
    let n = if cfg.thorough() { 8000 } else { 1200 };
    for t in 0..n {
        let len = match rng.below(6) { 0 => 1, 1 => rng.range(2, 4) as usize, _ => rng.range(1, 40) as usize };
        let outer_max: u32 = *rng.pick(&[0u32, 1, 3, 255, 256, 4095, 65535]);
        let inner_max: u32 = *rng.pick(&[0u32, 1, 2, 15, 16, 255, 256, 4095, 32767, 32768, 65535]);
        let mut mapping: Vec<u32> = (0..len)
            .map(|_| {
                let o = if rng.chance(1, 3) { outer_max } else { rng.below(outer_max as u64 + 1) as u32 };
                let i = if rng.chance(1, 3) { inner_max } else { rng.below(inner_max as u64 + 1) as u32 };
                (o << 16) | i
            })
            .collect();
        if t % 3 == 0 {
            // trailing run of equal entries
            let last = *mapping.last().unwrap();
            for _ in 0..rng.range(1, 5) {
                mapping.push(last);
            }
        }
        let desc = format!("mapping={mapping:?}");
        let built = catch(|| {
            let w: WDsim = mapping.iter().copied().collect();
            write_fonts::dump_table(&w).map_err(|e| e.to_string())
        });
        let bytes = match built {
            Ok(Ok(b)) => b,
            other => {
                s.oracle("dsim-builds", false, || desc.clone(), || format!("{other:?}"));
                continue;
            }
        };
        let Ok(r) = RDsim::read(FontData::new(&bytes)) else {
            s.oracle("dsim-reads-back", false, || desc.clone(), String::new);
            continue;
        };
        let (fmt, count, data): (u8, u32, Vec<u8>) = match &r {
            RDsim::Format0(f) => (f.entry_format().bits(), f.map_count() as u32, f.map_data().to_vec()),
            RDsim::Format1(f) => (f.entry_format().bits(), f.map_count(), f.map_data().to_vec()),
        };
        s.count(&format!("dsim-entry-size:{}", (fmt >> 4) + 1));
        s.case("DeltaSetIndexMap::from_iter", format!("dsim.pack {}", lreq(&mapping)), format!("{fmt} {count} {}", hex(&data)));
        let mut data_req = format!("{}", data.len());
        for b in &data {
            data_req.push_str(&format!(" {b}"));
        }
        for idx in (0..mapping.len() as u32 + 3).chain([65535, 65536, u32::MAX]) {
            let got = catch(|| r.get(idx).map(|d| (d.outer, d.inner)).map_err(|e| e.to_string()));
            let want = mapping[(idx as usize).min(mapping.len() - 1)];
            let ok = matches!(&got, Ok(Ok((o, i))) if ((*o as u32) << 16 | *i as u32) == want);
            s.oracle("dsim-roundtrip(get(i)=mapping[min(i,last)])", ok, || format!("{desc} idx={idx}"), || format!("got {got:?} want {:#x}", want));
            let resp = match &got { Ok(Ok((o, i))) => format!("{o} {i}"), Ok(Err(_)) => "err".into(), Err(_) => "trap".into() };
            s.case("DeltaSetIndexMap::get", format!("dsim.get {fmt} {count} {idx} {data_req}"), resp);
        }
    }
    // reader on arbitrary (format, count, data)
    let n = if cfg.thorough() { 20_000 } else { 3000 };
    for _ in 0..n {
        let fmt = rng.below(64) as u8;
        let entry_size = (fmt >> 4) as usize + 1;
        let count = rng.range(0, 6) as u16;
        let mut len = entry_size * count as usize;
        if rng.chance(1, 6) {
            len = len.saturating_sub(1);
        }
        let data: Vec<u8> = rng.bytes(len);
        let mut bytes = vec![0u8, fmt];
        bytes.extend_from_slice(&count.to_be_bytes());
        bytes.extend_from_slice(&data);
        let idx = rng.range(0, 8) as u32;
        let got = catch(|| match RDsim::read(FontData::new(&bytes)) {
            Ok(r) => match r.get(idx) { Ok(d) => format!("{} {}", d.outer, d.inner), Err(_) => "err".into() },
            Err(_) => "readerr".into(),
        }).unwrap_or_else(|_| "trap".into());
        if got == "readerr" {
            s.count("dsim-raw:readerr");
            continue;
        }
        let mut data_req = format!("{}", data.len());
        for b in &data {
            data_req.push_str(&format!(" {b}"));
        }
        s.case("DeltaSetIndexMap::get(raw)", format!("dsim.get {fmt} {count} {idx} {data_req}"), got);
    }
}

// ------------------------------------------------------------------------------------------
// E. normalisation
// ------------------------------------------------------------------------------------------

fn axis_record(min: i32, def: i32, max: i32) -> read_fonts::tables::fvar::VariationAxisRecord {
    read_fonts::tables::fvar::VariationAxisRecord {
        axis_tag: BigEndian::from(Tag::new(b"wght")),
        min_value: BigEndian::from(Fixed::from_bits(min)),
        default_value: BigEndian::from(Fixed::from_bits(def)),
        max_value: BigEndian::from(Fixed::from_bits(max)),
        flags: BigEndian::from(0u16),
        axis_name_id: BigEndian::from(NameId::new(256)),
    }
}

fn real_normalize(min: i32, def: i32, max: i32, v: i32) -> Result<i32, String> {
    let rec = axis_record(min, def, max);
    catch(|| rec.normalize(Fixed::from_bits(v)).to_bits())
}

fn normalize_case(s: &mut Session, min: i32, def: i32, max: i32, v: i32) -> Option<i32> {
    let got = real_normalize(min, def, max, v);
    s.case("VariationAxisRecord::normalize", format!("norm.axis {min} {def} {max} {v}"), trap_or(got.clone()));
    let input = || format!("axis(min={min}, default={def}, max={max}).normalize({v})");
    s.oracle("normalize-total", got.is_ok(), input, || format!("{got:?}"));
    let g = got.ok()?;
    s.oracle("normalize-in-[-1,1]", (-65536..=65536).contains(&g), input, || format!("{g}"));
    let emax = max.max(min);
    // exact value wherever the axis record is well formed (min <= default <= max)
    if min <= def && def <= emax {
        let vc = (v as i64).clamp(min as i64, emax as i64);
        let want: i128 = if vc < def as i64 {
            -rha((def as i128 - vc as i128) * 65536, def as i128 - min as i128)
        } else if vc > def as i64 {
            rha((vc as i128 - def as i128) * 65536, emax as i128 - def as i128)
        } else {
            0
        };
        let sat = (def as i64 - min as i64) > i32::MAX as i64 || (emax as i64 - def as i64) > i32::MAX as i64;
        if !sat {
            s.oracle("normalize=exact-rounded-ratio", g as i128 == want, input, || format!("got {g} want {want}"));
        } else {
            // axis ranges wider than 32768 units: the code saturates the differences; only the
            // property's own claims (fixed points, clamping, monotonicity, range) are checked there
            s.count("normalize:saturating-range");
            s.oracle("normalize-saturating-sign", (g as i128).signum() * want.signum() >= 0, input, || format!("got {g} want {want}"));
        }
    } else {
        s.count("normalize:degenerate-record");
    }
    Some(g)
}

fn fixed_grid() -> Vec<i32> {
    let mut v: Vec<i64> = vec![];
    for b in [0i64, 1, 0x8000, 0x10000, 100 << 16, 400 << 16, 900 << 16, 1000 << 16, 0x3FFF_FFFF, 0x4000_0000, 0x7FFF_FFFF] {
        for d in [-1i64, 0, 1] {
            v.push(b + d);
            v.push(-(b + d));
        }
    }
    v.push(i32::MIN as i64);
    let mut out: Vec<i32> = v.into_iter().filter(|x| *x >= i32::MIN as i64 && *x <= i32::MAX as i64).map(|x| x as i32).collect();
    out.sort();
    out.dedup();
    out
}

fn run_normalize(cfg: &Config, s: &mut Session, rng: &mut Rng) {
    let grid = fixed_grid();
    let small: Vec<i32> = vec![i32::MIN, -(1000 << 16), -0x10000, -1, 0, 1, 0x10000, 100 << 16, 400 << 16, 900 << 16, i32::MAX];
    let recs: Vec<(i32, i32, i32)> = {
        let mut r = vec![];
        let g: &Vec<i32> = if cfg.thorough() { &grid } else { &small };
        for &a in g {
            for &b in g {
                for &c in g {
                    r.push((a, b, c));
                }
            }
        }
        r
    };
    for (i, &(min, def, max)) in recs.iter().enumerate() {
        // in thorough the full grid^3 is large: subsample records deterministically but keep all well-formed ones
        if cfg.thorough() && !(min <= def && def <= max) && i % 5 != 0 {
            continue;
        }
        let mut vals: BTreeSet<i32> = BTreeSet::new();
        for v in [min, def, max] {
            for d in [-1i64, 0, 1] {
                vals.insert((v as i64 + d).clamp(i32::MIN as i64, i32::MAX as i64) as i32);
            }
        }
        vals.insert(((min as i64 + def as i64) / 2) as i32);
        vals.insert(((max as i64 + def as i64) / 2) as i32);
        vals.insert(i32::MIN);
        vals.insert(i32::MAX);
        vals.insert(0);
        let emax = max.max(min);
        let mut prev: Option<(i32, i32)> = None;
        for &v in &vals {
            let g = normalize_case(s, min, def, max, v);
            if let Some(g) = g {
                if let Some((pv, pg)) = prev {
                    s.oracle("normalize-monotone", pg <= g, || format!("axis(min={min}, default={def}, max={max}) values {pv} < {v}"), || format!("{pg} > {g}"));
                }
                prev = Some((v, g));
                let input = || format!("axis(min={min}, default={def}, max={max}).normalize({v})");
                if min <= def && def <= emax {
                    if v == def {
                        s.oracle("normalize(default)=0", g == 0, input, || format!("{g}"));
                    }
                    if v == min && min < def {
                        s.oracle("normalize(min)=-1", g == -65536, input, || format!("{g}"));
                    }
                    if v == emax && def < emax {
                        s.oracle("normalize(max)=1", g == 65536, input, || format!("{g}"));
                    }
                }
                if v < min {
                    let at = real_normalize(min, def, max, min);
                    s.oracle("normalize-clamps-below", at == Ok(g), input, || format!("{g} vs normalize(min)={at:?}"));
                }
                if v > emax {
                    let at = real_normalize(min, def, max, emax);
                    s.oracle("normalize-clamps-above", at == Ok(g), input, || format!("{g} vs normalize(max)={at:?}"));
                }
            }
        }
    }
    // realistic axes, dense value sweeps
    let n = if cfg.thorough() { 3000 } else { 400 };
    for _ in 0..n {
        let mut t = [rng.range(-2000, 2000) as i32, rng.range(-2000, 2000) as i32, rng.range(-2000, 2000) as i32];
        t.sort();
        let frac = |rng: &mut Rng| if rng.chance(1, 2) { 0 } else { rng.below(65536) as i32 };
        let (min, def, max) = (t[0] * 65536 + frac(rng), t[1] * 65536 + frac(rng), t[2] * 65536 + frac(rng));
        let (min, def, max) = { let mut q = [min, def, max]; q.sort(); (q[0], q[1], q[2]) };
        let mut prev: Option<(i32, i32)> = None;
        let mut vals: Vec<i32> = (0..12).map(|_| rng.range(min as i64 - 70000, max as i64 + 70000) as i32).collect();
        vals.sort();
        for v in vals {
            if let Some(g) = normalize_case(s, min, def, max, v) {
                if let Some((pv, pg)) = prev {
                    s.oracle("normalize-monotone", pg <= g, || format!("axis(min={min}, default={def}, max={max}) values {pv} <= {v}"), || format!("{pg} > {g}"));
                }
                prev = Some((v, g));
            }
        }
    }
}

// ---- avar --------------------------------------------------------------------------------

fn real_avar_apply(maps: &[(i16, i16)], coord: i32) -> Result<i32, String> {
    let recs: Vec<read_fonts::tables::avar::AxisValueMap> = maps
        .iter()
        .map(|(f, t)| read_fonts::tables::avar::AxisValueMap {
            from_coordinate: BigEndian::from(F2Dot14::from_bits(*f)),
            to_coordinate: BigEndian::from(F2Dot14::from_bits(*t)),
        })
        .collect();
    catch(|| {
        let sm = read_fonts::tables::avar::SegmentMaps { position_map_count: BigEndian::from(recs.len() as u16), axis_value_maps: &recs };
        sm.apply(Fixed::from_bits(coord)).to_bits()
    })
}

fn gen_valid_map(rng: &mut Rng) -> Vec<(i16, i16)> {
    // strictly increasing from, non-decreasing to, containing -1 -> -1, 0 -> 0, 1 -> 1
    let k = rng.range(0, 6) as usize;
    let mut froms: BTreeSet<i16> = [-16384i16, 0, 16384].into_iter().collect();
    for _ in 0..k {
        froms.insert(rng.range(-16383, 16383) as i16);
    }
    let froms: Vec<i16> = froms.into_iter().collect();
    let neg: Vec<i16> = froms.iter().copied().filter(|f| *f < 0 && *f > -16384).collect();
    let pos: Vec<i16> = froms.iter().copied().filter(|f| *f > 0 && *f < 16384).collect();
    let mut tn: Vec<i16> = neg.iter().map(|_| rng.range(-16384, 0) as i16).collect();
    tn.sort();
    let mut tp: Vec<i16> = pos.iter().map(|_| rng.range(0, 16384) as i16).collect();
    tp.sort();
    let mut out = vec![(-16384, -16384)];
    out.extend(neg.into_iter().zip(tn));
    out.push((0, 0));
    out.extend(pos.into_iter().zip(tp));
    out.push((16384, 16384));
    out
}

fn avar_case(s: &mut Session, maps: &[(i16, i16)], coord: i32, valid: bool) -> Option<i32> {
    let got = real_avar_apply(maps, coord);
    let mut req = format!("avar.apply {}", maps.len());
    for (f, t) in maps {
        req.push_str(&format!(" {f} {t}"));
    }
    req.push_str(&format!(" {coord}"));
    s.case("SegmentMaps::apply", req, trap_or(got.clone()));
    let input = || format!("maps={maps:?} coord={coord}");
    s.oracle("avar-apply-total", got.is_ok(), input, || format!("{got:?}"));
    let g = got.ok()?;
    if valid {
        // specification: piecewise linear through the points, identity outside
        let c = coord as i128;
        let pts: Vec<(i128, i128)> = maps.iter().map(|(f, t)| (*f as i128 * 4, *t as i128 * 4)).collect();
        let want: i128 = if let Some((_, t)) = pts.iter().find(|(f, _)| *f == c) {
            s.count("avar:at-point");
            *t
        } else if c < pts[0].0 || c > pts[pts.len() - 1].0 {
            s.count("avar:outside");
            c
        } else {
            s.count("avar:between");
            let j = pts.iter().position(|(f, _)| *f > c).unwrap();
            let (f0, t0) = pts[j - 1];
            let (f1, t1) = pts[j];
            t0 + rha((t1 - t0) * (c - f0), f1 - f0)
        };
        s.oracle("avar-apply=piecewise-linear", g as i128 == want, input, || format!("got {g} want {want}"));
    }
    Some(g)
}

fn run_avar(cfg: &Config, s: &mut Session, rng: &mut Rng) {
    let n = if cfg.thorough() { 6000 } else { 800 };
    for i in 0..n {
        let valid = i % 4 != 3;
        let maps: Vec<(i16, i16)> = if valid {
            gen_valid_map(rng)
        } else {
            // arbitrary: unsorted, duplicate froms, non-monotone, empty
            let k = rng.range(0, 6) as usize;
            (0..k).map(|_| (rand_f2(rng), rand_f2(rng))).collect()
        };
        let mut coords: BTreeSet<i32> = BTreeSet::new();
        for (f, _) in &maps {
            for d in [-1, 0, 1] {
                coords.insert(*f as i32 * 4 + d);
            }
        }
        for w in maps.windows(2) {
            coords.insert((w[0].0 as i32 * 4 + w[1].0 as i32 * 4) / 2);
        }
        for c in [-65537, -65536, 0, 65536, 65537, i32::MIN, i32::MAX, -131072, 131071] {
            coords.insert(c);
        }
        for _ in 0..6 {
            coords.insert(rng.range(-70000, 70000) as i32);
        }
        let mut prev: Option<(i32, i32)> = None;
        for &c in &coords {
            if let Some(g) = avar_case(s, &maps, c, valid) {
                if valid {
                    if let Some((pc, pg)) = prev {
                        s.oracle("avar-monotone-if-map-monotone", pg <= g, || format!("maps={maps:?} coords {pc} < {c}"), || format!("{pg} > {g}"));
                    }
                    prev = Some((c, g));
                }
            }
        }
    }
}

// ---- user_to_normalized through real fvar/avar tables and skrifa ---------------------------

fn build_var_font(axes: &[(i32, i32, i32)], maps: Option<&[Vec<(i16, i16)>]>, extra: impl FnOnce(&mut write_fonts::FontBuilder)) -> Result<Vec<u8>, String> {
    use write_fonts::tables::{avar, fvar};
    let tags = [b"wght", b"wdth", b"opsz", b"slnt"];
    let recs: Vec<fvar::VariationAxisRecord> = axes
        .iter()
        .enumerate()
        .map(|(i, (a, b, c))| fvar::VariationAxisRecord::new(Tag::new(tags[i % 4]), Fixed::from_bits(*a), Fixed::from_bits(*b), Fixed::from_bits(*c), 0, NameId::new(256 + i as u16)))
        .collect();
    let f = fvar::Fvar::new(fvar::AxisInstanceArrays::new(recs, vec![]));
    let mut fb = write_fonts::FontBuilder::new();
    fb.add_table(&f).map_err(|e| e.to_string())?;
    if let Some(maps) = maps {
        let sm: Vec<avar::SegmentMaps> = maps
            .iter()
            .map(|m| avar::SegmentMaps::new(m.iter().map(|(f, t)| avar::AxisValueMap::new(F2Dot14::from_bits(*f), F2Dot14::from_bits(*t))).collect()))
            .collect();
        fb.add_table(&avar::Avar::new(sm)).map_err(|e| e.to_string())?;
    }
    extra(&mut fb);
    Ok(fb.build())
}

fn run_user_to_normalized(cfg: &Config, s: &mut Session, rng: &mut Rng) {
    use skrifa::MetadataProvider;
    let n = if cfg.thorough() { 1500 } else { 250 };
    for i in 0..n {
        let n_axes = rng.range(1, 3) as usize;
        let axes: Vec<(i32, i32, i32)> = (0..n_axes)
            .map(|_| {
                let mut t = [rng.range(-1000, 1000) as i32 * 65536, rng.range(-1000, 1000) as i32 * 65536 + rng.below(65536) as i32, rng.range(-1000, 1000) as i32 * 65536];
                if rng.chance(5, 6) {
                    t.sort();
                }
                if rng.chance(1, 8) { t[1] = t[0]; }
                if rng.chance(1, 8) { t[1] = t[2]; }
                (t[0], t[1], t[2])
            })
            .collect();
        let with_avar = i % 3 != 0;
        let maps: Vec<Vec<(i16, i16)>> = (0..n_axes).map(|_| if rng.chance(4, 5) { gen_valid_map(rng) } else { (0..rng.range(0, 4)).map(|_| (rand_f2(rng), rand_f2(rng))).collect() }).collect();
        let font = match build_var_font(&axes, if with_avar { Some(&maps) } else { None }, |_| {}) {
            Ok(f) => f,
            Err(e) => {
                s.oracle("var-font-builds", false, || format!("axes={axes:?} maps={maps:?}"), || e.clone());
                continue;
            }
        };
        let Ok(fref) = FontRef::new(&font) else { continue };
        let fvar = fref.fvar().unwrap();
        let avar = fref.avar().ok();
        for _ in 0..6 {
            let ai = rng.below(n_axes as u64) as usize;
            let (a, b, c) = axes[ai];
            let v: i32 = match rng.below(5) {
                0 => a,
                1 => b,
                2 => c,
                3 => rng.range(a.min(c) as i64 - 70000, a.max(c) as i64 + 70000) as i32,
                _ => ((a as i64 + b as i64) / 2) as i32,
            };
            let tag = fvar.axes().unwrap()[ai].axis_tag();
            let mut out = vec![F2Dot14::ZERO; n_axes];
            let r = catch(|| {
                fvar.user_to_normalized(avar.as_ref(), [(tag, Fixed::from_bits(v))], &mut out);
                out.iter().map(|x| x.to_bits()).collect::<Vec<i16>>()
            });
            let mut req = format!("norm.user {a} {b} {c} {v} {}", if with_avar { 1 } else { 0 });
            if with_avar {
                req.push_str(&format!(" {}", maps[ai].len()));
                for (f, t) in &maps[ai] {
                    req.push_str(&format!(" {f} {t}"));
                }
            }
            // with duplicate tags (n_axes <= 4: tags distinct) only axis `ai` is set
            let resp = match &r { Ok(o) => o[ai].to_string(), Err(_) => "trap".into() };
            s.case("Fvar::user_to_normalized", req.clone(), resp.clone());
            if let Ok(o) = &r {
                let others_zero = o.iter().enumerate().all(|(j, x)| j == ai || *x == 0);
                s.oracle("user_to_normalized-untouched-axes-are-0", others_zero, || format!("axes={axes:?} set axis {ai}"), || format!("{o:?}"));
            }
            // skrifa: AxisCollection::location with an f32 user value that is exactly representable
            let vf = (v >> 8 << 8) as f32 / 65536.0; // 24 significant bits at most
            let vbits = Fixed::from_f64(vf as f64).to_bits();
            let loc = catch(|| {
                let loc = fref.axes().location([(tag, vf)]);
                loc.coords().iter().map(|x| x.to_bits()).collect::<Vec<i16>>()
            });
            let mut req2 = format!("norm.user {a} {b} {c} {vbits} {}", if with_avar { 1 } else { 0 });
            if with_avar {
                req2.push_str(&format!(" {}", maps[ai].len()));
                for (f, t) in &maps[ai] {
                    req2.push_str(&format!(" {f} {t}"));
                }
            }
            s.case("skrifa AxisCollection::location", req2, match &loc { Ok(o) => o[ai].to_string(), Err(_) => "trap".into() });
            if !with_avar {
                let ax = catch(|| fref.axes().get(ai).unwrap().normalize(vf).to_bits());
                s.oracle("skrifa Axis::normalize = location (no avar)", matches!((&ax, &loc), (Ok(x), Ok(l)) if *x == l[ai]), || format!("axes={axes:?} axis {ai} value {vf}"), || format!("{ax:?} vs {loc:?}"));
            }
        }
        // several settings incl. repeated axes: the documentation says the LAST setting of an axis wins, so the
        // result must equal the one obtained from the last setting of each axis alone (model independent)
        for _ in 0..3 {
            let k = rng.range(2, 5) as usize;
            let settings: Vec<(usize, i32)> = (0..k)
                .map(|_| {
                    let ai = rng.below(n_axes as u64) as usize;
                    let (a, b, c) = axes[ai];
                    let v = match rng.below(4) { 0 => a, 1 => b, 2 => c, _ => rng.range(a.min(c) as i64 - 70000, a.max(c) as i64 + 70000) as i32 };
                    (ai, v >> 8 << 8)
                })
                .collect();
            let mut last: Vec<Option<i32>> = vec![None; n_axes];
            for (ai, v) in &settings {
                last[*ai] = Some(*v);
            }
            let tags: Vec<_> = fvar.axes().unwrap().iter().map(|a| a.axis_tag()).collect();
            let all = catch(|| {
                let mut out = vec![F2Dot14::ZERO; n_axes];
                fvar.user_to_normalized(avar.as_ref(), settings.iter().map(|(ai, v)| (tags[*ai], Fixed::from_bits(*v))), &mut out);
                out.iter().map(|x| x.to_bits()).collect::<Vec<i16>>()
            });
            let only_last = catch(|| {
                let mut out = vec![F2Dot14::ZERO; n_axes];
                fvar.user_to_normalized(avar.as_ref(), last.iter().enumerate().filter_map(|(ai, v)| v.map(|v| (tags[ai], Fixed::from_bits(v)))), &mut out);
                out.iter().map(|x| x.to_bits()).collect::<Vec<i16>>()
            });
            s.oracle("user_to_normalized-repeated-axis-last-setting-wins", all.is_ok() && all == only_last,
                || format!("axes={axes:?} avar={} settings={settings:?}", if with_avar { format!("{maps:?}") } else { "-".into() }), || format!("all {all:?} vs last-only {only_last:?}"));
            let loc_all = catch(|| fref.axes().location(settings.iter().map(|(ai, v)| (tags[*ai], *v as f32 / 65536.0))).coords().iter().map(|x| x.to_bits()).collect::<Vec<i16>>());
            let loc_last = catch(|| fref.axes().location(last.iter().enumerate().filter_map(|(ai, v)| v.map(|v| (tags[ai], v as f32 / 65536.0)))).coords().iter().map(|x| x.to_bits()).collect::<Vec<i16>>());
            s.oracle("skrifa-location-repeated-axis-last-setting-wins", loc_all.is_ok() && loc_all == loc_last,
                || format!("axes={axes:?} settings={settings:?}"), || format!("all {loc_all:?} vs last-only {loc_last:?}"));
        }
    }
}

// ------------------------------------------------------------------------------------------
// F. glyph metrics with HVAR deltas
// ------------------------------------------------------------------------------------------

/// The two `(|…|>=32768)` oracle families are known findings: record at most a few failures of
/// each so that they cannot crowd other failures out of the session's bounded failure list.
fn capped_oracle(s: &mut Session, name: &str, ok: bool, input: impl FnOnce() -> String, detail: impl FnOnce() -> String) {
    if !ok && name.contains(">=32768") {
        let key = format!("failed:{name}");
        let seen = s.dist.get(&key).copied().unwrap_or(0);
        s.count(&key);
        if seen >= 3 {
            return;
        }
    }
    s.oracle(name, ok, input, detail);
}

fn run_metrics(cfg: &Config, s: &mut Session, rng: &mut Rng) {
    use skrifa::instance::{LocationRef, Size};
    use skrifa::MetadataProvider;
    use write_fonts::tables::{head::Head, hhea::Hhea, hmtx, hvar::Hvar, maxp::Maxp};
    let n = if cfg.thorough() { 1200 } else { 200 };
    for t in 0..n {
        let num_glyphs = rng.range(1, 12) as u16;
        let n_long = rng.range(1, num_glyphs as i64) as u16; // number_of_h_metrics >= 1 (required by the format)
        let big = t % 5 == 0;
        let adv = |rng: &mut Rng| -> u16 { if big { *rng.pick(&[0u16, 1, 32767, 32768, 40000, 65535]) } else { rng.range(0, 4000) as u16 } };
        let h_metrics: Vec<(u16, i16)> = (0..n_long).map(|_| (adv(rng), rng.range(-500, 500) as i16)).collect();
        let n_lsb = num_glyphs - n_long;
        let lsbs: Vec<i16> = (0..n_lsb).map(|_| if big { *rng.pick(&[i16::MIN, -1, 0, i16::MAX]) } else { rng.range(-500, 500) as i16 }).collect();
        let upem = *rng.pick(&[1000u16, 2048, 16, 16384]);
        // HVAR: one delta set per glyph
        let regions: Vec<Region> = vec![vec![(0, 16384, 16384)], vec![(-16384, -16384, 0)], vec![(0, 8192, 16384)]];
        let classes: &[u64] = if big { &[2, 3] } else { &[0, 1, 2] };
        let per_glyph: Vec<Vec<(usize, i32)>> = (0..num_glyphs)
            .map(|_| {
                let mut v = vec![];
                for r in 0..regions.len() {
                    if rng.chance(2, 3) {
                        let c = *rng.pick(classes);
                        v.push((r, delta_value(rng, c)));
                    }
                }
                v
            })
            .collect();
        let mode = t % 3; // 0: implicit indices, no map; 1: dedup + advance map; 2: dedup + advance & lsb maps
        let hvar_bytes = catch(|| {
            let mut b = if mode == 0 { VariationStoreBuilder::new_with_implicit_indices(1) } else { VariationStoreBuilder::new(1) };
            let ids: Vec<u32> = per_glyph.iter().map(|set| b.add_deltas(set.iter().map(|(r, d)| (w_region(&regions[*r]), *d)).collect::<Vec<_>>())).collect();
            let (store, map) = b.build();
            let dsim = |shift: usize| -> WDsim {
                ids.iter().cycle().skip(shift).take(ids.len()).map(|id| { let vi = map.get(*id).unwrap(); ((vi.delta_set_outer_index as u32) << 16) | vi.delta_set_inner_index as u32 }).collect()
            };
            let hv = match mode {
                0 => Hvar::new(store, None, None, None),
                1 => Hvar::new(store, Some(dsim(0)), None, None),
                _ => Hvar::new(store, Some(dsim(0)), Some(dsim(1)), None),
            };
            hv
        });
        let Ok(hv) = hvar_bytes else {
            s.oracle("hvar-builds", false, || format!("per_glyph={per_glyph:?}"), String::new);
            continue;
        };
        let font = catch(|| {
            let mut fb = write_fonts::FontBuilder::new();
            let head = Head { units_per_em: upem, ..Default::default() };
            fb.add_table(&head).unwrap();
            fb.add_table(&Maxp::new(num_glyphs)).unwrap();
            let hhea = Hhea::new(0.into(), 0.into(), 0.into(), 0.into(), 0.into(), 0.into(), 0.into(), 0, 0, 0, n_long);
            fb.add_table(&hhea).unwrap();
            fb.add_table(&hmtx::Hmtx::new(h_metrics.iter().map(|(a, l)| hmtx::LongMetric::new(*a, *l)).collect(), lsbs.clone())).unwrap();
            fb.add_table(&hv).unwrap();
            fb.build()
        });
        let Ok(font) = font else {
            s.oracle("metrics-font-builds", false, || format!("glyphs={num_glyphs} long={n_long}"), String::new);
            continue;
        };
        let Ok(fref) = FontRef::new(&font) else { continue };
        let hvar = fref.hvar().unwrap();
        let desc = format!("num_glyphs={num_glyphs} h_metrics={h_metrics:?} lsbs={lsbs:?} mode={mode} deltas={per_glyph:?}");
        for _ in 0..3 {
            let coord: i16 = *rng.pick(&[16384i16, -16384, 8192, 8191, 4096, 1, -1, 12288, 0]);
            let coords = [F2Dot14::from_bits(coord)];
            let gm = fref.glyph_metrics(Size::unscaled(), LocationRef::new(&coords));
            for gid in 0..num_glyphs as u32 + 2 {
                // raw HVAR delta of the real code (its arithmetic is covered by the compute_delta cases)
                let raw_adv = catch(|| {
                    let ix = match hvar.advance_width_mapping() { Some(Ok(m)) => m.get(gid).ok(), _ => Some(DeltaSetIndex { outer: 0, inner: gid as u16 }) };
                    ix.and_then(|ix| hvar.item_variation_store().ok()?.compute_delta(ix, &coords).ok())
                }).ok().flatten();
                let raw_lsb = catch(|| {
                    let ix = match hvar.lsb_mapping() { Some(Ok(m)) => m.get(gid).ok(), _ => None };
                    ix.and_then(|ix| hvar.item_variation_store().ok()?.compute_delta(ix, &coords).ok())
                }).ok().flatten();
                let effective = coord != 0; // LocationRef::effective_coords: all-zero coords mean "no variation"
                let adv = catch(|| gm.advance_width(GlyphId::new(gid)));
                let lsb = catch(|| gm.left_side_bearing(GlyphId::new(gid)));
                let show = |r: &Result<Option<f32>, String>| match r { Ok(Some(v)) => format!("{}", (*v as f64 * 65536.0) as i64), Ok(None) => "none".into(), Err(_) => "trap".into() };
                // spec: which glyph's delta set, which base value
                let in_range = gid < num_glyphs as u32;
                let spec_set_adv = per_glyph.get(gid as usize);
                let spec_delta_of = |set: Option<&Vec<(usize, i32)>>| -> i64 {
                    match set { Some(set) if effective => spec_delta(&set.iter().map(|(r, d)| (*d as i64, spec_scalar(&regions[*r], &[coord]).0)).collect::<Vec<_>>()), _ => 0 }
                };
                let base_adv = h_metrics.get(gid as usize).map(|m| m.0).unwrap_or(h_metrics.last().unwrap().0) as i64;
                let base_lsb = h_metrics.get(gid as usize).map(|m| m.1).unwrap_or_else(|| lsbs.get(gid as usize - n_long as usize).copied().unwrap_or(0)) as i64;
                let input = || format!("{desc} | coord={coord} gid={gid}");
                if in_range {
                    let sd = spec_delta_of(spec_set_adv);
                    let want = base_adv + sd;
                    let got_units = match &adv { Ok(Some(v)) => Some(*v as f64), _ => None };
                    let name = if sd.abs() >= 32768 {
                        "advance=base+delta(|delta|>=32768)"
                    } else if want.abs() >= 32768 {
                        "advance=base+delta(|result|>=32768 unscaled)"
                    } else {
                        "advance=base+delta"
                    };
                    capped_oracle(s, name, got_units == Some(want as f64), input, || format!("got {adv:?} want {want} (base {base_adv} delta {sd})"));
                    if mode == 2 {
                        let set = per_glyph.get((gid as usize + 1) % num_glyphs as usize);
                        let sd = spec_delta_of(set);
                        let want = base_lsb + sd;
                        let got_units = match &lsb { Ok(Some(v)) => Some(*v as f64), _ => None };
                        let name = if sd.abs() >= 32768 {
                            "lsb=base+delta(|delta|>=32768)"
                        } else if want.abs() >= 32768 {
                            "lsb=base+delta(|result|>=32768 unscaled)"
                        } else {
                            "lsb=base+delta"
                        };
                        capped_oracle(s, name, got_units == Some(want as f64), input, || format!("got {lsb:?} want {want} (base {base_lsb} delta {sd})"));
                    } else {
                        let got_units = match &lsb { Ok(Some(v)) => Some(*v as f64), _ => None };
                        s.oracle("lsb=base(no lsb map)", got_units == Some(base_lsb as f64), input, || format!("got {lsb:?} want {base_lsb}"));
                    }
                } else {
                    s.oracle("metrics-none-beyond-glyph-count", matches!(&adv, Ok(None)) && matches!(&lsb, Ok(None)), input, || format!("{adv:?} {lsb:?}"));
                }
                s.count(if (gid as usize) < h_metrics.len() { "gid:long-metric" } else if in_range { "gid:beyond-long-metrics" } else { "gid:beyond-glyph-count" });
                // correspondence with Model/Metrics.lean (unscaled: scale factor 0x10000 * 64)
                let mut req = format!("met.adv {num_glyphs} {gid} {} {} {} {} {}",
                    if effective && raw_adv.is_some() { 1 } else { 0 }, raw_adv.unwrap_or(0),
                    if effective && raw_lsb.is_some() { 1 } else { 0 }, raw_lsb.unwrap_or(0), h_metrics.len());
                for (a, l) in &h_metrics {
                    req.push_str(&format!(" {a} {l}"));
                }
                req.push_str(&format!(" {}", lsbs.len()));
                for l in &lsbs {
                    req.push_str(&format!(" {l}"));
                }
                s.case("GlyphMetrics::advance_width/left_side_bearing", req, format!("{} {}", show(&adv), show(&lsb)));
            }
        }
        // scaled sizes: FixedScaleFactor
        for ppem in [8.0f32, 16.0, 12.5, 1000.0] {
            let coords = [F2Dot14::from_bits(16384)];
            let gm = fref.glyph_metrics(Size::new(ppem), LocationRef::new(&coords));
            let gid = rng.below(num_glyphs as u64) as u32;
            let adv = catch(|| gm.advance_width(GlyphId::new(gid)));
            let raw_adv = catch(|| {
                let ix = match hvar.advance_width_mapping() { Some(Ok(m)) => m.get(gid).ok(), _ => Some(DeltaSetIndex { outer: 0, inner: gid as u16 }) };
                ix.and_then(|ix| hvar.item_variation_store().ok()?.compute_delta(ix, &coords).ok())
            }).ok().flatten();
            let base_adv = h_metrics.get(gid as usize).map(|m| m.0).unwrap_or(h_metrics.last().unwrap().0) as i64;
            let ppem64 = (ppem * 64.0) as i32;
            let got = match &adv { Ok(Some(v)) => format!("{}", (*v as f64 * 65536.0) as i64), Ok(None) => "none".into(), Err(_) => "trap".into() };
            if let Ok(Some(v)) = &adv {
                if (*v as f64 * 65536.0).abs() >= 16_777_216.0 {
                    // beyond f32's 24-bit significand: `to_f32` rounds, bits are not recoverable
                    s.count("scaled:beyond-f32-exact");
                    continue;
                }
            }
            s.case("FixedScaleFactor::apply", format!("met.scaled {ppem64} {upem} {base_adv} {}", raw_adv.unwrap_or(0)), got);
        }
    }
}

fn main() {
    fv_harness::main_with("C11", run);
}

fn run(cfg: &Config, s: &mut Session) {
    let mut rng = Rng::new(cfg.seed);
    run_scalar(cfg, s, &mut rng);
    run_builder(cfg, s, &mut rng);
    run_raw(cfg, s, &mut rng);
    run_dsim(cfg, s, &mut rng);
    run_normalize(cfg, s, &mut rng);
    run_avar(cfg, s, &mut rng);
    run_user_to_normalized(cfg, s, &mut rng);
    run_metrics(cfg, s, &mut rng);
    // second generation (sub-modules in c11/): own generators so that the streams above stay unchanged
    let mut rng2 = Rng::new(cfg.seed ^ 0xC11_0002);
    coords::run_settings(cfg, s, &mut rng2);
    float::run_ops(cfg, s, &mut rng2);
    float::run_scalar_f32(cfg, s, &mut rng2);
    float::run_float_delta(cfg, s, &mut rng2);
    metrics2::run_scaled(cfg, s, &mut rng2);
    metrics2::run_gvar_metrics(cfg, s, &mut rng2);
    metrics2::run_var_tables(cfg, s, &mut rng2);
    metrics2::run_vertical(cfg, s, &mut rng2);
    metrics2::run_direct_limit(cfg, s, &mut rng2);
    metrics2::run_store_bytes_handmade(cfg, s, &mut rng2);
}
