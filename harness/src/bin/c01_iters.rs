//! dev-only binary: runs just the `iters` part of C01 (same module file as bin `c01`).
use fv_harness::common::*;
#[path = "c01/iters.rs"]
mod iters;
fn run(cfg: &Config, s: &mut Session) { iters::run(cfg, s) }
fn main() { fv_harness::main_with("C01", run) }
